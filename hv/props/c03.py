"""C03 -- emitted documents conform to the published wire format and are index-sane.

R1 emit only through the validating models; R2 one index space (= C02.R3); R3 root first and own
parent; R4 parent-before-child must come from the hierarchy, not from index order; R5 the order port
is addressed from the operation's signature; R6 static-port wiring in the builders.
"""
from __future__ import annotations

import ast

from ..model import calls_in, call_name, kwarg, real_body, u, walk_no_nested
from .c02 import r2_single_use_iterators, r3_one_index_space

BASE = "hugr.hugr.base"
COUNTERS = {"num_ports", "num_in_ports", "num_out_ports", "_num_inps", "_num_outs", "num_incoming", "num_outgoing"}


def r1_emitters(ctx) -> None:
    """every public JSON emitter dumps a model built by its validating constructor"""
    prog = ctx.program
    table = [
        ("hugr.hugr.base.Hugr.to_json", ("_to_serial", "to_json")),
        ("hugr._serialization.serial_hugr.SerialHugr.to_json", ("model_dump_json",)),
        ("hugr.package.Package.to_json", ("_to_serial", "model_dump_json")),
        ("hugr.ext.Extension.to_json", ("_to_serial", "model_dump_json")),
    ]
    for q, chain in table:
        c, m = prog.method(q)
        m = ctx.cfn(q)       # (canonical: a private helper shared with the envelope writer is seen through)
        rets = [s for s in ast.walk(m) if isinstance(s, ast.Return) and s.value is not None]
        ok = len(rets) == 1
        if ok:
            e = rets[0].value
            names = []
            while isinstance(e, ast.Call) and isinstance(e.func, ast.Attribute):
                names.append(e.func.attr)
                if e.args or e.keywords:
                    ok = False
                e = e.func.value
            ok = ok and tuple(reversed(names)) == chain and u(e) == "self"
        ctx.check(ok, "C03.R1", q, c.module.path, m.lineno,
                  f"{q.rsplit('.', 2)[-2]}.to_json must return self.{'().'.join(chain)}() -- the JSON text must be the dump of the validated model, nothing else",
                  m, expected="self." + "().".join(chain) + "()", found=u(rets[0].value) if rets else "")
    # make_envelope: JSON arm dumps package._to_serial()
    env = prog.module("hugr.envelope")
    me = env.functions.get("make_envelope")
    if me is None:
        ctx.broken("anchor vanished: hugr.envelope.make_envelope")
    me = ctx.cfn("hugr.envelope.make_envelope")          # canonical: a helper extracted from the format match is seen through
    dumps = [c for c in calls_in(me) if call_name(c) in ("model_dump_json", "model_dump")]
    ok = bool(dumps) and any(u(d.func.value) == "package._to_serial()" and call_name(d) == "model_dump_json" for d in dumps) and all(
        isinstance(d.func.value, ast.Call) and call_name(d.func.value) == "_to_serial" and not d.args
        and all(k.arg == "mode" for k in d.keywords) for d in dumps)
    ctx.check(ok, "C03.R1", "hugr.envelope.make_envelope", env.path, me.lineno,
              "the JSON payload of an envelope must be package._to_serial().model_dump_json() without exclusions", me,
              found="; ".join(u(d) for d in dumps))
    # no model_construct, no editing of dumped dict/text, no post-construction field stores on serial models
    ser_mods = [m for n, m in prog.modules.items() if n.startswith("hugr._serialization")]
    serial_classes = {c.name for m in ser_mods for c in m.classes.values()}
    allowed_stores = {("hugr._serialization.serial_hugr", "SerialHugr.to_json", "encoder"),
                      ("hugr.hugr.base", "Hugr._from_serial", "parent")}
    nsites = 0
    for mn, m in prog.modules.items():
        for c in calls_in(m.tree):
            if call_name(c) == "model_construct":
                ctx.fail("C03.R1", f"{mn}:model_construct", m.path, c.lineno, "model_construct builds a model without validation", c)
            if call_name(c) in ("model_dump", "model_dump_json", "dict", "json") and isinstance(c.func, ast.Attribute) and call_name(c).startswith("model_dump"):
                nsites += 1
                bad = [k.arg for k in c.keywords if k.arg in ("exclude", "include", "exclude_none", "exclude_unset", "exclude_defaults", "by_alias")]
                if bad:
                    ctx.fail("C03.R1", f"{mn}:{call_name(c)}({','.join(bad)})", m.path, c.lineno,
                             f"dump with {bad} can omit required fields of the published schema", c)
    ctx.stats["C03.R1 dump sites"] = nsites
    # stores into fields of serial models outside the model's own hooks
    for mn in ("hugr.hugr.base", "hugr.package", "hugr.ext", "hugr.envelope", "hugr._serialization.serial_hugr"):
        m = prog.module(mn)
        for cname, cls in list(m.classes.items()) + [("", None)]:
            fns = cls.methods.items() if cls else m.functions.items()
            for fname, fn in fns:
                for n in ast.walk(fn):
                    if isinstance(n, (ast.Assign, ast.AugAssign)):
                        tgs = n.targets if isinstance(n, ast.Assign) else [n.target]
                        for tg in tgs:
                            if isinstance(tg, ast.Attribute) and _is_serial_obj(tg.value, fn, serial_classes):
                                key = (mn, f"{cname}.{fname}" if cname else fname, tg.attr)
                                if key in allowed_stores:
                                    ctx.ok("C03.R1", f"store {key[1]}:{tg.attr}", "whitelisted: " + ("encoder stamp" if tg.attr == "encoder" else "load path only"))
                                else:
                                    ctx.fail("C03.R1", f"{mn}.{key[1]}:{tg.attr}", m.path, n.lineno,
                                             f"field `{tg.attr}` of a serial model is assigned after construction: the value bypasses validation", n)


def dump_sites_rule(ctx, rule: str, prefixes: tuple) -> int:
    """every model_dump / model_dump_json of the given modules dumps the complete model (no exclusion / alias option)"""
    n = 0
    for mn, m in ctx.program.modules.items():
        if not mn.startswith(prefixes):
            continue
        for c in calls_in(m.tree):
            if isinstance(c.func, ast.Attribute) and (call_name(c) or "").startswith("model_dump"):
                n += 1
                bad = [k.arg for k in c.keywords if k.arg in ("exclude", "include", "exclude_none", "exclude_unset", "exclude_defaults", "by_alias")]
                ctx.check(not bad, rule, f"{mn}:{call_name(c)} at `{u(c.func.value)[:40]}`", m.path, c.lineno,
                          f"dump with {bad} omits fields (the tag fields of nested types and values are defaults): the encoded constant is no longer a complete value", c)
    return n


def r1_encoders_build(ctx) -> None:
    """an encoder of the data model (`_to_serial`, `_to_serial_root`) returns a freshly validated document: it never assigns into an
    object after construction (a patched model bypasses validation, and a patched *shared* model is written with another node's data)"""
    prog = ctx.program
    n = 0
    for mn in ("hugr.ops", "hugr.tys", "hugr.val", "hugr.ext", "hugr.hugr.base"):
        m = prog.module(mn)
        for c in m.classes.values():
            for fname, fn in c.methods.items():
                if fname not in ("_to_serial", "_to_serial_root"):
                    continue
                n += 1
                selfn = fn.args.args[0].arg if fn.args.args else "self"
                cf = ctx.canon.fn(fn, m, c)
                bad = [x for x in ast.walk(cf) if isinstance(x, (ast.Attribute, ast.Subscript)) and isinstance(x.ctx, (ast.Store, ast.Del))]
                # a local container being filled (d = {}; d[k] = v) is construction, not patching: only attribute stores and stores
                # through something that is not a local display count
                local_displays = {u(s_.targets[0]) for s_ in ast.walk(cf) if isinstance(s_, ast.Assign) and isinstance(s_.targets[0], ast.Name)
                                  and isinstance(s_.value, (ast.Dict, ast.List, ast.Set, ast.ListComp, ast.DictComp))}
                bad = [x for x in bad if not (isinstance(x, ast.Subscript) and u(x.value) in local_displays)]
                if bad:
                    ctx.fail("C03.R1", f"{c.qualname}.{fname}: builds, never patches", m.path, getattr(bad[0], "lineno", fn.lineno),
                             f"`{u(bad[0])} = ..` inside an encoder: the document is assigned into after construction (no validation; if the object is "
                             "kept between calls every holder of it is written with the last caller's data)", bad[0])
                else:
                    ctx.ok("C03.R1", f"{c.qualname}.{fname}: builds, never patches", "no store into an existing object")
    ctx.stats["C03.R1 encoders inspected"] = n


def _is_serial_obj(e, fn, serial_classes) -> bool:
    """receiver is `self` inside a serial model, a name bound to a serial-model constructor / _to_serial(), or <x>.root of a loop element"""
    s = u(e)
    if s.endswith(".root") or s in ("serial", "serial_node"):
        return True
    if isinstance(e, ast.Name):
        if e.id == "self":
            # only inside serial model classes: decided by caller's module
            return any(isinstance(a, ast.arg) and a.arg == "self" for a in fn.args.args) and fn.name in ("to_json",)
        for n in ast.walk(fn):
            if isinstance(n, ast.Assign) and isinstance(n.targets[0], ast.Name) and n.targets[0].id == e.id and isinstance(n.value, ast.Call):
                cn = call_name(n.value)
                if cn in serial_classes or cn in ("_to_serial", "_to_serial_root", "model_validate", "model_validate_json", "load_json"):
                    return True
    return False


# ---------------------------------------------------------------------------------------
def _order_source(ctx, hugr, fn, what):
    """the expression that fixes the order in which `fn` visits/emits nodes, resolved to a helper method if it is one"""
    return None


def hierarchy_helper(hugr, expr):
    """if expr is self.<m>() / hugr.<m>() for a Hugr method that derives its order from the hierarchy
    (reads .children and starts from .root), return that method"""
    if isinstance(expr, ast.Call) and isinstance(expr.func, ast.Attribute) and not expr.args:
        k, m = hugr.find_method(expr.func.attr)
        # `return list(self._gen())`: the order is the one a private generator produces
        for _ in range(3):
            if m is None:
                break
            body = real_body(m)
            if len(body) == 1 and isinstance(body[0], ast.Return) and isinstance(body[0].value, (ast.Call, ast.List)):
                v = body[0].value
                inner = v.args[0] if isinstance(v, ast.Call) and u(v.func) in ("list", "tuple") and len(v.args) == 1 else (
                    v.elts[0].value if isinstance(v, ast.List) and len(v.elts) == 1 and isinstance(v.elts[0], ast.Starred) else None)
                if isinstance(inner, ast.Call) and isinstance(inner.func, ast.Attribute) and u(inner.func.value) == "self" and not inner.args:
                    k, m = hugr.find_method(inner.func.attr)
                    continue
            break
        if m is not None:
            reads_children = any(isinstance(n, ast.Attribute) and n.attr == "children" for n in ast.walk(m)) or any(
                call_name(c) == "children" for c in calls_in(m))
            reads_root = any(isinstance(n, ast.Attribute) and n.attr == "root" for n in ast.walk(m))
            index_scan_only = not reads_children
            if reads_children and reads_root and not index_scan_only and _returns_only_traversal(m):
                return m
    return None


def _returns_only_traversal(m) -> bool:
    """every `return` of the helper hands out the accumulator the hierarchy traversal fills (no index-order shortcut)"""
    accs = set()
    for lp in [n for n in ast.walk(m) if isinstance(n, (ast.While, ast.For))]:
        if not any(isinstance(x, ast.Attribute) and x.attr == "children" for x in ast.walk(lp)) and not any(call_name(c) == "children" for c in calls_in(lp)):
            continue
        for c in calls_in(lp):
            if call_name(c) in ("append", "extend") and isinstance(c.func.value, ast.Name):
                accs.add(c.func.value.id)
    if any(isinstance(n, (ast.Yield, ast.YieldFrom)) for n in ast.walk(m)):
        # a generator: what it yields is what is listed; every yield sits in the loop that follows the children
        ys = [n for n in ast.walk(m) if isinstance(n, (ast.Yield, ast.YieldFrom))]
        in_loops = [y for lp in ast.walk(m) if isinstance(lp, (ast.While, ast.For)) and
                    any(isinstance(x, ast.Attribute) and x.attr == "children" for x in ast.walk(lp)) for y in ast.walk(lp) if y in ys]
        return bool(ys) and len({id(y) for y in in_loops}) == len(ys) and not any(isinstance(r, ast.Return) and r.value is not None for r in ast.walk(m))
    rets = [r for r in ast.walk(m) if isinstance(r, ast.Return) and r.value is not None]
    def derived(e) -> bool:
        # the accumulator itself, or an order-preserving element-wise image of it
        if isinstance(e, ast.Name):
            return e.id in accs
        if isinstance(e, ast.ListComp) and len(e.generators) == 1 and not e.generators[0].ifs:
            return derived(e.generators[0].iter)
        if isinstance(e, ast.Call) and u(e.func) in ("list", "tuple") and len(e.args) == 1 and not e.keywords:
            return derived(e.args[0])
        return False
    return bool(rets) and bool(accs) and all(derived(r.value) for r in rets)


def follow_local(fn, src):
    """follow single-assignment local bindings of a name to the expression it stands for"""
    seen = set()
    while isinstance(src, ast.Name) and src.id not in seen:
        seen.add(src.id)
        bound = [s.value for s in ast.walk(fn) if isinstance(s, ast.Assign) and len(s.targets) == 1
                 and isinstance(s.targets[0], ast.Name) and s.targets[0].id == src.id]
        if len(bound) != 1:
            break
        src = bound[0]
    return src


def index_reuse_possible(hugr) -> ast.AST | None:
    """_add_node hands out indices from the free list regardless of the parent"""
    k, m = hugr.find_method("_add_node")
    if m is None:
        return None
    for c in calls_in(m, "pop"):
        if "_free_nodes" in u(c.func):
            return c
    return None


def sibling_order_rule(ctx, helper, rule, hugr) -> None:
    """the traversal that fixes emission / copy order lists siblings in child order.  A FIFO / LIFO work list keeps the order in which
    a parent's children were put on it; a PRIORITY work list (heapq) does not: there a node's children may only be unblocked one at a
    time -- the first child when the parent is listed, each next sibling when its predecessor is -- never all at once"""
    cf = ctx.canon.fn(helper, hugr.module, hugr)
    pushes = [c for c in calls_in(cf) if call_name(c) in ("heappush", "heappush_max", "heappushpop", "heapreplace")]
    heapified = any(call_name(c) in ("heapify", "heappop", "nsmallest", "merge") for c in calls_in(cf))
    if not pushes and not heapified:
        ctx.ok(rule, f"Hugr.{helper.name}: siblings in child order", "no priority work list")
        return
    bad = None
    for lp in [n for n in ast.walk(cf) if isinstance(n, (ast.For, ast.While))]:
        it = lp.iter if isinstance(lp, ast.For) else lp.test
        over_children = any((isinstance(x, ast.Attribute) and x.attr == "children") or (isinstance(x, ast.Call) and call_name(x) == "children") for x in ast.walk(it))
        # (`for c in children[:1]`: at most the first child -- one at a time)
        if isinstance(lp, ast.For) and isinstance(it, ast.Subscript) and isinstance(it.slice, ast.Slice) and it.slice.step is None \
                and (it.slice.lower is None or (isinstance(it.slice.lower, ast.Constant) and it.slice.lower.value == 0)) \
                and isinstance(it.slice.upper, ast.Constant) and it.slice.upper.value == 1:
            over_children = False
        if over_children and any(call_name(c) in ("heappush", "heappushpop", "heapreplace") for b_ in lp.body for c in calls_in(b_)):
            bad = lp
    for c in calls_in(cf):
        # ready.extend(children) / ready += children followed by heapify: all at once as well
        if call_name(c) == "extend" and any(isinstance(x, ast.Attribute) and x.attr == "children" for a in c.args for x in ast.walk(a)) and heapified:
            bad = c
    ctx.check(bad is None, rule, f"Hugr.{helper.name}: siblings in child order", hugr.module.path, getattr(bad, "lineno", helper.lineno),
              "the traversal keeps its work list as a priority queue ordered by node index: putting all children of a node on it at once lists "
              "siblings by index, not in child order (they differ once a freed index was reused by a later sibling); a node's children must be "
              "unblocked one at a time, each by its predecessor", bad if bad is not None else helper)


def r3_r4_order(ctx, rule3="C03.R3", rule4="C03.R4", with_insert: bool = False) -> None:
    prog = ctx.program
    hugr = prog.cls(f"{BASE}.Hugr")
    file = hugr.module.path
    fn_o, _, _ = ctx.locate(f"{BASE}.Hugr._to_serial")
    fn = ctx.cfn(f"{BASE}.Hugr._to_serial", inline={n.name for n in ast.walk(fn_o) if isinstance(n, ast.FunctionDef) and n is not fn_o})
    reuse = index_reuse_possible(hugr)
    # ---- which sequence is emitted
    sh = [c for c in calls_in(fn) if u(c.func).split(".")[-1] == "SerialHugr"][0]
    from .c02 import as_comprehension
    nodes_arg = as_comprehension(fn, kwarg(sh, "nodes"))
    it = nodes_arg.generators[0].iter if isinstance(nodes_arg, (ast.ListComp, ast.GeneratorExp)) else None
    if isinstance(it, ast.Call) and u(it.func) == "enumerate" and it.args:
        it = it.args[0]
    src = follow_local(fn, it)
    helper = hierarchy_helper(hugr, src)
    if reuse is None:
        ctx.ok(rule4, "Hugr._to_serial: emission order", "indices are never reused, index order is creation order")
    else:
        ctx.check(helper is not None, rule4, "Hugr._to_serial: emission order", file, getattr(src, "lineno", fn.lineno),
                  f"nodes are emitted in index order (`{u(src)[:80]}`), which lists a parent before its children only if parents "
                  f"always have smaller indices; but _add_node reuses freed indices (`{u(reuse)}`) for children of any parent, so after "
                  "delete_node + add_node a child can be listed before its parent (and siblings out of child order)", src,
                  expected="an order derived from the hierarchy (root first, children lists)", found=u(src)[:120],
                  detail=f"order from {helper.name if helper else ''}() which walks .children from .root")
    # ---- insert_hugr visits parents before children
    from ..tmpl import T, tfind, tmatch
    ih = ctx.cfn(f"{BASE}.Hugr.insert_hugr")
    loops = []
    for n in ast.walk(ih):
        if isinstance(n, ast.For):
            hits = [e for _, e in tfind(n.body, T("L_map[L_n] = E_new")) if e["L_n"] in [x.id for x in ast.walk(n.target) if isinstance(x, ast.Name)]]
            if hits:
                loops.append((n, hits[0]["L_map"]))
    if not loops:
        ctx.broken("Hugr.insert_hugr: node-copy loop not found")
    lp, mp = loops[0]
    needs_parent_first = any(isinstance(x, ast.Subscript) and u(x.value) == mp and isinstance(x.ctx, ast.Load) and "parent" in u(x.slice)
                             for x in ast.walk(lp))
    h2 = hierarchy_helper(hugr, follow_local(ih, lp.iter))
    if not with_insert:
        pass
    elif reuse is None or not needs_parent_first:
        ctx.ok(rule4, "Hugr.insert_hugr: visiting order", "no dependence on parent-first order")
    else:
        ctx.check(h2 is not None, rule4, "Hugr.insert_hugr: visiting order", file, lp.lineno,
                  f"the copy loop looks parents up in the mapping it is still filling, i.e. relies on parents being visited first, but iterates "
                  f"`{u(lp.iter)}` (index order); with reused indices a child comes first and insertion raises ParentBeforeChild", lp,
                  expected="an order derived from the hierarchy", found=u(lp.iter),
                  detail=f"order from {h2.name if h2 else ''}()")
    for h_ in {id(x): x for x in (helper, h2 if with_insert else None) if x is not None}.values():
        sibling_order_rule(ctx, h_, rule4, hugr)
    # ---- R3: root first, root is its own parent
    if helper is not None:
        # the helper starts from the root: its first emitted node is self.root
        # the work list is seeded with the root before the traversal loop (an assignment, or a push onto the work list)
        body_ = real_body(helper)
        first_loop = max([i for i, n in enumerate(body_) if isinstance(n, (ast.While, ast.For)) and
                          any(isinstance(x, ast.Attribute) and x.attr == "children" for x in ast.walk(n)) and
                          any(call_name(c) in ("append", "extend") for c in calls_in(n))] or [len(body_)])
        starts = [n for n in body_[:first_loop] if isinstance(n, (ast.Assign, ast.AnnAssign, ast.Expr)) and getattr(n, "value", None) is not None
                  and "self.root" in u(n.value)]
        ctx.check(bool(starts), rule3, "Hugr._to_serial: root is listed first", file, helper.lineno,
                  "the emission order must start from self.root", helper, detail=u(starts[0])[:100] if starts else "")
    else:
        ctx.ok(rule3, "Hugr._to_serial: root is listed first", "index order: the root is created first (index 0)") if reuse is None else \
            ctx.note("C03.R3 root-first not decidable while emission follows index order (see R4)")
    # own parent: the fallback for `parent is None` is the node's own renumbered handle
    nd = prog.cls(f"{BASE}.NodeData")
    cands = [n for n in list(ast.walk(fn)) + (list(ast.walk(nodes_arg)) if nodes_arg is not None else []) if isinstance(n, ast.IfExp) and "parent" in u(n.test)]
    ok = False
    found = ""
    for n in cands:
        found = u(n)
        for tm in ("E_map[self[E_n].parent] if self[E_n].parent is not None else E_map[E_n]", "E_map[self[E_n].parent] if self[E_n].parent else E_map[E_n]",
                   "E_map[E_d.parent] if E_d.parent is not None else E_map[E_n]",
                   # the choice made on the key, looked up afterwards
                   "self[E_n].parent if self[E_n].parent is not None else E_n", "E_d.parent if E_d.parent is not None else E_n"):
            e = tmatch(n, T(tm))
            if e is not None and "parent" not in e["E_n"]:
                ok = True
    cands = [(fn, n) for n in cands]
    ctx.check(ok, rule3, "Hugr._to_serial: the root is its own parent", file, (cands[0][1].lineno if cands else fn.lineno),
              "for the node without a parent the serialized parent must be the node's own (renumbered) index", cands[0][1] if cands else fn,
              found=found, detail=found)


# ---------------------------------------------------------------------------------------
def static_input_ops(prog) -> set[str]:
    """op classes whose port_kind has an InPort arm of Const / Function kind: they own a static input port"""
    out = set()
    for c in prog.module("hugr.ops").classes.values():
        m = c.find_method("port_kind")[1]
        if m is None:
            continue
        for n in ast.walk(m):
            if isinstance(n, ast.match_case) and isinstance(n.pattern, ast.MatchClass) and u(n.pattern.cls) == "InPort":
                if any(isinstance(r, ast.Return) and ("FunctionKind" in u(r.value) or "ConstKind" in u(r.value)) for r in ast.walk(n)):
                    out.add(c.name)
    return out


def signature_helpers(ctx, hugr) -> tuple:
    """private methods of Hugr that compute an offset from the signature (today: _order_port_offset): part of both entry points"""
    return tuple(sorted(n_ for n_, m_ in hugr.methods.items() if n_.startswith("_") and n_ not in ("_constrain_offset",)
                        and _reads_signature(ctx.canon.fn(m_, hugr.module, hugr))))


def _direction_of(p):
    for t, taken in p.tests:
        if isinstance(t, ast.Compare) and isinstance(t.ops[0], ast.Eq):
            txt = u(t)
            if "OUTGOING" in txt:
                return "out" if taken else "in"
            if "INCOMING" in txt:
                return "in" if taken else "out"
    return None


def _class_tests(p, taken):
    from ..rulekit import unold_ast
    return [set(_flat_or(unold_ast(t).args[1])) for t, k in p.tests if k == taken and isinstance(t, ast.Call) and u(t.func) == "isinstance" and len(t.args) == 2]


def _ruled_out(p, all_paths) -> set:
    """classes the path has established the operation is NOT an instance of: its own failed isinstance tests, and -- where it runs in
    the handler of an exception -- those of every path that raises that exception"""
    out = set().union(*_class_tests(p, False)) if _class_tests(p, False) else set()
    for t, k in p.tests:
        if k and isinstance(t, ast.Call) and u(t.func) == "except_" and t.args:
            names = {u(e).split(".")[-1] for e in (t.args[0].elts if isinstance(t.args[0], ast.Tuple) else [t.args[0]])}
            raisers = [r for r in all_paths if r.kind == "raise" and r.value is not None and u(r.value).split("(")[0].split(".")[-1] in names]
            if raisers:
                common = None
                for r in raisers:
                    neg = set().union(*_class_tests(r, False)) if _class_tests(r, False) else set()
                    common = neg if common is None else (common & neg)
                out |= common or set()
    return out


def _without_signature(p, all_paths, sig_paths) -> bool:
    """the path has ruled out every way of getting a signature: each signature path needs the operation to be an instance of a class
    this path knows it is not"""
    ro = _ruled_out(p, all_paths)
    return bool(sig_paths) and all((set().union(*_class_tests(h, True)) if _class_tests(h, True) else set()) & ro for h in sig_paths)


def encoder_table(ctx):
    """the order-port encoder as a table: {(classes the path established, direction): text of the offset written}, with the encoder's
    `<port>.node` / `<port>.direction` spelled NODE_ / DIRECTION_; and the set of classes some path takes a signature for"""
    from ..rulekit import unold_ast
    hugr = ctx.program.cls(f"{BASE}.Hugr")
    co = hugr.methods.get("_constrain_offset")
    if co is None:
        ctx.broken("anchor vanished: Hugr._constrain_offset")
    param = co.args.args[1].arg
    helpers = signature_helpers(ctx, hugr)
    ps = [p for p in ctx.paths(f"{BASE}.Hugr._constrain_offset", inline=helpers) if p.kind == "return" and p.value_text() != f"{param}.offset"]
    table = {}
    dataflow = set()
    for p in ps:
        if not (".input" in p.value_text() or ".output" in p.value_text()) or any(n.attr in COUNTERS for n in ast.walk(p.value) if isinstance(n, ast.Attribute)):
            continue
        pos = _class_tests(p, True)
        dataflow |= set().union(*pos) if pos else set()
        key = (frozenset(set().union(*pos)) if pos else frozenset(), _direction_of(p))
        txt = u(unold_ast(p.value)).replace(f"{param}.node", "NODE_").replace(f"{param}.direction", "DIRECTION_")
        table.setdefault(key, set()).add(txt)
    return table, dataflow, helpers


def r5_order_offset(ctx, rule="C03.R5") -> None:
    """stated over the path summaries (hv/paths.py) of Hugr._constrain_offset with the helpers that read the signature seen through:
    insensitive to local names, guard-clause / if-else layout, conditional expressions, extracted helpers and records"""
    prog = ctx.program
    hugr = prog.cls(f"{BASE}.Hugr")
    file = hugr.module.path
    co = hugr.methods.get("_constrain_offset")
    if co is None:
        ctx.broken("anchor vanished: Hugr._constrain_offset")
    # private methods of Hugr that compute an offset from the signature (today: _order_port_offset): part of the entry point
    sig_helpers = tuple(sorted(n_ for n_, m_ in hugr.methods.items() if n_.startswith("_") and n_ != "_constrain_offset"
                               and _reads_signature(ctx.canon.fn(m_, hugr.module, hugr))))
    all_ps = ctx.paths(f"{BASE}.Hugr._constrain_offset", inline=sig_helpers)
    ps = [p for p in all_ps if p.kind == "return"]
    param = co.args.args[1].arg
    order_paths = [p for p in ps if p.value_text() != f"{param}.offset"]
    if not order_paths:
        ctx.fail(rule, "Hugr._constrain_offset: order branch", file, co.lineno,
                 "no branch handles the order port (offset -1): it would be written as a negative offset", co)
        return

    def counter_reads(e):
        return [n for n in ast.walk(e) if (isinstance(n, ast.Attribute) and n.attr in COUNTERS) or (isinstance(n, ast.Name) and n.id in COUNTERS)]

    def class_tests(p, taken):
        return [set(_flat_or(unold_ast(t).args[1])) for t, k in p.tests if k == taken and isinstance(t, ast.Call) and u(t.func) == "isinstance" and len(t.args) == 2]
    from ..rulekit import unold_ast
    hps = [p for p in order_paths if not counter_reads(p.value) and (".input" in p.value_text() or ".output" in p.value_text())]
    # the classes some path takes a signature for: a counter may be returned only where the operation is none of them
    dataflow = set().union(*[c_ for p in hps for c_ in class_tests(p, True)]) if hps else set()
    bad = []
    for p in order_paths:
        cr = counter_reads(p.value)
        if not cr:
            continue
        if not _without_signature(p, all_ps, hps):
            bad.append((p, cr[0]))
    ok = bool(hps) and not bad
    where = bad[0][0].node if bad else co
    ctx.check(ok, rule, "Hugr._constrain_offset: order port from the signature", file, getattr(where, "lineno", co.lineno),
              "the offset written for a state-order edge is taken from the node's connection counters "
              f"(`{u(bad[0][1]) if bad else ''}`), which depend on how many ports happen to be linked: for a node whose last "
              "value port is unused the order edge lands on that value port. It must be the first port after the operation's value (and static) ports",
              where, expected="len(signature.input/output) (+1 for a static input)", found=bad[0][0].describe()[:200] if bad else "",
              detail=f"signature paths for {sorted(dataflow)} with a counter fallback only for other operations")
    if not hps:
        return
    helper = hugr.methods[sig_helpers[0]] if sig_helpers else co
    hname = helper.name
    # table: outgoing -> len(output); incoming -> len(input) + static input for exactly the ops that own one
    def dirn(p):
        for t, taken in p.tests:
            if isinstance(t, ast.Compare) and isinstance(t.ops[0], ast.Eq):
                txt = u(t)
                if "OUTGOING" in txt:
                    return "out" if taken else "in"
                if "INCOMING" in txt:
                    return "in" if taken else "out"
        return None
    outs = [p for p in hps if dirn(p) == "out"]
    ins = [p for p in hps if dirn(p) == "in"]
    out_ok = bool(outs) and all(".output" in p.value_text() and ".input" not in p.value_text() for p in outs)
    in_ok = bool(ins) and all(".input" in p.value_text() and ".output" not in p.value_text() for p in ins)
    ctx.check(out_ok and in_ok and len(outs) + len(ins) == len(hps), rule, f"Hugr.{hname}: direction table", file, helper.lineno,
              "the order port must follow len(sig.output) for outgoing and len(sig.input)(+static) for incoming ports", helper,
              found="; ".join(p.describe() for p in hps)[:400])
    # operations with a static (function / constant) input port: frozen from specification/hugr.md (Call, LoadConstant, LoadFunction);
    # that the port_kind arms of exactly these classes offer a Function/Const kind on an input is C06.R3's business
    want = {"Call", "LoadConst", "LoadFunc"}
    named = set()
    shapes_ok = bool(ins)
    for p in ins:
        val = unold_ast(p.value)
        in_value = [set(_flat_or(c.args[1])) for c in ast.walk(val) if isinstance(c, ast.Call) and u(c.func) == "isinstance" and len(c.args) == 2]
        if in_value:
            # len(sig.input) + int(isinstance(op, A | B | C))
            named |= set().union(*in_value)
            continue
        pos = class_tests(p, True)
        txt = u(val)
        if txt.endswith("+ 1"):
            # the most specific class test taken on this path names the owners it counts a static input for
            named |= pos[-1] if pos else {"?"}
        elif not (txt.endswith("+ 0") or "+" not in txt):
            shapes_ok = False
    ctx.check(shapes_ok and named == want, rule, f"Hugr.{hname}: static input owners", file, helper.lineno,
              f"the operations counted as having a static input port ({sorted(named)}) must be exactly those whose port_kind offers a "
              f"Function/Const kind on an input ({sorted(want)})", helper, expected=str(sorted(want)), found=str(sorted(named)))
    # only Call (which is not a DataflowOp) takes its value ports from its instantiation; every DataflowOp from outer_signature()
    inst_guards = []
    for p in hps:
        if ".instantiation" in p.value_text():
            taken = class_tests(p, True)
            narrow = set.intersection(*taken) if taken else set()
            inst_guards.append(narrow)
    ok = bool(inst_guards) and all(g == {"Call"} for g in inst_guards)
    ctx.check(ok, rule, f"Hugr.{hname}: only Call reads its instantiation", file, helper.lineno,
              f"the paths that take the value ports from `.instantiation` must apply to Call only (found {inst_guards}): LoadFunc is a DataflowOp whose own "
              "signature is [] -> [instantiation], so its order port follows outer_signature()", helper, expected="[{'Call'}]", found=str(inst_guards))
    ctx.check(bool(inst_guards), rule, f"Hugr.{hname}: Call uses its instantiation", file, helper.lineno,
              "for Call the value ports are those of the instantiated signature (Call is not a DataflowOp)", helper)
    others = [p for p in hps if ".instantiation" not in p.value_text()]
    ok = bool(others) and all("outer_signature()" in p.value_text() for p in others)
    ctx.check(ok, rule, f"Hugr.{hname}: dataflow ops use their outer signature", file, helper.lineno,
              "every dataflow operation other than Call takes its value ports from outer_signature()", helper)


def _flat_or(e) -> list[str]:
    if isinstance(e, ast.BinOp) and isinstance(e.op, ast.BitOr):
        return _flat_or(e.left) + _flat_or(e.right)
    if isinstance(e, ast.Tuple):
        return [x for y in e.elts for x in _flat_or(y)]
    return [u(e).split(".")[-1]]


def _reads_signature(m) -> bool:
    s = u(m)
    return ("outer_signature" in s or "instantiation" in s) and "len(" in s and not any(c in s for c in ("_num_inps", "_num_outs", "num_ports(", "num_in_ports", "num_out_ports"))


# ---------------------------------------------------------------------------------------
def r6_static_wiring(ctx, rule="C03.R6") -> None:
    df = ctx.program.cls("hugr.build.dfg.DfBase")
    file = df.module.path
    table = {
        "call": ("_function_port_offset", "func.out(0)"),
        "load_function": ("0", "func.out(0)"),
        "load": ("0", None),
    }
    from ..rulekit import unold
    from ..tmpl import T, tmatch
    for mname, (want_off, want_src) in table.items():
        m = df.methods.get(mname)
        if m is None:
            ctx.broken(f"anchor vanished: DfBase.{mname}")
        # path summaries (locals substituted): on every completing path one static edge, from output 0 of the static node to the static
        # input port of the node that was just created for the operation
        sp = m.args.args[1].arg
        ps = [p for p in ctx.paths(f"hugr.build.dfg.DfBase.{mname}") if p.kind != "raise"]
        ok = bool(ps)
        found = ""
        for p in ps:
            links = p.find_effect("self.hugr.add_link(E_src, E_dst)")
            good = False
            for _, n, e in links:
                found = unold(n)
                d = tmatch(ast.parse(unold(e["E_dst"]), mode="eval").body, T("E_node.inp(E_off)"))
                if d is None:
                    continue
                src = unold(e["E_src"])
                if want_off == "0":
                    good_off = d["E_off"] == "0"
                else:
                    # the offset is asked of the very operation the node was created with
                    mk = tmatch(ast.parse(d["E_node"], mode="eval").body, T("self.hugr.add_node(E_op, ANY_, ANY_)")) or \
                        tmatch(ast.parse(d["E_node"], mode="eval").body, T("self.hugr.add_node(E_op, ANY_)"))
                    good_off = mk is not None and d["E_off"] == f"{mk['E_op']}.{want_off}()"
                if want_src is None:
                    # the constant node: the argument itself, or the node add_const made for a value argument
                    good_src = src in (f"{sp}.out_port()", f"{sp}.out(0)") or (src.startswith("self.add_const(") and src.endswith((".out_port()", ".out(0)")))
                else:
                    good_src = src == want_src.replace("func", sp)
                good = good or (good_off and good_src)
            ok = ok and good and len(links) == 1
        ctx.check(ok, rule, f"hugr.build.dfg.DfBase.{mname}: static edge", file, m.lineno,
                  f"DfBase.{mname} must link output 0 of the static node to the operation's static input port "
                  f"({'inp(call_op._function_port_offset())' if want_off != '0' else 'inp(0)'})", m,
                  found=found[:300], detail=found[:200])


def run(ctx) -> None:
    ctx.rule("C03.R1", "every JSON emitter returns the dump of a model built by its validating constructor; no model_construct, no dump exclusions, no post-construction field stores (2 whitelisted)", floor=6)
    ctx.rule("C03.R2", "every node index in the document is a position in the emitted node list (shared with C02.R3)", floor=3)
    ctx.rule("C03.R3", "node 0 is the root and its own parent", floor=1)
    ctx.rule("C03.R4", "the emission order is derived from the hierarchy, not from index order (indices are reused)", floor=1)
    ctx.rule("C03.R5", "the serialized order-port offset is a function of the operation's signature (+ static input), not of connection counters", floor=1)
    ctx.rule("C03.R6", "builders wire static edges to the static input port (call: after the value inputs; load/load_function: port 0)", floor=3)
    ctx.rule("C03.R7", "one-shot iterators feeding the document are consumed once", floor=1)
    r1_emitters(ctx)
    r1_encoders_build(ctx)
    r3_one_index_space(ctx, rule="C03.R2", rule5="C03.R5", with_metadata=False)
    r3_r4_order(ctx)
    r5_order_offset(ctx)
    r6_static_wiring(ctx)
    ctx.rule("C03.R8", "Call: the static port sits after the value inputs of the instantiated signature in the op itself (shared with C06.R4)", floor=3)
    from .c06 import r4_call
    from ..nf import NF
    with ctx.as_rule(C06_R4="C03.R8"):
        r4_call(ctx, NF(ctx.program))
    r2_single_use_iterators(ctx, files=("hugr.hugr.base", "hugr.package", "hugr.ext", "hugr.envelope"), rule="C03.R7")
    ctx.rule("C03.R9", "the signatures the order-port offset is computed from are the specification rows (LoadConstant has no value input, ..) (shared with C06.R1)", floor=30)
    from .c06 import r1_signatures
    from ..nf import NF as _NF
    with ctx.as_rule(C06_R1="C03.R9"):
        r1_signatures(ctx, _NF(ctx.program))
    from .. import lints
    lints.arm(ctx)



# ---------------------------------------------------------------------------------------
B = "hugr-py/src/hugr/hugr/base.py"
D = "hugr-py/src/hugr/build/dfg.py"
E = "hugr-py/src/hugr/envelope.py"
X = "hugr-py/src/hugr/ext.py"
P = "hugr-py/src/hugr/package.py"
MUTANTS = [
    dict(name="index-order-emission", file=B, expect="C03.R4",
         old="        order = self._hierarchy_order()\n        rekey",
         new="        order = [Node(idx) for idx, data in enumerate(self._nodes) if data is not None]\n        rekey"),
    dict(name="order-offset-from-counters", file=B, expect="C03.R5",
         old="            order_offset = self._order_port_offset(p.node, p.direction)\n            if order_offset is None:",
         new="            order_offset = None\n            if order_offset is None:"),
    dict(name="order-offset-ignores-static-input", file=B, expect="C03.R5",
         old="        has_static_input = isinstance(op, Call | LoadConst | LoadFunc)", new="        has_static_input = isinstance(op, Call | LoadFunc)"),
    dict(name="order-offset-direction-crossed", file=B, expect="C03.R5",
         old="        if direction == Direction.OUTGOING:\n            return len(sig.output)", new="        if direction == Direction.OUTGOING:\n            return len(sig.input)"),
    dict(name="root-parent-minus-one", file=B, expect=["C03.R3", "C03.R2"],
         old="            parent = rekey[data.parent] if data.parent is not None else rekey[node]",
         new="            parent = rekey[data.parent] if data.parent is not None else Node(0)"),
    dict(name="call-static-port-zero", file=D, expect="C03.R6",
         old="call_n.inp(call_op._function_port_offset()))", new="call_n.inp(0))"),
    dict(name="load-static-port-one", file=D, expect="C03.R6",
         old="        self.hugr.add_link(const.out_port(), load.inp(0))", new="        self.hugr.add_link(const.out_port(), load.inp(1))"),
    dict(name="envelope-excludes-none", file=E, expect="C03.R1",
         old="            json_str = package._to_serial().model_dump_json()", new="            json_str = package._to_serial().model_dump_json(exclude_none=True)"),
    dict(name="extension-json-handmade", file=X, expect="C03.R1",
         old="        return self._to_serial().model_dump_json()", new="        return json.dumps({\"name\": self.name})"),
    dict(name="raw-edge-target", file=B, expect="C03.R2",
         old="            return (rekey[src.port.node].idx, s), (rekey[dst.port.node].idx, d)",
         new="            return (rekey[src.port.node].idx, s), (dst.port.node.idx, d)"),
    dict(name="post-construction-store", file=P, expect="C03.R1",
         old="        return self._to_serial().model_dump_json()", new="        ser = self._to_serial()\n        ser.modules = ser.modules[:1]\n        return ser.model_dump_json()"),
]
TWINS = [
    dict(name="twin-order-local", file=B, old="        for node in hugr._hierarchy_order():\n            node_data = hugr[node]",
         new="        ordered = hugr._hierarchy_order()\n        for node in ordered:\n            node_data = hugr[node]"),
]


def thorough(ctx):
    from ..selftest import run_battery
    return run_battery(ctx, MUTANTS, TWINS)
