"""C08 -- inserting a HUGR embeds it isomorphically and disturbs nothing else.

R1 node transfer is complete; R2 link transfer is complete and exact; R3 the source is read-only;
R4 parent-first visiting order comes from the hierarchy (= C03.R4); R5 the builders' insert_* wrappers.
"""
from __future__ import annotations

import ast

from ..model import calls_in, call_name, kwarg, real_body, u
from ..nf import NF, Env, Opaque, show, sym
from .c03 import follow_local, hierarchy_helper, index_reuse_possible
from .c04 import BIMAP_MUT, HUGR_MUT, LIST_MUT
from ..paths import summaries
from ..tmpl import T, tall, tfind, tmatch
from ..rulekit import unold

BASE = "hugr.hugr.base"
DERIVED = {"children": "rebuilt by _add_node as the children are copied in order",
           "_num_inps": "rebuilt by add_link from the copied links",
           "parent": "mapped through the node mapping (root -> requested parent)"}


def run(ctx) -> None:
    ctx.rule("C08.R1", "every NodeData field of a copied node is transferred (op, mapped parent, output count, metadata) or derived", floor=6)
    ctx.rule("C08.R2", "every link of the source is re-added through the mapping with both offsets kept and directions not crossed", floor=4)
    ctx.rule("C08.R3", "insert_hugr performs no store / mutator call on the source HUGR", floor=1)
    ctx.rule("C08.R4", "the copy loop visits parents before children by following the hierarchy (indices are reused)", floor=1)
    ctx.rule("C08.R5", "insert_nested/insert_cfg/insert_conditional/insert_tail_loop delegate to _insert_nested_impl with the argument order of their add_* twins", floor=6)
    insert_core(ctx)
    insert_wrappers(ctx)
    ctx.rule("C08.R6", "the wires handed to insert_* are attached once, after the sibling-ancestor test, with the order edge first (shared with C01.R4)", floor=6)
    from .c01 import r4_order_edges
    with ctx.as_rule(C01_R4="C08.R6"):
        r4_order_edges(ctx)
    ctx.rule("C08.R7", "the store the HUGR is inserted into is consistent: removals close gaps on both ports and delete_node removes every link of "
             "every port (a stale link at a reused index would become a link of the image) -- shared with C04.R3/R4", floor=4)
    from .c04 import r3_dense_suboffsets, r4_deletion_complete
    hugr_cls = ctx.program.cls("hugr.hugr.base.Hugr")
    with ctx.as_rule(C04_R3="C08.R7", C04_R4="C08.R7"):
        r3_dense_suboffsets(ctx, hugr_cls, hugr_cls.module.path)
        r4_deletion_complete(ctx, hugr_cls, hugr_cls.module.path)
    from .. import lints
    lints.arm(ctx)


def insert_core(ctx, R1="C08.R1", R2="C08.R2", R3="C08.R3", R4="C08.R4") -> None:
    """stated over the canonical body of Hugr.insert_hugr (locals are template metavariables, helpers are inlined)"""
    prog = ctx.program
    hugr = prog.cls(f"{BASE}.Hugr")
    nd = prog.cls(f"{BASE}.NodeData")
    file = hugr.module.path
    ih_o, _, _ = ctx.locate(f"{BASE}.Hugr.insert_hugr")
    ih = ctx.cfn(f"{BASE}.Hugr.insert_hugr", accessors=True)     # hugr.num_out_ports(n) is hugr[n]._num_outs, hugr.links() its generator
    src_p, par_p = ih.args.args[1].arg, ih.args.args[2].arg
    loops = [n for n in ast.walk(ih) if isinstance(n, ast.For)]
    node_loops = []
    for l in loops:
        hits = tfind(l.body, T("L_map[L_n] = E_new"))
        hits = [(n, e) for n, e in hits if isinstance(l.target, ast.Name) and e["L_n"] == l.target.id or isinstance(l.target, ast.Tuple) and e["L_n"] == u(l.target.elts[0])]
        if hits:
            node_loops.append((l, hits[0][1]))
    link_loops = [l for l in loops if calls_in(l, "add_link")]
    # which enumerations of a HUGR's links are complete (confirmed by reading hugr/base.py): `_links.items()` / `links()` list every link;
    # the per-node listings walk the value ports 0..n-1 only and never the order port -1
    partial = [l for l in link_loops if any(f".{m_}(" in u(l.iter) for m_ in ("outgoing_links", "incoming_links", "_node_links", "linked_ports", "_linked_ports"))]
    if partial:
        ctx.fail(R2, "Hugr.insert_hugr: all links", file, partial[0].lineno,
                 f"the links of the inserted HUGR are enumerated through `{u(partial[0].iter)[:80]}`, a per-node listing of the value ports 0..n-1: "
                 "state-order links (port -1) are never copied, so the image is not isomorphic to the inserted HUGR", partial[0],
                 expected=f"{src_p}._links.items() / {src_p}.links()", found=u(partial[0].iter))
        return
    if len(node_loops) == 1 and not link_loops:
        # the links are copied, but not through add_link: whatever writes the link map directly skips what add_link maintains
        raw = [l for l in loops if l is not node_loops[0][0] and any(
            isinstance(c, ast.Call) and isinstance(c.func, ast.Attribute) and c.func.attr in ("insert_left", "insert_right", "__setitem__")
            and "_links" in u(c.func.value) for c in ast.walk(l)) or any(
            isinstance(x, ast.Subscript) and isinstance(x.ctx, ast.Store) and "_links" in u(x.value) for x in ast.walk(l))]
        if raw:
            ctx.fail(R2, "Hugr.insert_hugr: all links", file, raw[0].lineno,
                     "the links of the inserted HUGR are written into the link map directly instead of through add_link: the port counts of the "
                     "copies are not grown to cover the linked offsets and sub-offsets are taken over unchecked, so queries on the image "
                     "(num_in_ports, incoming_links, delete_node) disagree with the inserted HUGR", raw[0], expected="self.add_link(..)", found=u(raw[0].body[0])[:200])
            return
    if len(node_loops) != 1 or len(link_loops) != 1:
        ctx.broken("Hugr.insert_hugr: node loop / link loop not found")
    (nl, e0), ll = node_loops[0], link_loops[0]
    mp, nv = e0["L_map"], e0["L_n"]
    # the source node's data: `src[n]`, or the second loop variable when iterating items
    dv = f"{src_p}[{nv}]"
    if isinstance(nl.target, ast.Tuple) and len(nl.target.elts) == 2:
        dv = u(nl.target.elts[1])
    # ---- R1
    adds = [c for c in calls_in(nl) if call_name(c) in ("add_node", "_add_node")]
    if len(adds) != 1:
        ctx.broken("Hugr.insert_hugr: expected one add_node call in the node loop")
    add = adds[0]
    want = {"op": (0, f"{dv}.op"), "num_outs": (2, f"{dv}._num_outs"), "metadata": (3, f"{dv}.metadata")}
    for fname, (pos, expr) in want.items():
        a = kwarg(add, fname, pos)
        ctx.check(a is not None and u(a) == expr, R1, f"Hugr.insert_hugr: {fname} transferred", file, add.lineno,
                  f"the copy of a node must be created with {fname}={expr} of the source node", add, expected=expr, found=u(a))
    # parent: on every path through the loop body the copy hangs under mapping[parent] when the source node has one, else under `parent`
    ok = all_add = True
    found = []
    seen = {True: False, False: False}
    # (locals bound before the loop to something pure -- `root_parent = parent or self.root` -- are written in)
    from .. import norm as _norm
    pre = [s_ for s_ in (ih.body[: ih.body.index(nl)] if nl in ih.body else []) if isinstance(s_, ast.Assign) and len(s_.targets) == 1
           and isinstance(s_.targets[0], ast.Name) and _norm.is_pure(s_.value) and not isinstance(s_.value, (ast.Dict, ast.List, ast.Set))]
    for p in summaries(pre + nl.body):
        if p.kind == "raise":
            continue
        effs = p.find_effect(f"{mp}[{nv}] = self.add_node(E_op, E_parent, E_outs, E_meta)")
        low = False
        if not effs:
            # the low-level creator does not default a missing parent to the root of the target: the caller has to
            effs = p.find_effect(f"{mp}[{nv}] = self._add_node(E_op, E_parent, E_outs, E_meta)")
            low = True
        if len(effs) != 1:
            ok = all_add = False
            found.append("no single add_node on: " + p.describe())
            continue
        par = unold(effs[0][2]["E_parent"])
        defaulted = (f"{par_p} or self.root", f"{par_p} if {par_p} else self.root", f"{par_p} if {par_p} is not None else self.root")
        roots = defaulted if low else (par_p,) + defaulted
        t = [k for t_, k in p.tests if u(t_) in (f"{dv}.parent", f"{dv}.parent is not None")]
        if t and t[0]:
            good = par == f"{mp}[{dv}.parent]"
        elif t:
            good = par in roots
        else:
            good = any(par in (f"{mp}[{dv}.parent] if {dv}.parent else {r_}", f"{mp}[{dv}.parent] if {dv}.parent is not None else {r_}",
                               f"{mp}[{dv}.parent] if {dv}.parent else ({r_})") for r_ in roots)
            seen[True] = seen[False] = good
        if t:
            seen[t[0]] = seen[t[0]] or good
        found.append(("has parent: " if t and t[0] else "root: ") + par)
        ok = ok and good
    ok = ok and seen[True] and seen[False]
    ctx.check(ok, R1, "Hugr.insert_hugr: parent mapped", file, add.lineno,
              "a copied node hangs under the image of its parent; the image of the source root hangs under the requested parent", add,
              expected=f"{mp}[{dv}.parent] if {dv}.parent else {par_p}", found="; ".join(found)[:300])
    st = [x for x in ast.walk(nl) if isinstance(x, ast.Subscript) and u(x.value) == mp and isinstance(x.ctx, ast.Store)]
    ctx.check(len(st) == 1 and u(st[0].slice) == nv, R1, "Hugr.insert_hugr: mapping complete", file, nl.lineno,
              "every node of the source must be recorded in the returned mapping under its own handle", nl)
    covered = {"op", "_num_outs", "metadata"} | set(DERIVED)
    for f in nd.all_fields():
        ctx.check(f.name in covered, R1, f"NodeData.{f.name}: accounted for", nd.module.path, f.node.lineno,
                  f"NodeData field {f.name} is neither transferred by insert_hugr nor on the derived list: the embedded copy would lose it", f.node,
                  detail=DERIVED.get(f.name, "transferred"))
    # every way through the loop body that does not raise creates the copy (decided on the path summaries above)
    no_filter = not any(isinstance(x, (ast.Continue, ast.Break)) for x in ast.walk(nl)) and all_add
    ctx.check(no_filter, R1, "Hugr.insert_hugr: no node skipped", file, nl.lineno, "the copy loop must not skip nodes", nl)
    rets = [r for r in ast.walk(ih) if isinstance(r, ast.Return)]
    ctx.check(len(rets) == 1 and u(rets[0].value) == mp, R1, "Hugr.insert_hugr: returns the mapping", file, ih_o.lineno, "", ih_o)
    # add_node defaults a missing parent to the root of the target
    an_o, _, _ = ctx.locate(f"{BASE}.Hugr.add_node")
    an = ctx.cfn(f"{BASE}.Hugr.add_node")
    e = tall(an.body, ["L_p = L_p or self.root", "self._add_node(L_op, L_p, ANY_, ANY_)"]) or tall(an.body, ["self._add_node(L_op, L_p or self.root, ANY_, ANY_)"])
    ctx.check(e is not None and e["L_p"] == an.args.args[2].arg, R1, "Hugr.add_node: default parent", file, an_o.lineno,
              "without a requested parent the inserted root hangs under the target's root", an_o)
    # ---- R2
    it = u(ll.iter)
    ctx.check(it in (f"{src_p}._links.items()", f"{src_p}.links()"), R2, "Hugr.insert_hugr: all links", file, ll.lineno,
              "the link loop must range over every link of the source (sub-offset order gives multiplicity and order on multi-ports)", ll, found=it)
    ctx.check(not any(isinstance(x, (ast.If, ast.Continue, ast.Break)) for x in ast.walk(ll)), R2, "Hugr.insert_hugr: no link skipped", file, ll.lineno, "", ll)
    sv, tv = (u(ll.target.elts[0]), u(ll.target.elts[1])) if isinstance(ll.target, ast.Tuple) else ("?", "?")
    via_sub = it.endswith("_links.items()")
    s_port = f"{sv}.port" if via_sub else sv
    t_port = f"{tv}.port" if via_sub else tv
    want_args = [f"{mp}[{s_port}.node].out({s_port}.offset)", f"{mp}[{t_port}.node].inp({t_port}.offset)"]
    lps = [p for p in summaries(ll.body)]
    got_args = []
    ok = bool(lps)
    for p in lps:
        effs = p.find_effect("self.add_link(E_a, E_b)")
        ok = ok and len(effs) == 1 and [effs[0][2]["E_a"], effs[0][2]["E_b"]] == want_args
        got_args = [effs[0][2]["E_a"], effs[0][2]["E_b"]] if effs else []
    al = calls_in(ll, "add_link")[0]
    ctx.check(ok, R2, "Hugr.insert_hugr: endpoints", file, al.lineno,
              "each link is re-added from the image of its source node's out-port to the image of its target node's in-port with the same offsets "
              "(including -1 for order links)", al, expected=", ".join(want_args), found=", ".join(got_args))
    order = ih.body.index(nl) < ih.body.index(ll) if nl in ih.body and ll in ih.body else True
    ctx.check(order, R2, "Hugr.insert_hugr: links after nodes", file, ll.lineno, "links can only be mapped once all nodes are", ll)
    # ---- R3
    bad = []
    derived = {src_p, nv, sv, tv} | ({dv} if "[" not in dv else set())
    for n in ast.walk(ih):
        if isinstance(n, (ast.Assign, ast.AugAssign)):
            tgs = n.targets if isinstance(n, ast.Assign) else [n.target]
            for t in tgs:
                if isinstance(t, (ast.Attribute, ast.Subscript)):
                    root = t
                    while isinstance(root, (ast.Attribute, ast.Subscript, ast.Call)):
                        root = root.value if not isinstance(root, ast.Call) else root.func
                    if isinstance(root, ast.Name) and root.id in derived:
                        bad.append(n)
        if isinstance(n, ast.Call) and isinstance(n.func, ast.Attribute) and n.func.attr in (LIST_MUT | BIMAP_MUT | HUGR_MUT):
            root = n.func.value
            while isinstance(root, (ast.Attribute, ast.Subscript, ast.Call)):
                root = root.value if not isinstance(root, ast.Call) else root.func
            if isinstance(root, ast.Name) and root.id in derived and n.func.attr not in ("items",):
                bad.append(n)
    ctx.check(not bad, R3, "Hugr.insert_hugr: source untouched", file, (bad[0].lineno if bad else ih_o.lineno),
              f"insert_hugr modifies the inserted HUGR (`{u(bad[0])[:80] if bad else ''}`): B itself must not be modified", bad[0] if bad else ih_o)
    # ---- R4
    reuse = index_reuse_possible(hugr)
    needs = any(isinstance(x, ast.Subscript) and u(x.value) == mp and isinstance(x.ctx, ast.Load) and "parent" in u(x.slice) for x in ast.walk(nl))
    h2 = hierarchy_helper(hugr, follow_local(ih, nl.iter))
    if reuse is None or not needs:
        ctx.ok(R4, "Hugr.insert_hugr: visiting order", "no dependence on parent-first order")
    else:
        ctx.check(h2 is not None, R4, "Hugr.insert_hugr: visiting order", file, nl.lineno,
                  f"the copy loop relies on parents being visited before children but iterates `{u(nl.iter)}` (index order); with reused indices "
                  "a child comes first and insertion raises ParentBeforeChild instead of returning a mapping", nl,
                  detail=f"order from {h2.name if h2 else ''}()")
    if h2 is not None:
        from .c03 import sibling_order_rule
        sibling_order_rule(ctx, h2, R4, hugr)


def insert_wrappers(ctx, R5="C08.R5") -> None:
    prog = ctx.program
    # ---- R5  (path summaries: locals and temporaries are substituted away)
    df = prog.cls("hugr.build.dfg.DfBase")
    dfile = df.module.path
    # stated on the public insert_* wrappers with the private implementation helper seen through (its signature is free):
    # the builder's HUGR is inserted once under this builder's parent node, the wires of the table are connected in order to the
    # image of the builder's root, and that image is returned
    if "_insert_nested_impl" not in df.methods:
        ctx.note("DfBase._insert_nested_impl no longer exists: the wrappers are judged on their own bodies")
    nf = NF(prog)
    table = {
        "insert_nested": "(*args,)",
        "insert_cfg": "(*args,)",
        "insert_conditional": "(cond_wire, *args)",
        "insert_tail_loop": "(*just_inputs, *rest)",
    }
    first = True
    for name, rest in table.items():
        m, _, _ = ctx.locate(f"hugr.build.dfg.DfBase.{name}")
        params = [a.arg for a in m.args.args]
        b = params[1]
        env = Env(df.module, df, {a: sym(a) for a in params}, {})
        if m.args.vararg:
            env.vars[m.args.vararg.arg] = sym(m.args.vararg.arg)
        ps = [p for p in ctx.paths(f"hugr.build.dfg.DfBase.{name}", inline=("_insert_nested_impl",)) if p.kind != "raise"]
        ins = f"self.hugr.insert_hugr({b}.hugr, self.parent_node)"
        image = f"{ins}[{b}.parent_node]"
        ok_impl = ok_wires = bool(ps)
        found = ""
        for p in ps:
            w = p.find_effect(f"self._wire_up({image}, E_w)")
            found = p.describe() + " :: " + " | ".join(p.effect_texts())
            ok_impl = ok_impl and len(w) == 1 and len(p.find_effect("self._wire_up(ANY_, ANY_)")) == 1 and p.kind == "return" and p.value_text() == image
            # the hugr is inserted once: the call text recurs only through substitution of the mapping
            ok_impl = ok_impl and sum(1 for e in p.effects if isinstance(e, ast.Expr) and u(e.value) == ins) == 1
            good = len(w) == 1
            if good:
                call = w[0][1].value if isinstance(w[0][1], ast.Expr) else w[0][1]
                try:
                    got_rest = nf.ev(call.args[1], env)
                    want_rest = nf.ev(ast.parse(rest, mode="eval").body, env)
                    good = _flatten(got_rest) == _flatten(want_rest)
                except Opaque:
                    good = False
            ok_wires = ok_wires and good
        if first:
            impl = df.methods.get("_insert_nested_impl", m)
            ctx.check(ok_impl, R5, "DfBase._insert_nested_impl", dfile, impl.lineno,
                      "the inserted builder's HUGR goes under this builder's parent node, the given wires are connected to the image of its root, which is returned", impl,
                      found=found[:400])
            first = False
        else:
            ctx.check(ok_impl, R5, f"DfBase.{name}: insertion", dfile, m.lineno,
                      "the inserted builder's HUGR goes under this builder's parent node, the given wires are connected to the image of its root, which is returned", m,
                      found=found[:400])
        ctx.check(ok_wires, R5, f"DfBase.{name}", dfile, m.lineno,
                  f"{name} must wire {rest[1:-1].rstrip(',')} to the inserted node -- the same wire order its add_* twin uses", m, found=found[:300])
    # twins: add_conditional wires (cond_wire, *args); add_tail_loop wires (*just_inputs, *rest)
    for name, want in (("add_conditional", "(cond_wire, *args)"), ("add_tail_loop", "(*just_inputs, *rest)")):
        m, _, _ = ctx.locate(f"hugr.build.dfg.DfBase.{name}")
        env0 = Env(df.module, df, {a.arg: sym(a.arg) for a in m.args.args} | ({m.args.vararg.arg: sym(m.args.vararg.arg)} if m.args.vararg else {}), {})
        ps = [p for p in ctx.paths(f"hugr.build.dfg.DfBase.{name}") if p.kind != "raise"]
        ok = bool(ps)
        for p in ps:
            wu = p.find_effect("self._wire_up(E_n, E_w)")
            good = len(wu) == 1
            if good:
                call = wu[0][1].value if isinstance(wu[0][1], ast.Expr) else wu[0][1]
                try:
                    good = _flatten(nf.ev(call.args[1], env0)) == _flatten(nf.ev(ast.parse(want, mode="eval").body, env0))
                except Opaque:
                    good = False
            ok = ok and good
        ctx.check(ok, R5, f"DfBase.{name}: wire order", dfile, m.lineno, f"{name} wires {want}", m)


def _flatten(t):
    """tuple/list terms as a flat item list (splat items kept)"""
    if t[0] in ("tuple", "list"):
        out = []
        for x in t[1]:
            if x[0] == "splat" and x[1][0] in ("tuple", "list"):
                out += _flatten(x[1])
            else:
                out.append(x)
        return out
    return [("splat", t)]


# ---------------------------------------------------------------------------------------
B = "hugr-py/src/hugr/hugr/base.py"
D = "hugr-py/src/hugr/build/dfg.py"
MUTANTS = [
    dict(name="num-outs-not-copied", file=B, expect="C08.R1", old="                num_outs=node_data._num_outs,\n", new=""),
    dict(name="metadata-not-copied", file=B, expect="C08.R1", old="                metadata=node_data.metadata,\n", new=""),
    dict(name="parent-not-mapped", file=B, expect="C08.R1", old="                node_parent = mapping[node_data.parent] if node_data.parent else parent", new="                node_parent = node_data.parent if node_data.parent else parent"),
    dict(name="root-under-target-root", file=B, expect="C08.R1", old="                node_parent = mapping[node_data.parent] if node_data.parent else parent", new="                node_parent = mapping[node_data.parent] if node_data.parent else None"),
    dict(name="order-links-dropped", file=B, expect="C08.R2", old="        for src, dst in hugr._links.items():\n            self.add_link(", new="        for src, dst in hugr._links.items():\n            if src.port.offset < 0:\n                continue\n            self.add_link("),
    dict(name="offset-reset", file=B, expect="C08.R2", old="                mapping[dst.port.node].inp(dst.port.offset),", new="                mapping[dst.port.node].inp(max(dst.port.offset, 0)),"),
    dict(name="endpoint-unmapped", file=B, expect="C08.R2", old="                mapping[src.port.node].out(src.port.offset),", new="                src.port.node.out(src.port.offset),"),
    dict(name="source-modified", file=B, expect="C08.R3", old="        for src, dst in hugr._links.items():\n            self.add_link(", new="        hugr._free_nodes.clear()\n        for src, dst in hugr._links.items():\n            self.add_link("),
    dict(name="index-order-visit", file=B, expect="C08.R4", old="        for node in hugr._hierarchy_order():\n            node_data = hugr[node]", new="        for node in hugr:\n            node_data = hugr[node]"),
    dict(name="wrapper-wire-order", file=D, expect="C08.R5", old="        return self._insert_nested_impl(tl, *(*just_inputs, *rest))", new="        return self._insert_nested_impl(tl, *(*rest, *just_inputs))"),
    dict(name="wrapper-cond-wire-last", file=D, expect="C08.R5", old="        return self._insert_nested_impl(cond, *(cond_wire, *args))", new="        return self._insert_nested_impl(cond, *(*args, cond_wire))"),
    dict(name="impl-wrong-parent", file=D, expect="C08.R5", old="        mapping = self.hugr.insert_hugr(builder.hugr, self.parent_node)", new="        mapping = self.hugr.insert_hugr(builder.hugr, self.hugr.root)"),
    dict(name="impl-returns-unmapped", file=D, expect="C08.R5", old="        self._wire_up(mapping[builder.parent_node], args)\n        return mapping[builder.parent_node]", new="        self._wire_up(mapping[builder.parent_node], args)\n        return builder.parent_node"),
]
TWINS = [
    dict(name="twin-wrapper-flat-splat", file=D, old="        return self._insert_nested_impl(cond, *(cond_wire, *args))", new="        return self._insert_nested_impl(cond, cond_wire, *args)"),
]


def thorough(ctx):
    from ..selftest import run_battery
    return run_battery(ctx, MUTANTS, TWINS)
