"""C14 -- constants inhabit the type they report.

R1 constructor table of the sugar values / types / tag ops (symbolic expansion of __init__) and the inhabitation
equation typ.variant_rows[tag] == [v.type_() for v in vals]; R2 type_() plumbing; R3 std extension constants;
R4 load path (Const offers val.type_(), LoadConst built from it, wired 0 -> 0).
"""
from __future__ import annotations

import ast

from ..model import calls_in, call_name, kwarg, real_body, u
from ..nf import NF, Env, Opaque, attr, const, ctor_args, find_calls, mk_ctor, show, sym
from ..stdlib import Std

VAL, TYS, OPS = "hugr.val", "hugr.tys", "hugr.ops"

# class -> (constructor parameters, expected general form as a Python expression over those parameters)
VALUE_TABLE = {
    "Tuple": (["vals"], "Sum(0, tys.Sum([[v.type_() for v in vals]]), list(vals))"),
    "Some": (["vals"], "Sum(1, tys.Sum([[], [v.type_() for v in vals]]), list(vals))"),
    "None_": (["types"], "Sum(0, tys.Sum([[], list(types)]), [])"),
    "Left": (["vals", "right_typ"], "Sum(0, tys.Sum([[v.type_() for v in vals], list(right_typ)]), list(vals))"),
    "Right": (["left_typ", "vals"], "Sum(1, tys.Sum([list(left_typ), [v.type_() for v in vals]]), list(vals))"),
    "UnitSum": (["tag", "size"], "Sum(tag, tys.Sum([[]] * size), [])"),
}
TYPE_TABLE = {
    "Tuple": (["tys_"], "Sum([list(tys_)])", {"tys": "tys_"}),
    "Option": (["tys_"], "Sum([[], list(tys_)])", {"tys": "tys_"}),
    "Either": (["left", "right"], "Sum([list(left), list(right)])", {}),
    "UnitSum": (["size"], "Sum([[]] * size)", {}),
}
TAG_TABLE = {
    "Some": (["some_tys"], "Tag(1, tys.Sum([[], list(some_tys)]))"),
    "Left": (["either_type"], "Tag(0, either_type)"),
    "Right": (["either_type"], "Tag(1, either_type)"),
    "Continue": (["either_type"], "Tag(0, either_type)"),
    "Break": (["either_type"], "Tag(1, either_type)"),
}


def _expect(nf, mod, expr, params):
    env = Env(mod, None, {p: sym(p) for p in params}, {})
    t = nf.ev(ast.parse(expr, mode="eval").body, env)
    return nf.expand(t)


def _drop_default(t, names=("num_out",)):
    if isinstance(t, tuple) and t and t[0] == "ctor":
        return mk_ctor(t[1], {p: _drop_default(v) for p, v in t[2] if p not in names})
    return t


def r1_tables(ctx, nf) -> None:
    prog = ctx.program
    vm, tm, om = prog.module(VAL), prog.module(TYS), prog.module(OPS)
    for cname, (params, expr) in VALUE_TABLE.items():
        c = vm.classes.get(cname)
        if c is None:
            ctx.broken(f"anchor vanished: hugr.val.{cname}")
        k, init = c.find_method("__init__")
        try:
            got = nf.expand(mk_ctor(c.qualname, {p: sym(p) for p in params}))
            want = _expect(nf, vm, expr, params)
        except Opaque as e:
            ctx.broken(f"hugr.val.{cname}: constructor not normalisable ({e})")
        ctx.check(got == want, "C14.R1", f"hugr.val.{cname}.__init__", vm.path, (init or c.node).lineno,
                  f"{cname}({', '.join(params)}) must build {expr}", init or c.node, expected=show(want), found=show(got), detail=show(got)[:200])
        # inhabitation: the tagged variant row is exactly the row of the values' types
        if got[0] == "ctor":
            a = ctor_args(got)
            typ, tag, vals = a.get("typ"), a.get("tag"), a.get("vals")
            if typ and typ[0] == "ctor" and tag is not None and vals is not None:
                rows = ctor_args(typ).get("variant_rows")
                row = None
                if rows and rows[0] == "list" and tag[0] == "const" and isinstance(tag[1], int) and 0 <= tag[1] < len(rows[1]):
                    row = rows[1][tag[1]]
                elif rows and rows[0] == "op" and rows[1] == "repeat":
                    row = rows[2][0][1][0] if rows[2][0][0] == "list" and len(rows[2][0][1]) == 1 else None
                env = Env(vm, None, {"vals": vals}, {})
                want_row = nf.ev(ast.parse("[v.type_() for v in vals]", mode="eval").body, env)
                in_range = rows is not None and (rows[0] != "list" or (tag[0] == "const" and 0 <= tag[1] < len(rows[1])))
                ctx.check(row is not None and row == want_row and in_range, "C14.R1", f"hugr.val.{cname}: inhabits its type", vm.path, (init or c.node).lineno,
                          f"the values of a {cname} must have exactly the types of variant {show(tag)} of the sum type it reports", init or c.node,
                          expected=show(want_row), found=show(row) if row is not None else f"variant {show(tag)} of {show(rows)}")
    for cname, (params, expr, rename) in TYPE_TABLE.items():
        c = tm.classes.get(cname)
        if c is None:
            ctx.broken(f"anchor vanished: hugr.tys.{cname}")
        k, init = c.find_method("__init__")
        real_params = [a.arg for a in init.args.args[1:]] + ([init.args.vararg.arg] if init.args.vararg else [])
        binding = {}
        for rp in real_params:
            binding[rp] = sym(rename.get(rp, rp))
        got = nf.expand(mk_ctor(c.qualname, binding))
        want = _expect(nf, tm, expr, params)
        ctx.check(got == want, "C14.R1", f"hugr.tys.{cname}.__init__", tm.path, init.lineno,
                  f"type sugar {cname} must denote {expr}", init, expected=show(want), found=show(got), detail=show(got)[:200])
    us = tm.classes["UnitSum"]
    f = nf.init_fields(us, {"size": sym("size")})
    ctx.check(f.get("size") == sym("size"), "C14.R1", "hugr.tys.UnitSum.size", tm.path, us.methods["__init__"].lineno,
              "UnitSum(n) must record size n (it is what the unit form serializes)", us.methods["__init__"], found=show(f.get("size")) if f.get("size") else "")
    for cname, (params, expr) in TAG_TABLE.items():
        c = om.classes.get(cname)
        if c is None:
            ctx.broken(f"anchor vanished: hugr.ops.{cname}")
        k, init = c.find_method("__init__")
        got = _drop_default(nf.expand(mk_ctor(c.qualname, {p: sym(p) for p in params})))
        want = _drop_default(_expect(nf, om, expr, params))
        ctx.check(got == want, "C14.R1", f"hugr.ops.{cname}.__init__", om.path, (init or c.node).lineno,
                  f"tag operation {cname} must be {expr}", init or c.node, expected=show(want), found=show(got), detail=show(got)[:200])
    # helper constants
    bv = vm.functions.get("bool_value")
    if bv is None:
        ctx.broken("anchor vanished: hugr.val.bool_value")
    env = Env(vm, None, {"b": sym("b")}, {})
    t = nf.body(bv, env)
    want = mk_ctor("hugr.val.UnitSum", {"tag": ("call", "int", (sym("b"),), ()), "size": const(2)})
    ctx.check(t == want, "C14.R1", "hugr.val.bool_value", vm.path, bv.lineno, "bool_value(b) must be UnitSum(int(b), 2)", bv, expected=show(want), found=show(t))
    for name, want_src in (("Unit", "UnitSum(0, 1)"), ("TRUE", "bool_value(True)"), ("FALSE", "bool_value(False)")):
        v = vm.assigns.get(name)
        ctx.check(v is not None and u(v) == want_src, "C14.R1", f"hugr.val.{name}", vm.path, getattr(v, "lineno", 1), f"{name} must be {want_src}", v, found=u(v))
    for name, want_src in (("Bool", "UnitSum(size=2)"), ("Unit", "UnitSum(size=1)")):
        v = tm.assigns.get(name)
        ctx.check(v is not None and u(v) in (want_src, want_src.replace("size=", "")), "C14.R1", f"hugr.tys.{name}", tm.path, getattr(v, "lineno", 1),
                  f"tys.{name} must be {want_src}", v, found=u(v))


def r2_type_plumbing(ctx, nf) -> None:
    vm = ctx.program.module(VAL)
    s = sym("self")
    table = [("Sum", "type_", attr(s, "typ")), ("Extension", "type_", attr(s, "typ")),
             ("Function", "type_", nf.expr_nf("self.body.root_op().inner_signature()", vm.classes["Function"])[0]),
             ("ExtensionValue", "type_", ("call", ".type_", (("call", ".to_value", (s,), ()),), ())),
             ("ExtensionValue", "_to_serial", None)]
    for cname, meth, want in table:
        c = vm.classes[cname]
        k, m = c.find_method(meth)
        if m is None:
            ctx.broken(f"anchor vanished: hugr.val.{cname}.{meth}")
        try:
            got, _ = nf.method_nf(c, meth)
        except Opaque as e:
            ctx.broken(f"hugr.val.{cname}.{meth}: {e}")
        if want is None:
            ok = got in (("enc", ("call", ".to_value", (s,), ())), ("call", "._to_serial", (("call", ".to_value", (s,), ()),), ()))
            ctx.check(ok, "C14.R2", f"hugr.val.{cname}.{meth}", vm.path, m.lineno, "an extension value serializes as self.to_value()", m, found=show(got))
            continue
        ctx.check(got == want, "C14.R2", f"hugr.val.{cname}.{meth}", vm.path, m.lineno,
                  f"{cname}.{meth} must be {show(want)}", m, expected=show(want), found=show(got))
    # sugar values do not override type_
    for c in ctx.program.subclasses(vm.classes["Sum"]):
        ctx.check("type_" not in c.methods, "C14.R2", f"{c.qualname}: type_ inherited", c.module.path, c.node.lineno,
                  f"{c.name} must report the type it was built with", c.methods.get("type_"))


STD_VALUES = {
    # module, class, expected (extension, type key), type arguments description
    ("hugr.std.int", "IntVal"): ("arithmetic.int.types", "int", "width"),
    ("hugr.std.float", "FloatVal"): ("arithmetic.float.types", "float64", None),
    ("hugr.std.prelude", "StringVal"): ("prelude", "string", None),
    ("hugr.std.collections.array", "ArrayVal"): ("collections.array", "array", "sized"),
    ("hugr.std.collections.list", "ListVal"): ("collections.list", "List", "elem"),
    ("hugr.std.collections.static_array", "StaticArrayVal"): ("collections.static_array", "static_array", "elem"),
}


def r3_std_constants(ctx, nf) -> None:
    prog = ctx.program
    std = Std(prog, ctx.pkg, ctx.canon)
    for (mn, cname), (ext, key, kind) in STD_VALUES.items():
        m = prog.module(mn)
        c = m.classes.get(cname)
        if c is None:
            ctx.broken(f"anchor vanished: {mn}.{cname}")
        if c.find_method("to_value")[1] is None:
            ctx.broken(f"anchor vanished: {mn}.{cname}.to_value")
        tv = ctx.cfn(f"{mn}.{cname}.to_value")      # canonical: locals substituted, arguments in the callee's positional layout
        calls = [x for x in calls_in(tv) if u(x.func) in ("val.Extension", "Extension")]
        if len(calls) != 1:
            ctx.broken(f"{mn}.{cname}.to_value: expected one val.Extension(...) call")
        call = calls[0]
        typ = kwarg(call, "typ", 1)
        exts = kwarg(call, "extensions", 3)
        d = std.desc(m, typ, {}, c)
        ok = d is not None and d[0] == "exttype" and (d[1], d[2]) == (ext, key)
        ctx.check(bool(ok), "C14.R3", f"{mn}.{cname}: reported type", m.path, tv.lineno,
                  f"{cname} must report the standard type {ext}.{key}", call, expected=f"{ext}.{key}", found=str(d[:3]) if d else u(typ))
        # extensions list names the extension the type definition came from
        names = []
        if isinstance(exts, ast.List):
            for e in exts.elts:
                de = std.desc(m, e, {}, c)
                names.append(de[1] if de and de[0] == "extname" else u(e))
        ctx.check(ext in names, "C14.R3", f"{mn}.{cname}: extensions used", m.path, tv.lineno,
                  f"{cname} must name its defining extension {ext!r} among the extensions it uses", call, expected=ext, found=str(names))
        # type arguments
        if d and d[0] == "exttype" and d[3] is not None:
            args = [u(a) for a in d[3]]
            if kind == "width":
                loc = d[5]
                a0 = d[3][0] if d[3] else None
                ok = isinstance(a0, ast.Call) and u(a0.func).endswith("BoundedNatArg") and _bound_to(a0, loc, "self.width")
                ctx.check(bool(ok), "C14.R3", f"{mn}.{cname}: width", m.path, tv.lineno, "an integer constant of width w reports int<w>", call, found=str(args))
            if kind in ("sized", "elem"):
                loc = d[5]
                init = ctx.cfn(f"{mn}.{cname}.__init__")
                iparams = [a.arg for a in init.args.args[1:]]
                # elem type parameter flows into the type; for arrays the size is len(v)
                src = {p: u(loc[p][1]) for p in loc if isinstance(loc[p], tuple) and loc[p][0] == "expr"}
                okk = any(v == "elem_ty" for v in src.values()) and "elem_ty" in iparams
                ctx.check(okk, "C14.R3", f"{mn}.{cname}: element type", m.path, init.lineno,
                          f"{cname} must build its type from the element type it was given", init, found=str(src))
                if kind == "sized":
                    ctx.check("len(v)" in src.values(), "C14.R3", f"{mn}.{cname}: size", m.path, init.lineno,
                              "an array constant's type must have size equal to the number of elements", init, found=str(src))
                vstore = [n for n in ast.walk(init) if isinstance(n, ast.Assign) and u(n.targets[0]) == "self.v"]
                ctx.check(len(vstore) == 1 and u(vstore[0].value) == "v", "C14.R3", f"{mn}.{cname}: elements kept", m.path, init.lineno,
                          "the constant must keep exactly the elements it was given", init)
        # payload: every element embedded as a complete value + the element type
        if kind in ("sized", "elem"):
            t, env = _to_value_nf(nf, c)
            sv = show(t)
            want_vals = nf.expr_nf("[x._to_serial_root() for x in self.v]", c)[0]
            want_ty = nf.expr_nf("self.ty.ty._to_serial_root()", c)[0]
            from ..nf import contains
            ctx.check(contains(t, want_vals), "C14.R3", f"{mn}.{cname}: payload values", m.path, tv.lineno,
                      "every element must be embedded as a complete serialized value", tv, expected=show(want_vals), found=sv[:300])
            ctx.check(contains(t, want_ty), "C14.R3", f"{mn}.{cname}: payload element type", m.path, tv.lineno,
                      "the payload must carry the serialized element type", tv, expected=show(want_ty), found=sv[:300])
        else:
            t, env = _to_value_nf(nf, c)
            from ..nf import contains
            ctx.check(contains(t, attr(sym("self"), "v")), "C14.R3", f"{mn}.{cname}: payload value", m.path, tv.lineno, "the payload must carry the value", tv)
            if kind == "width":
                a = ctor_args(t).get("val") if t[0] == "ctor" else None
                okw = a is not None and a[0] == "dict" and (const("log_width"), attr(sym("self"), "width")) in a[1] and (const("value"), attr(sym("self"), "v")) in a[1]
                ctx.check(bool(okw), "C14.R3", f"{mn}.{cname}: payload width", m.path, tv.lineno,
                          "the integer payload must carry the same log width as the reported type", tv, found=show(a) if a else "")


def _bound_to(call: ast.Call, loc: dict, want: str) -> bool:
    a = kwarg(call, "n", 0)
    seen = 0
    while isinstance(a, ast.Name) and a.id in loc and isinstance(loc[a.id], tuple) and loc[a.id][0] == "expr" and seen < 5:
        seen += 1
        a, loc = loc[a.id][1], loc[a.id][3]
    return a is not None and u(a) == want


def _to_value_nf(nf, c):
    try:
        return nf.method_nf(c, "to_value")
    except Opaque as e:
        from ..core import AnalysisError
        raise AnalysisError(f"{c.qualname}.to_value not normalisable: {e}")


STD_MODEL_TERMS = {
    # class -> the model term its to_model() must build (over `self`): symbol and arguments agree with the JSON payload of to_value()
    "hugr.std.collections.array.ArrayVal": "model.Apply('collections.array.const', [model.Literal(len(self.v)), self.ty.ty.to_model(), model.List([c0.to_model() for c0 in self.v])])",
    "hugr.std.int.IntVal": "model.Apply('arithmetic.int.const', [model.Literal(self.width), model.Literal(self.v)])",
    "hugr.std.float.FloatVal": "model.Apply('arithmetic.float.const_f64', [model.Literal(self.v)])",
}


def r7_std_model_terms(ctx) -> None:
    """the model-export path of a std constant carries the same type parameters and elements as its JSON path"""
    from ..rulekit import unold
    for qual, want in STD_MODEL_TERMS.items():
        try:
            fn, m, c = ctx.locate(f"{qual}.to_model")
        except Exception:
            ctx.broken(f"anchor vanished: {qual}.to_model")
        ps = ctx.paths(f"{qual}.to_model")
        ok = bool(ps) and all(q.kind == "return" and not q.tests and unold(q.value) == want for q in ps)
        ctx.check(ok, "C14.R7", f"{qual}.to_model", m.path, fn.lineno,
                  f"{qual.split('.')[-1]}.to_model must export `{want}`: the width / size, the *element* type and every element, as the JSON payload does", fn,
                  expected=want, found=unold(ps[0].value) if ps and ps[0].value is not None else "")


def r6_sum_model(ctx) -> None:
    """the model term of a sum constant: all variant rows, then the field types of the *tagged* row, the tag, the field values"""
    from ..rulekit import unold
    from ..tmpl import T, tmatch
    fn, m, _ = ctx.locate("hugr.val.Sum.to_model")
    ps = [p for p in ctx.paths("hugr.val.Sum.to_model") if p.kind == "return"]
    rows = "[model.List([c1.to_model() for c1 in c0]) for c0 in self.typ.variant_rows]"
    want_types = (f"[model.Apply('core.const', [c0]) for c0 in {rows}[self.tag].parts]",
                  "[model.Apply('core.const', [c0.to_model()]) for c0 in self.typ.variant_rows[self.tag]]")
    bad = ""
    for p in ps:
        e = tmatch(ast.parse(unold(p.value), mode="eval").body, T("model.Apply('core.const.adt', [model.List(E_rows), model.List(E_types), model.Literal(E_tag), model.Tuple(E_vals)])"))
        if e is None:
            bad = f"term shape: {unold(p.value)[:200]}"
        elif e["E_rows"] != rows:
            bad = f"variant rows: {e['E_rows'][:200]}"
        elif e["E_types"] not in want_types:
            bad = f"field types: {e['E_types'][:200]}"
        elif e["E_tag"] != "self.tag" or e["E_vals"] != "[c0.to_model() for c0 in self.vals]":
            bad = f"tag / values: {e['E_tag']} / {e['E_vals'][:120]}"
        if bad:
            break
    ctx.check(bool(ps) and not bad, "C14.R6", "hugr.val.Sum.to_model: field types of the tagged row", m.path, fn.lineno,
              "the exported constant must list every variant row, the types of the row selected by self.tag (not of another row), the tag and the "
              f"values of self.vals [{bad}]", fn, expected=want_types[0], found=bad)


def r4_load_path(ctx, nf) -> None:
    df = ctx.program.cls("hugr.build.dfg.DfBase")
    m = df.methods.get("load")
    if m is None:
        ctx.broken("anchor vanished: DfBase.load")
    from ..rulekit import unold
    from ..tmpl import T, tfind
    cparam = m.args.args[1].arg
    ps = [p for p in ctx.paths("hugr.build.dfg.DfBase.load") if p.kind != "raise"]
    ok_t = ok_w = bool(ps)
    found = ""
    for p in ps:
        links = p.find_effect("self.hugr.add_link(E_a, E_b)")
        if len(links) != 1 or p.kind != "return":
            ok_t = ok_w = False
            continue
        a, b = unold(links[0][2]["E_a"]), unold(links[0][2]["E_b"])
        found = f"add_link({a}, {b})"
        # the constant node: the argument itself, or the node add_const made for a value argument
        cn = a[: -len(".out_port()")] if a.endswith(".out_port()") else (a[: -len(".out(0)")] if a.endswith(".out(0)") else None)
        ok_w = ok_w and cn is not None and (cn == cparam or cn.startswith(f"self.add_const({cparam}")) and b == unold(p.value) + ".inp(0)"
        lcs = [e for _, e in tfind(ast.parse(b, mode="eval").body, T("ops.LoadConst(E_ty)"))]
        ok_t = ok_t and len(lcs) >= 1 and all(e["E_ty"] == f"self.hugr._get_typed_op({cn}, ops.Const).val.type_()" for e in lcs)
    ctx.check(bool(ok_t), "C14.R4", "hugr.build.dfg.DfBase.load: LoadConst type", df.module.path, m.lineno,
              "the LoadConstant built for a constant must produce the type the constant reports (ops.LoadConst(const_op.val.type_()))", m,
              found=found[:300])
    ctx.check(bool(ok_w), "C14.R4", "hugr.build.dfg.DfBase.load: wiring", df.module.path, m.lineno,
              "the constant's static output 0 must be linked to the load's static input 0", m, found=found[:300])
    cc = ctx.program.cls("hugr.ops.Const")
    paths = nf.paths(cc, "port_kind")
    rets = [t for g, o, t, n, e in paths if o == "return"]
    s = sym("self")
    want = mk_ctor("hugr.tys.ConstKind", {"ty": ("call", ".type_", (attr(s, "val"),), ())})
    ctx.check(rets == [want], "C14.R4", "hugr.ops.Const.port_kind", cc.module.path, cc.find_method("port_kind")[1].lineno,
              "a Const node offers the type its value reports on its static port", cc.find_method("port_kind")[1], expected=show(want), found="; ".join(show(t) for t in rets))
    ac = ctx.program.cls("hugr.build.dfg.DefinitionBuilder").methods.get("add_const")
    ok = ac is not None and any(u(x.func) == "ops.Const" and [u(a) for a in x.args] == [ac.args.args[1].arg] for x in calls_in(ac))
    ctx.check(bool(ok), "C14.R4", "hugr.build.dfg.DefinitionBuilder.add_const", df.module.path, ac.lineno if ac else 1, "add_const wraps exactly the given value", ac)


def run(ctx) -> None:
    ctx.rule("C14.R1", "constructor tables: sugar values / types / tag ops expand to the specified general form; tagged variant row = row of the values' types", floor=22)
    ctx.rule("C14.R2", "type_() plumbing: Sum/Extension report their typ, Function its body's signature, extension values delegate to to_value()", floor=9)
    ctx.rule("C14.R3", "std constants report the matching std type, name its extension, embed every element and the element type", floor=20)
    ctx.rule("C14.R4", "load path: Const offers val.type_(), LoadConst is built from it and wired static 0 -> 0", floor=4)
    nf = NF(ctx.program)
    r1_tables(ctx, nf)
    r2_type_plumbing(ctx, nf)
    r3_std_constants(ctx, nf)
    r4_load_path(ctx, nf)
    ctx.rule("C14.R7", "model export of std constants: symbol, type parameters and elements as in the JSON payload", floor=3)
    r7_std_model_terms(ctx)
    ctx.rule("C14.R6", "model export of a sum constant: variant rows, field types of the tagged row, tag, values", floor=1)
    r6_sum_model(ctx)
    ctx.rule("C14.R5", "a reloaded value keeps the fields its type is computed from: S.deserialize ∘ X._to_serial is the identity on every init-field of every value class (shared with C02.R1)", floor=5)
    from .c02 import r1_forward_codec
    r1_forward_codec(ctx, nf, rule="C14.R5", modules=("hugr.val",))
    ctx.rule("C14.R8", "value encodings dump complete models: no exclusion options on model_dump / model_dump_json in hugr.val and the std value modules (shared with C03.R1)", floor=1)
    from .c03 import dump_sites_rule
    ctx.stats["C14.R8 dump sites"] = dump_sites_rule(ctx, "C14.R8", ("hugr.val", "hugr.std"))
    from .. import lints
    lints.arm(ctx)



# ---------------------------------------------------------------------------------------
V = "hugr-py/src/hugr/val.py"
T = "hugr-py/src/hugr/tys.py"
O = "hugr-py/src/hugr/ops.py"
D = "hugr-py/src/hugr/build/dfg.py"
SI = "hugr-py/src/hugr/std/int.py"
SF = "hugr-py/src/hugr/std/float.py"
SP = "hugr-py/src/hugr/std/prelude.py"
AR = "hugr-py/src/hugr/std/collections/array.py"
LI = "hugr-py/src/hugr/std/collections/list.py"
SA = "hugr-py/src/hugr/std/collections/static_array.py"
MUTANTS = [
    dict(name="some-tag-zero", file=V, expect="C14.R1", old="            tag=1, typ=tys.Option(*(v.type_() for v in val_list)), vals=val_list", new="            tag=0, typ=tys.Option(*(v.type_() for v in val_list)), vals=val_list"),
    dict(name="none-tag-one", file=V, expect="C14.R1", old="        super().__init__(tag=0, typ=tys.Option(*types), vals=[])", new="        super().__init__(tag=1, typ=tys.Option(*types), vals=[])"),
    dict(name="left-right-types-crossed", file=V, expect="C14.R1", old="            typ=tys.Either([v.type_() for v in val_list], right_typ),", new="            typ=tys.Either(right_typ, [v.type_() for v in val_list]),"),
    dict(name="right-tag-zero", file=V, expect="C14.R1", old="            tag=1,\n            typ=tys.Either(left_typ, [v.type_() for v in val_list]),", new="            tag=0,\n            typ=tys.Either(left_typ, [v.type_() for v in val_list]),"),
    dict(name="tuple-drops-last-type", file=V, expect="C14.R1", old="            tag=0, typ=tys.Tuple(*(v.type_() for v in val_list)), vals=val_list", new="            tag=0, typ=tys.Tuple(*(v.type_() for v in val_list[:-1])), vals=val_list"),
    dict(name="option-variants-swapped", file=T, expect="C14.R1", old="        self.variant_rows = [[], list(tys)]", new="        self.variant_rows = [list(tys), []]"),
    dict(name="either-variants-swapped", file=T, expect="C14.R1", old="        self.variant_rows = [list(left), list(right)]", new="        self.variant_rows = [list(right), list(left)]"),
    dict(name="unitsum-size-plus-one", file=T, expect="C14.R1", old="        super().__init__(variant_rows=[[]] * size)", new="        super().__init__(variant_rows=[[]] * (size + 1))"),
    dict(name="bool-value-inverted", file=V, expect="C14.R1", old="    return UnitSum(int(b), 2)", new="    return UnitSum(int(not b), 2)"),
    dict(name="true-false-swapped", file=V, expect="C14.R1", old="TRUE = bool_value(True)", new="TRUE = bool_value(False)"),
    dict(name="op-some-tag-zero", file=O, expect="C14.R1", old="        super().__init__(1, tys.Option(*some_tys))", new="        super().__init__(0, tys.Option(*some_tys))"),
    dict(name="op-left-tag-one", file=O, expect="C14.R1", old="        super().__init__(0, either_type)", new="        super().__init__(1, either_type)"),
    dict(name="unit-value-val-unitsum-size", file=V, expect="C14.R1", old="            typ=tys.UnitSum(size),\n", new="            typ=tys.UnitSum(size + tag),\n"),
    dict(name="function-type-outer", file=V, expect="C14.R2", old="        return self.body.root_op().inner_signature()", new="        return self.body.root_op().outer_signature()"),
    dict(name="sum-type-from-sugar-override", file=V, expect="C14.R2", old="    def __repr__(self) -> str:\n        return f\"Some({comma_sep_repr(self.vals)})\"", new="    def type_(self) -> tys.Sum:\n        return tys.Option()\n\n    def __repr__(self) -> str:\n        return f\"Some({comma_sep_repr(self.vals)})\""),
    dict(name="int-type-fixed-width", file=SI, expect="C14.R3", old="            typ=int_t(self.width),", new="            typ=INT_T,"),
    dict(name="int-payload-fixed-width", file=SI, expect="C14.R3", old="        payload = {\"log_width\": self.width, \"value\": self.v}", new="        payload = {\"log_width\": 5, \"value\": self.v}"),
    dict(name="int-wrong-extension", file=SI, expect="C14.R3", old="            extensions=[INT_TYPES_EXTENSION.name],", new="            extensions=[INT_OPS_EXTENSION.name],"),
    dict(name="float-no-extension", file=SF, expect="C14.R3", old="extensions=[FLOAT_TYPES_EXTENSION.name]", new="extensions=[]"),
    dict(name="string-type-usize", file=SP, expect=["C14.R3", "C10.R4"], old="STRING_T_DEF = PRELUDE_EXTENSION.types[\"string\"]", new="STRING_T_DEF = PRELUDE_EXTENSION.types[\"usize\"]"),
    dict(name="array-size-fixed", file=AR, expect="C14.R3", old="        self.ty = Array(elem_ty, len(v))", new="        self.ty = Array(elem_ty, 0)"),
    dict(name="array-first-element-only", file=AR, expect="C14.R3", old="        vs = [v._to_serial_root() for v in self.v]\n        element_ty = self.ty.ty._to_serial_root()\n        serial_val = {\"values\": vs, \"typ\": element_ty}\n        return val.Extension(\n            name, typ=self.ty, val=serial_val, extensions=[EXTENSION.name]\n        )\n\n    def __str__(self) -> str:\n        return f\"array",
         new="        vs = [v._to_serial_root() for v in self.v[:1]]\n        element_ty = self.ty.ty._to_serial_root()\n        serial_val = {\"values\": vs, \"typ\": element_ty}\n        return val.Extension(\n            name, typ=self.ty, val=serial_val, extensions=[EXTENSION.name]\n        )\n\n    def __str__(self) -> str:\n        return f\"array"),
    dict(name="list-payload-without-type", file=LI, expect="C14.R3", old="        serial_val = {\"values\": vs, \"typ\": element_ty}", new="        serial_val = {\"values\": vs}"),
    dict(name="static-array-elements-unserialized", file=SA, expect="C14.R3", old="                \"values\": [v._to_serial_root() for v in self.v],", new="                \"values\": [str(v) for v in self.v],"),
    dict(name="loadconst-wrong-type", file=D, expect="C14.R4", old="        load_op = ops.LoadConst(const_op.val.type_())", new="        load_op = ops.LoadConst(tys.Unit)"),
    dict(name="add-const-other-value", file=D, expect="C14.R4", old="        return self.hugr.add_node(ops.Const(value), parent_node)", new="        return self.hugr.add_node(ops.Const(val.Unit), parent_node)"),
]
TWINS = [
    dict(name="twin-tuple-listcomp", file=V, old="            tag=0, typ=tys.Tuple(*(v.type_() for v in val_list)), vals=val_list", new="            tag=0, typ=tys.Tuple(*[v.type_() for v in val_list]), vals=val_list"),
    dict(name="twin-none-explicit-rows", file=V, old="        super().__init__(tag=0, typ=tys.Option(*types), vals=[])", new="        option_ty = tys.Option(*types)\n        super().__init__(0, option_ty, [])"),
]


def thorough(ctx):
    from ..selftest import run_battery
    return run_battery(ctx, MUTANTS, TWINS)
