"""C01 -- builder-constructed HUGRs satisfy the specification's validity rules.

Decided: necessary conditions of validity that live in the builders' code shape:
R1 mandated child positions; R2 permitted parent/child pairs (oracle: hugr-core/src/ops/{tag,validate}.rs);
R3 row / count propagation from the child Output into the container; R4 order edge for non-local wires;
R5 order-port addressing (= C03.R5); R6 no value edge into a function body.
Not decided: acyclicity, dominance, linearity, type equality at both ends of an edge (facts about the user's program).
"""
from __future__ import annotations

import ast

from ..cfg import CFG, EXIT, RAISE
from ..model import Class, calls_in, call_name, kwarg, real_body, u, walk_no_nested
from ..nf import NF, Env, Opaque, attr, show, sym
from ..rust import PY2RUST, RustOps
from .c03 import r5_order_offset

BUILD = ("hugr.build.dfg", "hugr.build.cfg", "hugr.build.cond_loop", "hugr.build.function", "hugr.build.tracked_dfg")


def op_class(prog, mod, fn, e, cls: Class | None):
    """class name of the operation an expression denotes: ops.X(...) / a local assigned from it / an annotated parameter"""
    seen = 0
    while isinstance(e, ast.Name) and seen < 4:
        seen += 1
        a = [s.value for s in ast.walk(fn) if isinstance(s, ast.Assign) and isinstance(s.targets[0], ast.Name) and s.targets[0].id == e.id]
        if len(a) == 1:
            e = a[0]
            continue
        for p in fn.args.args + fn.args.kwonlyargs:
            if p.arg == e.id and p.annotation is not None:
                ann = u(p.annotation)
                if ann.startswith("ops."):
                    return ann[4:]
                if ann in ("DP",):
                    return "<DfParentOp>"
        break
    if isinstance(e, ast.Call) and u(e.func).startswith("ops."):
        return u(e.func)[4:]
    return None


def builder_parent_class(cls: Class | None) -> str | None:
    """the operation class of a builder's own parent node, from its generic base (DfBase[ops.DFG], ParentBuilder[ops.CFG], ...)"""
    if cls is None:
        return None
    for k in cls.mro:
        for b in k.node.bases:
            if isinstance(b, ast.Subscript) and u(b.value) in ("DfBase", "ParentBuilder", "DefinitionBuilder"):
                s = u(b.slice)
                if s.startswith("ops."):
                    return s[4:]
                if s == "DP":
                    return "<DfParentOp>"
    return None


def creation_sites(prog):
    """every node-creating call in hugr/build: (module, class, function, call, op class, parent expr)"""
    out = []
    for mn in BUILD:
        m = prog.module(mn)
        for c in list(m.classes.values()) + [None]:
            fns = c.methods.values() if c else m.functions.values()
            for fn in fns:
                for call in calls_in(fn):
                    nm = call_name(call)
                    if nm in ("add_node", "_add_node") and call.args:
                        out.append((m, c, fn, call, op_class(prog, m, fn, call.args[0], c), kwarg(call, "parent", 1)))
                    elif nm == "new_nested" and isinstance(call.func, ast.Attribute):
                        k = u(call.func.value)
                        if k in ("Cfg",):
                            out.append((m, c, fn, call, "CFG", kwarg(call, "parent", 2)))
                        elif k in ("Conditional",):
                            out.append((m, c, fn, call, "Conditional", kwarg(call, "parent", 3)))
                        elif call.args:
                            out.append((m, c, fn, call, op_class(prog, m, fn, call.args[0], c), kwarg(call, "parent", 2)))
                    elif nm == "add_const" and isinstance(call.func, ast.Attribute) and u(call.func.value) in ("self", "self.hugr") and fn.name != "add_const":
                        out.append((m, c, fn, call, "Const", kwarg(call, "parent", 1)))
    return out


def r1_r2_structure(ctx, rust: RustOps) -> None:
    prog = ctx.program
    DFP = rust.flags[next(iter(rust.dataflow_parents))]
    # ---- R1a: dataflow containers: Input first, Output second
    df = prog.cls("hugr.build.dfg.DfBase")
    io = df.methods.get("_init_io_nodes")
    if io is None:
        ctx.broken("anchor vanished: DfBase._init_io_nodes")
    seq = [(op_class(prog, df.module, io, c.args[0], df), u(kwarg(c, "parent", 1))) for c in calls_in(io) if call_name(c) == "add_node"]
    seq.sort(key=lambda x: 0)   # calls_in walks in source order already for straight-line code
    calls = sorted([c for c in calls_in(io) if call_name(c) == "add_node"], key=lambda c: (c.lineno, c.col_offset))
    seq = [(op_class(prog, df.module, io, c.args[0], df), u(kwarg(c, "parent", 1))) for c in calls]
    want = [DFP["allowed_first_child"], DFP["allowed_second_child"]]
    got_tags = [rust.tags.get(PY2RUST.get(o or "", ""), "?") for o, _ in seq]
    ok = got_tags == want and all(p == "self.parent_node" for _, p in seq)
    ctx.check(ok, "C01.R1", "DfBase._init_io_nodes: Input first, Output second", df.module.path, io.lineno,
              f"a dataflow container's first two children must be {want} (hugr-core validity flags); the builder creates {got_tags}", io,
              expected=str(want), found=str(got_tags), detail=str(seq))
    for name in ("__init__", "new_nested"):
        fn = df.methods.get(name)
        body = real_body(fn)
        idx_io = [i for i, s in enumerate(body) if "_init_io_nodes(" in u(s)]
        idx_parent = [i for i, s in enumerate(body) if ("Hugr(parent_op)" in u(s) or "hugr.add_node(parent_op" in u(s))]
        others = [i for i, s in enumerate(body) if any(call_name(c) in ("add_node", "add_op", "new_nested") for c in calls_in(s)) and i not in idx_parent and i not in idx_io]
        ok = len(idx_io) == 1 and len(idx_parent) == 1 and idx_parent[0] < idx_io[0] and not [o for o in others if o < idx_io[0]]
        ctx.check(ok, "C01.R1", f"DfBase.{name}: io nodes are the first children", df.module.path, fn.lineno,
                  "Input and Output must be created right after the container node, before any other child", fn)
    # ---- R1b: CFG: entry block first, exit second
    cfg = prog.cls("hugr.build.cfg.Cfg")
    ii = cfg.methods.get("_init_impl")
    body = real_body(ii)
    creators = []
    for i, s in enumerate(body):
        for c in calls_in(s):
            if call_name(c) == "new_nested" and u(c.func.value) == "Block":
                creators.append((i, op_class(prog, cfg.module, ii, c.args[0], cfg), u(kwarg(c, "parent", 2))))
            if call_name(c) == "add_node":
                creators.append((i, op_class(prog, cfg.module, ii, c.args[0], cfg), u(kwarg(c, "parent", 1))))
    creators.sort()
    got_tags = [rust.tags.get(PY2RUST.get(o or "", ""), "?") for _, o, _ in creators]
    want = [rust.flags["CFG"]["allowed_first_child"], rust.flags["CFG"]["allowed_second_child"]]
    ok = got_tags == want and all(p in ("root", "self.parent_node") for _, _, p in creators)
    ctx.check(ok, "C01.R1", "Cfg._init_impl: entry block first, exit block second", cfg.module.path, ii.lineno,
              f"a CFG's first two children must be {want}; the builder creates {got_tags}", ii, expected=str(want), found=str(got_tags))
    # entry block input row = the CFG's input row
    for name in ("__init__", "new_nested"):
        fn = cfg.methods.get(name)
        cfgop = [c for c in calls_in(fn) if u(c.func) == "ops.CFG"]
        init = [c for c in calls_in(fn) if call_name(c) == "_init_impl"]
        ok = len(cfgop) == 1 and len(init) == 1 and u(kwarg(cfgop[0], "inputs", 0)) == u(init[0].args[2])
        ctx.check(ok, "C01.R3", f"Cfg.{name}: entry block takes the CFG's input row", cfg.module.path, fn.lineno,
                  "the entry block's inputs must be the CFG's inputs", fn)
    eb = [c for c in calls_in(ii) if u(c.func) == "ops.DataflowBlock"]
    ctx.check(len(eb) == 1 and u(eb[0].args[0]) == ii.args.args[3].arg, "C01.R3", "Cfg._init_impl: entry block inputs", cfg.module.path, ii.lineno, "", ii)
    # ---- R1c: Conditional: one Case per variant, in index order, with variant i's row
    cond = prog.cls("hugr.build.cond_loop.Conditional")
    ii = cond.methods.get("_init_impl")
    loops = [n for n in real_body(ii) if isinstance(n, ast.For)]
    ok = len(loops) == 1 and u(loops[0].iter) == f"range({ii.args.args[3].arg})"
    if ok:
        lp = loops[0]
        v = u(lp.target)
        nn = [c for c in calls_in(lp) if call_name(c) == "new_nested" and u(c.func.value) == "Case"]
        ok = len(nn) == 1 and u(nn[0].args[0]) == f"ops.Case(self.parent_op.nth_inputs({v}))" and u(nn[0].args[2]) == "self.parent_node" \
            and any("self._case_builders.append((new_case, False))" in u(s) for s in lp.body) and not any(isinstance(x, (ast.If, ast.Continue, ast.Break)) for x in ast.walk(lp))
    ctx.check(ok, "C01.R1", "Conditional._init_impl: one Case per variant in index order", cond.module.path, ii.lineno,
              "case i must be the i-th child and receive variant i followed by the other inputs (parent_op.nth_inputs(i))", ii)
    for name in ("__init__", "new_nested"):
        fn = cond.methods.get(name)
        init = [c for c in calls_in(fn) if call_name(c) == "_init_impl"]
        ok = len(init) == 1 and u(init[0].args[2]) == "len(sum_ty.variant_rows)" and any(u(c.func) == "ops.Conditional" and [u(a) for a in c.args] == ["sum_ty", "other_inputs"] for c in calls_in(fn))
        ctx.check(ok, "C01.R1", f"Conditional.{name}: as many cases as variants", cond.module.path, fn.lineno, "", fn)
    ctx.check(rust.flags["Conditional"]["allowed_children"] == "Case", "C01.R1", "oracle: Conditional children are Cases", ctx.root / "hugr-core/src/ops/validate.rs", 1, "")
    # ---- R2: permitted parent/child pairs at every creation site
    sites = creation_sites(prog)
    unresolved = 0
    for m, c, fn, call, op, parent in sites:
        where = f"{m.name.split('.', 1)[1]}.{c.name + '.' if c else ''}{fn.name}"
        if op is None:
            unresolved += 1
            ctx.note(f"C01.R2 unresolved operation at {where}:{call.lineno} `{u(call)[:60]}`")
            continue
        ptxt = u(parent) if parent is not None else "<root>"
        pcls = None
        if ptxt in ("self.parent_node",):
            pcls = builder_parent_class(c)
        elif ptxt in ("self.hugr.root", "<root>", "hugr.root", "parent or hugr.root", "parent or self.hugr.root", "parent_node", "root", "parent"):
            if c is not None and c.name == "Module":
                pcls = "Module"
        child_tags = []
        if op == "<DfParentOp>":
            child_tags = [rust.tags[p] for p in sorted(rust.dataflow_parents)]
        else:
            r = PY2RUST.get(op)
            if r is None or r not in rust.tags:
                if op in ("DataflowOp",):
                    child_tags = ["DataflowChild"]
                else:
                    unresolved += 1
                    continue
            else:
                child_tags = [rust.tags[r]]
        if op == "<DfParentOp>" or pcls is None:
            # the parent is whatever the caller passes: it must at least be legal under *some* container and under every container this builder can be
            legal_somewhere = all(any(rust.is_superset(f["allowed_children"], t) for f in rust.flags.values()) for t in child_tags)
            ctx.check(legal_somewhere, "C01.R2", f"{where}: {op} (parent given by caller)", m.path, call.lineno,
                      f"{op} (tag {child_tags}) is a legal child of no container", call, detail=f"{child_tags} under caller-supplied parent")
            continue
        parents = sorted(rust.dataflow_parents) if pcls == "<DfParentOp>" else [PY2RUST.get(pcls, pcls)]
        bad = [(p, t) for p in parents for t in child_tags if p in rust.flags and not rust.is_superset(rust.flags[p]["allowed_children"], t)]
        ctx.check(not bad, "C01.R2", f"{where}: {op} under {pcls}", m.path, call.lineno,
                  f"{op} (tag {child_tags}) is created as a child of {pcls}, whose allowed children are {[rust.flags[p]['allowed_children'] for p in parents if p in rust.flags]} "
                  "(hugr-core/src/ops/validate.rs): the validator rejects this parent/child pair", call, detail=f"{child_tags} under {parents}")
    ctx.stats["C01.R2 creation sites / unresolved"] = [len(sites), unresolved]
    # add_op takes a DataflowOp, load/call create LoadConst / Call under the dataflow parent
    ao = df.methods["add_op"]
    ann = u(ao.args.posonlyargs[1].annotation) if len(ao.args.posonlyargs) > 1 else (u(ao.args.args[1].annotation) if len(ao.args.args) > 1 else "")
    ctx.check(ann == "ops.DataflowOp", "C01.R2", "DfBase.add_op: only dataflow operations", df.module.path, ao.lineno,
              "add_op places its operation inside a dataflow region: it must be typed as a DataflowOp", ao, found=ann)


def r3_rows(ctx) -> None:
    prog = ctx.program
    nf = NF(prog)
    df = prog.cls("hugr.build.dfg.DfBase")
    io = df.methods["_init_io_nodes"]
    src = u(io)
    ok = "inputs = parent_op._inputs()" in src and "ops.Input(inputs), self.parent_node, len(inputs)" in src
    ctx.check(ok, "C01.R3", "DfBase._init_io_nodes: Input row = the container's inputs", df.module.path, io.lineno,
              "the Input node's row (and port count) must be the container op's _inputs()", io)
    so = df.methods["set_outputs"]
    body = [u(s) for s in real_body(so)]
    ok = body == ["self._wire_up(self.output_node, args)", "self.parent_op._set_out_types(self._output_op().types)"]
    ctx.check(ok, "C01.R3", "DfBase.set_outputs: Output row propagated into the container", df.module.path, so.lineno,
              "set_outputs must wire the Output node and then give the container op exactly the Output node's row", so, found="; ".join(body))
    # every override reaches the base implementation on every path with all its wires
    for q in ("hugr.build.dfg.Dfg", "hugr.build.cfg.Block", "hugr.build.cond_loop.TailLoop", "hugr.build.cond_loop.Case", "hugr.build.dfg.Function"):
        c = prog.cls(q)
        m = c.methods.get("set_outputs")
        if m is None:
            ctx.broken(f"anchor vanished: {q}.set_outputs")
        g = CFG(real_body(m))
        sup = g.where(lambda s: any(call_name(x) == "set_outputs" and isinstance(x.func.value, ast.Call) and u(x.func.value.func) == "super" for x in calls_in(s)))
        va = m.args.vararg.arg if m.args.vararg else None
        ok = len(sup) == 1 and EXIT not in g.reachable(0, avoid=set(sup))
        if ok:
            call = [x for x in calls_in(g.stmt[sup[0]]) if call_name(x) == "set_outputs"][0]
            ok = len(call.args) == 1 and isinstance(call.args[0], ast.Starred) and u(call.args[0].value) == va
        ctx.check(ok, "C01.R3", f"{c.name}.set_outputs: base wiring on every path", c.module.path, m.lineno,
                  f"{c.name}.set_outputs must call super().set_outputs(*{va}) on every non-raising path: otherwise the Output node is not wired or the "
                  "container never learns its output row", m)
    # container output counts agree with the op's output count (C06 table)
    counts = {
        "hugr.build.dfg.Dfg": "len(outputs)",
        "hugr.build.cfg.Block": "len(branch_type.variant_rows)",
        "hugr.build.cond_loop.TailLoop": "len(sum_type.variant_rows[1]) + len(outputs) - 1",
    }
    for q, expr in counts.items():
        c = prog.cls(q)
        m = c.methods["set_outputs"]
        cc = [x for x in calls_in(m) if call_name(x) == "_set_parent_output_count"]
        ok = len(cc) == 1 and u(cc[0].args[0]) == expr
        ctx.check(ok, "C01.R3", f"{c.name}.set_outputs: container output count", c.module.path, m.lineno,
                  f"the container's output count must be {expr} (the length of its signature's output row)", m, found=u(cc[0].args[0]) if cc else "")
    for q, var, port in (("hugr.build.cfg.Block", "branch_type", "branching"), ("hugr.build.cond_loop.TailLoop", "sum_type", "sum_wire")):
        c = prog.cls(q)
        m = c.methods["set_outputs"]
        src = u(m)
        ok = f"{port} = outputs[0]" in src and f"{var} = self.hugr.port_type({port}.out_port())" in src
        ctx.check(ok, "C01.R3", f"{c.name}.set_outputs: branch sum is the first output", c.module.path, m.lineno, "", m)
    case = prog.cls("hugr.build.cond_loop.Case").methods["set_outputs"]
    ok = "self._parent_cond._update_outputs(self._wire_types(outputs))" in u(case)
    ctx.check(ok, "C01.R3", "Case.set_outputs: conditional learns the case's output row", prog.cls("hugr.build.cond_loop.Case").module.path, case.lineno, "", case)
    cond = prog.cls("hugr.build.cond_loop.Conditional")
    uo = cond.methods["_update_outputs"]
    src = u(uo)
    ok = "self.parent_op._outputs = outputs" in src and "self.parent_node = self.hugr._update_node_outs(self.parent_node, len(outputs))" in src
    ctx.check(ok, "C01.R3", "Conditional._update_outputs: row and count set together", cond.module.path, uo.lineno, "", uo)
    cfg = prog.cls("hugr.build.cfg.Cfg")
    be = cfg.methods["branch_exit"]
    g = CFG(real_body(be))
    a = g.where(lambda s: isinstance(s, ast.Assign) and u(s.targets[0]) == "self._exit_op._cfg_outputs")
    b = g.where(lambda s: isinstance(s, ast.Assign) and u(s.targets[0]) == "self.parent_op._outputs")
    cnt = g.where(lambda s: "_update_node_outs(self.parent_node, len(out_types))" in u(s))
    ok = len(a) == 1 and len(b) == 1 and len(cnt) == 1 and u(g.stmt[a[0]].value) == u(g.stmt[b[0]].value) == "out_types" \
        and EXIT not in g.reachable(a[0], avoid={b[0]}) and EXIT not in g.reachable(a[0], avoid={cnt[0]}) and a[0] not in g.reachable(b[0])
    ctx.check(ok, "C01.R3", "Cfg.branch_exit: exit row, CFG output row and count set together", cfg.module.path, be.lineno,
              "the first exit branch must give the same row to the exit block and to the CFG op, and update the CFG's output count, on the same path", be)
    ok = "out_types = self._nth_outputs(src)" in u(be) and "self.hugr.add_link(src, self.exit.inp(0))" in u(be)
    ctx.check(ok, "C01.R3", "Cfg.branch_exit: exit row = the branch's successor row", cfg.module.path, be.lineno, "", be)
    nth = cfg.methods["_nth_outputs"]
    ok = "block.nth_outputs(port.offset)" in u(nth) and "self.hugr._get_typed_op(port.node, ops.DataflowBlock)" in u(nth)
    ctx.check(ok, "C01.R3", "Cfg._nth_outputs: successor i receives variant i + other outputs", cfg.module.path, nth.lineno, "", nth)
    asu = cfg.methods["add_successor"]
    ok = "self.add_block(*self._nth_outputs(pred))" in u(asu) and "self.branch(pred, b)" in u(asu)
    ctx.check(ok, "C01.R3", "Cfg.add_successor: block inputs = predecessor's successor row", cfg.module.path, asu.lineno, "", asu)
    br = cfg.methods["branch"]
    ok = "self.hugr.add_link(src, dst.inp(0))" in u(br) and "return self.branch_exit(src)" in u(br)
    ctx.check(ok, "C01.R3", "Cfg.branch: control edges enter a block at port 0", cfg.module.path, br.lineno, "", br)
    # op-side setters
    ops = prog.module("hugr.ops")
    setters = {
        "DFG": ["self._outputs = types"], "Case": ["self._outputs = types"], "FuncDefn": ["self._outputs = types"],
        "DataflowBlock": ["sum_, other = tys.get_first_sum(types)", "self._sum = sum_", "self._other_outputs = other"],
        "Output": None, "TailLoop": None,
    }
    for cname, want in setters.items():
        c = ops.classes[cname]
        if cname == "Output":
            m = c.methods["_set_in_types"]
            ok = [u(s) for s in real_body(m)] == ["self._types = types"]
        elif cname == "TailLoop":
            m = c.methods["_set_out_types"]
            src = u(m)
            ok = "sum_, other = tys.get_first_sum(types)" in src and "just_ins, just_outs = sum_.variant_rows" in src and "self._just_outputs = just_outs" in src \
                and "just_ins == self.just_inputs" in src
        else:
            m = c.methods["_set_out_types"]
            ok = [u(s) for s in real_body(m)] == want
        ctx.check(ok, "C01.R3", f"hugr.ops.{cname}: row setter", ops.path, m.lineno, f"{cname} must record the row it is given in its signature fields", m)
    gfs = prog.module("hugr.tys").functions["get_first_sum"]
    ok = "sum_, *other = types" in u(gfs) and "return (sum_, other)" in u(gfs) and "isinstance(sum_, Sum)" in u(gfs)
    ctx.check(ok, "C01.R3", "hugr.tys.get_first_sum", prog.module("hugr.tys").path, gfs.lineno, "", gfs)
    # _wire_up: port i gets wire i; partial ops learn their input row; port counts from the signature
    wu = df.methods["_wire_up"]
    src = u(wu)
    ok = "[self._wire_up_port(node, i, p) for i, p in enumerate(ports)]" in src and "op._set_in_types(tys)" in src \
        and "self.hugr._update_port_count(node, num_inps=len(sig.input), num_outs=len(sig.output))" in src and "sig = op.outer_signature()" in src
    ctx.check(ok, "C01.R3", "DfBase._wire_up: wires in port order, partial ops completed, counts from the signature", df.module.path, wu.lineno, "", wu)
    dc = prog.cls("hugr.build.dfg.Function").methods["declare_outputs"]
    ok = "self._set_parent_output_count(len(output_types))" in u(dc) and "self.parent_op._set_out_types(output_types)" in u(dc)
    ctx.check(ok, "C01.R3", "Function.declare_outputs", df.module.path, dc.lineno, "", dc)
    # nested containers take their input rows from the wires they are given
    for name, frag in (("add_nested", "ops.DFG(self._wire_types(args))"), ("add_cfg", "Cfg.new_nested(self._wire_types(args), self.hugr, self.parent_node)"),
                       ("add_tail_loop", "ops.TailLoop(just_input_types, rest_types)"), ("add_conditional", "tys.get_first_sum(self._wire_types(args))")):
        m = df.methods[name]
        ctx.check(frag in u(m) and "self._wire_up(" in u(m), "C01.R3", f"DfBase.{name}: container inputs = types of the given wires, then wired", df.module.path, m.lineno, "", m)


def r4_order_edges(ctx) -> None:
    prog = ctx.program
    df = prog.cls("hugr.build.dfg.DfBase")
    m = df.methods["_wire_up_port"]
    g = CFG(real_body(m))
    links = g.where(lambda s: "self.hugr.add_link(" in u(s))
    orders = g.where(lambda s: "add_state_order(" in u(s) or "add_order_link(" in u(s))
    tests = [n for n, s in g.stmt.items() if g.kind.get(n) == "test" and u(s) in ("node_ancestor != node", "node != node_ancestor")]
    ok = len(links) == 1 and len(orders) == 1 and len(tests) == 1
    if ok:
        t = tests[0]
        tsucc = [x for x in g.succ[t] if g.label.get((t, x)) == "T"][0]
        # from the non-local branch every path to the link passes the order edge
        ok = links[0] not in g.reachable(tsucc, avoid={orders[0]}) or tsucc == orders[0]
        ok = ok and orders[0] in g.reachable(tsucc)
        oc = [c for c in calls_in(g.stmt[orders[0]]) if call_name(c) in ("add_state_order", "add_order_link")][0]
        ok = ok and [u(a) for a in oc.args] == ["src.node", "node_ancestor"]
    ctx.check(ok, "C01.R4", "DfBase._wire_up_port: order edge accompanies every non-local value edge", df.module.path, m.lineno,
              "when the source is not a sibling of the target (node_ancestor != node) a state-order edge from the source node to the target's "
              "ancestor must be added before the value edge", m)
    anc = [s for s in real_body(m) if isinstance(s, ast.Assign) and u(s.targets[0]) == "node_ancestor"]
    ok = len(anc) == 1 and u(anc[0].value) == "_ancestral_sibling(self.hugr, src.node, node)"
    ctx.check(ok, "C01.R4", "DfBase._wire_up_port: ancestor = sibling-ancestor of the target", df.module.path, m.lineno, "", m)
    ok = len(links) == 1 and "add_link(src, node.inp(offset))" in u(g.stmt[links[0]])
    ctx.check(ok, "C01.R4", "DfBase._wire_up_port: value edge to the requested port", df.module.path, m.lineno, "", m)
    aso = df.methods["add_state_order"]
    ok = u(real_body(aso)[-1]) == "self.hugr.add_order_link(src, dst)"
    ctx.check(ok, "C01.R4", "DfBase.add_state_order", df.module.path, aso.lineno, "", aso)
    # Block: the only link without an order edge is the dominator-edge fallback
    blk = prog.cls("hugr.build.cfg.Block").methods["_wire_up_port"]
    ok = "super()._wire_up_port(node, offset, p)" in u(blk)
    ctx.check(ok, "C01.R4", "Block._wire_up_port: ordinary wiring first", prog.cls("hugr.build.cfg.Block").module.path, blk.lineno, "", blk)
    # _ancestral_sibling returns the ancestor of tgt whose parent is src's parent
    fn = prog.module("hugr.build.dfg").functions.get("_ancestral_sibling")
    src = u(fn)
    ok = "src_parent = h[src].parent" in src and "if tgt_parent == src_parent:\n            return tgt" in src.replace("\n    ", "\n    ") or ("tgt_parent == src_parent" in src and "return tgt" in src)
    ok = ok and "tgt = tgt_parent" in src and "(tgt_parent := h[tgt].parent) is not None" in src
    ctx.check(ok, "C01.R4", "_ancestral_sibling: climbs from the target until the parent is the source's parent", prog.module("hugr.build.dfg").path, fn.lineno, "", fn)


def r6_function_boundary(ctx, rule="C01.R6") -> None:
    m = ctx.program.module("hugr.build.dfg")
    fn = m.functions.get("_ancestral_sibling")
    if fn is None:
        ctx.broken("anchor vanished: _ancestral_sibling")
    loops = [n for n in ast.walk(fn) if isinstance(n, ast.While)]
    if len(loops) != 1:
        ctx.broken("_ancestral_sibling: climbing loop not found")
    lp = loops[0]
    climb = [i for i, s in enumerate(lp.body) if isinstance(s, ast.Assign) and u(s.targets[0]) == "tgt"]
    guards = [i for i, s in enumerate(lp.body) if isinstance(s, ast.If) and "FuncDefn" in u(s.test) and "isinstance(" in u(s.test) and ".op" in u(s.test)
              and any(isinstance(x, ast.Return) and u(x.value) == "None" for x in s.body)]
    sib = [i for i, s in enumerate(lp.body) if isinstance(s, ast.If) and "src_parent" in u(s.test) and any(isinstance(x, ast.Return) and u(x.value) == "tgt" for x in s.body)]
    ok = len(climb) == 1 and len(guards) == 1 and len(sib) == 1 and sib[0] < guards[0] < climb[0]
    if ok:
        g = lp.body[guards[0]]
        ok = "tgt_parent" in u(g.test)      # the node being climbed *past* is the function
    ctx.check(ok, rule, "_ancestral_sibling: the search does not leave a function definition", m.path, lp.lineno,
              "the ancestor walk climbs through a FuncDefn: a value wire from outside a function into its body is accepted and an order edge is added "
              "to the function node, but the validator forbids value edges into a function body (ValueEdgeIntoFunc). The walk must stop "
              "(return None -> NoSiblingAncestor) when the parent it would climb past is a FuncDefn", lp,
              detail="sibling test, then function-boundary test, then climb")


def run(ctx) -> None:
    ctx.rule("C01.R1", "mandated child positions: Input/Output, entry/exit block, one Case per variant in order (oracle: validity flags in validate.rs)", floor=8)
    ctx.rule("C01.R2", "every node-creating call in the builders pairs an operation with a parent whose allowed-children tag admits it (oracle: tag.rs / validate.rs)", floor=12)
    ctx.rule("C01.R3", "rows and output counts are propagated from the wires / child Output into the container op on every path", floor=30)
    ctx.rule("C01.R4", "every non-local value wire is accompanied by a state-order edge from the source node to the target's ancestor", floor=6)
    ctx.rule("C01.R5", "the order port is addressed from the operation's signature (shared with C03.R5)", floor=1)
    ctx.rule("C01.R6", "the ancestor walk for non-local wires stops at a function boundary", floor=1)
    rust = RustOps(ctx.root)
    ctx.stats["rust tags / supersets / flags scanned"] = [len(rust.tags), len(rust.supersets), len(rust.flags)]
    r1_r2_structure(ctx, rust)
    r3_rows(ctx)
    r4_order_edges(ctx)
    r5_order_offset(ctx, rule="C01.R5")
    r6_function_boundary(ctx)
    # rules shared with the properties that own these mechanisms (a defect there yields an invalid HUGR without any builder call raising)
    ctx.rule("C01.R7", "tracked builder: node built from the currently tracked wires and indices rebound to the argument's own output position (shared with C15.R2/R3)", floor=4)
    from .c15 import tracked_add_rules
    tracked_add_rules(ctx, R2="C01.R7", R3="C01.R7")
    ctx.rule("C01.R8", "insert_* wrappers wire in the order of their add_* twins (shared with C08.R5)", floor=5)
    from .c08 import insert_wrappers
    insert_wrappers(ctx, R5="C01.R8")
    ctx.rule("C01.R9", "add_order_link joins out(-1) to inp(-1) unless exactly that link exists (shared with C04.R6)", floor=1)
    from .c04 import order_link_rule
    order_link_rule(ctx, "C01.R9")
    from .. import lints
    lints.arm(ctx)



# ---------------------------------------------------------------------------------------
D = "hugr-py/src/hugr/build/dfg.py"
CF = "hugr-py/src/hugr/build/cfg.py"
CL = "hugr-py/src/hugr/build/cond_loop.py"
FN = "hugr-py/src/hugr/build/function.py"
O = "hugr-py/src/hugr/ops.py"
B = "hugr-py/src/hugr/hugr/base.py"
MUTANTS = [
    dict(name="output-before-input", file=D, expect="C01.R1",
         old="        self.input_node = self.hugr.add_node(\n            ops.Input(inputs), self.parent_node, len(inputs)\n        )\n        self.output_node = self.hugr.add_node(ops.Output(), self.parent_node)",
         new="        self.output_node = self.hugr.add_node(ops.Output(), self.parent_node)\n        self.input_node = self.hugr.add_node(\n            ops.Input(inputs), self.parent_node, len(inputs)\n        )"),
    dict(name="exit-before-entry", file=CF, expect="C01.R1",
         old="        self._entry_block = Block.new_nested(ops.DataflowBlock(input_types), hugr, root)\n\n        self.exit = self.hugr.add_node(ops.ExitBlock(), self.parent_node)",
         new="        self.exit = self.hugr.add_node(ops.ExitBlock(), self.parent_node)\n        self._entry_block = Block.new_nested(ops.DataflowBlock(input_types), hugr, root)"),
    dict(name="cases-reversed", file=CL, expect="C01.R1", old="        for case_id in range(n_cases):", new="        for case_id in reversed(range(n_cases)):"),
    dict(name="case-inputs-without-variant", file=CL, expect="C01.R1", old="                ops.Case(self.parent_op.nth_inputs(case_id)),", new="                ops.Case(self.parent_op.other_inputs),"),
    dict(name="one-case-too-few", file=CL, expect="C01.R1", old="        new._init_impl(hugr, root, len(sum_ty.variant_rows))", new="        new._init_impl(hugr, root, len(sum_ty.variant_rows) - 1)"),
    dict(name="alias-decl-under-dfg", file=D, expect="C01.R2", old="        return self.hugr.add_node(ops.AliasDefn(name, ty), parent_node)", new="        return self.hugr.add_node(ops.Module(), parent_node)"),
    dict(name="exit-block-under-dataflow", file=D, expect="C01.R2", old="        self.output_node = self.hugr.add_node(ops.Output(), self.parent_node)", new="        self.output_node = self.hugr.add_node(ops.Output(), self.parent_node)\n        self.hugr.add_node(ops.ExitBlock(), self.parent_node)"),
    dict(name="case-under-cfg", file=CF, expect=["C01.R2", "C01.R1"], old="        self.exit = self.hugr.add_node(ops.ExitBlock(), self.parent_node)", new="        self.exit = self.hugr.add_node(ops.Case([]), self.parent_node)"),
    dict(name="input-row-empty", file=D, expect="C01.R3", old="            ops.Input(inputs), self.parent_node, len(inputs)", new="            ops.Input([]), self.parent_node, len(inputs)"),
    dict(name="container-row-not-set", file=D, expect="C01.R3", old="        self._wire_up(self.output_node, args)\n        self.parent_op._set_out_types(self._output_op().types)", new="        self._wire_up(self.output_node, args)"),
    dict(name="block-skips-base", file=CF, expect="C01.R3", old="    def set_outputs(self, *outputs: Wire) -> None:\n        super().set_outputs(*outputs)\n\n        assert len(outputs) > 0\n        branching = outputs[0]", new="    def set_outputs(self, *outputs: Wire) -> None:\n        assert len(outputs) > 0\n        branching = outputs[0]"),
    dict(name="block-count-wrong", file=CF, expect="C01.R3", old="        self._set_parent_output_count(len(branch_type.variant_rows))", new="        self._set_parent_output_count(len(outputs))"),
    dict(name="tailloop-count-wrong", file=CL, expect="C01.R3", old="        self._set_parent_output_count(len(sum_type.variant_rows[1]) + len(outputs) - 1)", new="        self._set_parent_output_count(len(sum_type.variant_rows[0]) + len(outputs) - 1)"),
    dict(name="exit-row-only-on-exit-op", file=CF, expect="C01.R3", old="            self._exit_op._cfg_outputs = out_types\n            self.parent_op._outputs = out_types\n", new="            self._exit_op._cfg_outputs = out_types\n"),
    dict(name="successor-gets-all-outputs", file=CF, expect="C01.R3", old="        b = self.add_block(*self._nth_outputs(pred))", new="        b = self.add_block(*self._entry_op.inputs)"),
    dict(name="block-setter-crossed", file=O, expect="C01.R3", old="        (sum_, other) = tys.get_first_sum(types)\n        self._sum = sum_\n        self._other_outputs = other", new="        (sum_, other) = tys.get_first_sum(types)\n        self._sum = sum_\n        self._other_outputs = types"),
    dict(name="wires-misaligned", file=D, expect="C01.R3", old="        tys = [self._wire_up_port(node, i, p) for i, p in enumerate(ports)]", new="        tys = [self._wire_up_port(node, i + 1, p) for i, p in enumerate(ports)]"),
    dict(name="nested-dfg-wrong-inputs", file=D, expect="C01.R3", old="        parent_op = ops.DFG(self._wire_types(args))", new="        parent_op = ops.DFG(self._input_op().types)"),
    dict(name="no-order-edge", file=D, expect="C01.R4", old="        if node_ancestor != node:\n            self.add_state_order(src.node, node_ancestor)\n", new=""),
    dict(name="order-edge-to-target", file=D, expect="C01.R4", old="            self.add_state_order(src.node, node_ancestor)", new="            self.add_state_order(src.node, node)"),
    dict(name="order-edge-reversed", file=D, expect="C01.R4", old="            self.add_state_order(src.node, node_ancestor)", new="            self.add_state_order(node_ancestor, src.node)"),
    dict(name="order-offset-from-counters", file=B, expect="C01.R5", old="            order_offset = self._order_port_offset(p.node, p.direction)\n            if order_offset is None:", new="            order_offset = None\n            if order_offset is None:"),
    dict(name="function-boundary-ignored", file=D, expect="C01.R6", old="        if isinstance(h[tgt_parent].op, ops.FuncDefn):\n            return None\n", new=""),
    dict(name="function-boundary-too-early", file=D, expect=["C01.R6", "C01.R4"], old="        if tgt_parent == src_parent:\n            return tgt\n        if isinstance(h[tgt_parent].op, ops.FuncDefn):\n            return None\n", new="        if isinstance(h[tgt_parent].op, ops.FuncDefn):\n            return None\n        if tgt_parent == src_parent:\n            return tgt\n"),
]
TWINS = []


def thorough(ctx):
    from ..selftest import run_battery
    return run_battery(ctx, MUTANTS, TWINS)
