"""C01 -- builder-constructed HUGRs satisfy the specification's validity rules.

Decided: necessary conditions of validity that live in the builders' code shape:
R1 mandated child positions; R2 permitted parent/child pairs (oracle: hugr-core/src/ops/{tag,validate}.rs);
R3 row / count propagation from the child Output into the container; R4 order edge for non-local wires;
R5 order-port addressing (= C03.R5); R6 no value edge into a function body.
Not decided: acyclicity, dominance, linearity, type equality at both ends of an edge (facts about the user's program).
"""
from __future__ import annotations

import ast

from ..cfg import CFG, EXIT, RAISE
from ..model import Class, calls_in, call_name, kwarg, real_body, u, walk_no_nested
from ..nf import NF, Env, Opaque, attr, show, sym
from ..rust import PY2RUST, RustOps
from .c03 import r5_order_offset
from ..rulekit import need, returns
import functools as _ft
from ..rulekit import need_any as _need_any
# (statements that must run whenever the method gets past its refusals: a guard put around one of them is a violation)
need_a = _ft.partial(need, always=True)
need_any_a = _ft.partial(_need_any, always=True)
from ..tmpl import T, tall, thas, tmatch
from ..paths import summaries

BUILD = ("hugr.build.dfg", "hugr.build.cfg", "hugr.build.cond_loop", "hugr.build.function", "hugr.build.tracked_dfg")


def op_class(prog, mod, fn, e, cls: Class | None):
    """class name of the operation an expression denotes: ops.X(...) / a local assigned from it / an annotated parameter"""
    seen = 0
    while isinstance(e, ast.Name) and seen < 4:
        seen += 1
        a = [s.value for s in ast.walk(fn) if isinstance(s, ast.Assign) and isinstance(s.targets[0], ast.Name) and s.targets[0].id == e.id]
        if len(a) == 1:
            e = a[0]
            continue
        for p in fn.args.args + fn.args.kwonlyargs:
            if p.arg == e.id and p.annotation is not None:
                ann = u(p.annotation)
                if ann.startswith("ops."):
                    return ann[4:]
                if ann in ("DP",):
                    return "<DfParentOp>"
        break
    if isinstance(e, ast.Call) and u(e.func).startswith("ops."):
        return u(e.func)[4:]
    return None


def builder_parent_class(cls: Class | None) -> str | None:
    """the operation class of a builder's own parent node, from its generic base (DfBase[ops.DFG], ParentBuilder[ops.CFG], ...)"""
    if cls is None:
        return None
    for k in cls.mro:
        for b in k.node.bases:
            if isinstance(b, ast.Subscript) and u(b.value) in ("DfBase", "ParentBuilder", "DefinitionBuilder"):
                s = u(b.slice)
                if s.startswith("ops."):
                    return s[4:]
                if s == "DP":
                    return "<DfParentOp>"
    return None


def creation_sites(prog):
    """every node-creating call in hugr/build: (module, class, function, call, op class, parent expr)"""
    out = []
    for mn in BUILD:
        m = prog.module(mn)
        for c in list(m.classes.values()) + [None]:
            fns = c.methods.values() if c else m.functions.values()
            for fn in fns:
                for call in calls_in(fn):
                    nm = call_name(call)
                    if nm in ("add_node", "_add_node") and call.args:
                        out.append((m, c, fn, call, op_class(prog, m, fn, call.args[0], c), kwarg(call, "parent", 1)))
                    elif nm == "new_nested" and isinstance(call.func, ast.Attribute):
                        k = u(call.func.value)
                        if k in ("Cfg",):
                            out.append((m, c, fn, call, "CFG", kwarg(call, "parent", 2)))
                        elif k in ("Conditional",):
                            out.append((m, c, fn, call, "Conditional", kwarg(call, "parent", 3)))
                        elif call.args:
                            out.append((m, c, fn, call, op_class(prog, m, fn, call.args[0], c), kwarg(call, "parent", 2)))
                    elif nm == "add_const" and isinstance(call.func, ast.Attribute) and u(call.func.value) in ("self", "self.hugr") and fn.name != "add_const":
                        out.append((m, c, fn, call, "Const", kwarg(call, "parent", 1)))
    return out


def r1_r2_structure(ctx, rust: RustOps) -> None:
    prog = ctx.program
    DFP = rust.flags[next(iter(rust.dataflow_parents))]
    # ---- R1a: dataflow containers: Input first, Output second   (all on canonical bodies: hv/canon.py)
    df = prog.cls("hugr.build.dfg.DfBase")
    io = ctx.cfn(f"{DF}._init_io_nodes")
    calls = sorted([c for c in calls_in(io) if call_name(c) == "add_node"], key=lambda c: (c.lineno, c.col_offset))
    order = [c for s_ in io.body for c in calls_in(s_) if call_name(c) == "add_node"]
    seq = [(op_class(prog, df.module, io, kwarg(c, "op", 0), df), u(kwarg(c, "parent", 1))) for c in order]
    want = [DFP["allowed_first_child"], DFP["allowed_second_child"]]
    got_tags = [rust.tags.get(PY2RUST.get(o or "", ""), "?") for o, _ in seq]
    ok = got_tags == want and all(p == "self.parent_node" for _, p in seq)
    ctx.check(ok, "C01.R1", "DfBase._init_io_nodes: Input first, Output second", df.module.path, io.lineno,
              f"a dataflow container's first two children must be {want} (hugr-core validity flags); the builder creates {got_tags}", io,
              expected=str(want), found=str(got_tags), detail=str(seq))
    for name in ("__init__", "new_nested"):
        fn = ctx.cfn(f"{DF}.{name}")
        body = fn.body
        idx_io = [i for i, s_ in enumerate(body) if any(call_name(c) == "_init_io_nodes" for c in calls_in(s_))]
        idx_parent = [i for i, s_ in enumerate(body) if thas(s_, "Hugr(L_op)") or thas(s_, "L_h.add_node(L_op, E_parent)")]
        others = [i for i, s_ in enumerate(body) if any(call_name(c) in ("add_node", "add_op", "new_nested", "_add_node") for c in calls_in(s_)) and i not in idx_parent and i not in idx_io]
        ok = len(idx_io) == 1 and len(idx_parent) == 1 and idx_parent[0] < idx_io[0] and not [o for o in others if o < idx_io[0]]
        ctx.check(ok, "C01.R1", f"DfBase.{name}: io nodes are the first children", df.module.path, fn.lineno,
                  "Input and Output must be created right after the container node, before any other child", fn)
    # ---- R1b: CFG: entry block first, exit second
    cfg = prog.cls("hugr.build.cfg.Cfg")
    ii = ctx.cfn(f"{CFGQ}._init_impl")
    iparams = [a.arg for a in ii.args.args]
    creators = []
    for i, s_ in enumerate(ii.body):
        for c in calls_in(s_):
            if call_name(c) == "new_nested" and u(c.func.value) == "Block":
                creators.append((i, op_class(prog, cfg.module, ii, kwarg(c, "parent_op", 0), cfg), u(kwarg(c, "parent", 2))))
            if call_name(c) == "add_node":
                creators.append((i, op_class(prog, cfg.module, ii, kwarg(c, "op", 0), cfg), u(kwarg(c, "parent", 1))))
    creators.sort()
    got_tags = [rust.tags.get(PY2RUST.get(o or "", ""), "?") for _, o, _ in creators]
    want = [rust.flags["CFG"]["allowed_first_child"], rust.flags["CFG"]["allowed_second_child"]]
    ok = got_tags == want and all(p in (iparams[2], "self.parent_node") for _, _, p in creators)
    ctx.check(ok, "C01.R1", "Cfg._init_impl: entry block first, exit block second", cfg.module.path, ii.lineno,
              f"a CFG's first two children must be {want}; the builder creates {got_tags}", ii, expected=str(want), found=str(got_tags))
    # entry block input row = the CFG's input row
    for name in ("__init__", "new_nested"):
        fn = ctx.cfn(f"{CFGQ}.{name}")
        cfgop = [c for c in calls_in(fn) if u(c.func) == "ops.CFG"]
        init = [c for c in calls_in(fn) if call_name(c) == "_init_impl"]
        ok = len(cfgop) == 1 and len(init) == 1 and kwarg(cfgop[0], "inputs", 0) is not None and kwarg(init[0], iparams[3], 2) is not None \
            and u(kwarg(cfgop[0], "inputs", 0)) == u(kwarg(init[0], iparams[3], 2))
        ctx.check(ok, "C01.R3", f"Cfg.{name}: entry block takes the CFG's input row", cfg.module.path, fn.lineno,
                  "the entry block's inputs must be the CFG's inputs", fn)
    eb = [c for c in calls_in(ii) if u(c.func) == "ops.DataflowBlock"]
    ctx.check(len(eb) == 1 and kwarg(eb[0], "inputs", 0) is not None and u(kwarg(eb[0], "inputs", 0)) == iparams[3], "C01.R3", "Cfg._init_impl: entry block inputs",
              cfg.module.path, ii.lineno, "", ii)
    # ---- R1c: Conditional: one Case per variant, in index order, with variant i's row
    cond = prog.cls("hugr.build.cond_loop.Conditional")
    CQ = "hugr.build.cond_loop.Conditional"
    ii = ctx.cfn(f"{CQ}._init_impl")
    cparams = [a.arg for a in ii.args.args]
    loops = [n for n in ii.body if isinstance(n, ast.For)]
    ok = len(loops) == 1 and u(loops[0].iter) == f"range({cparams[3]})" and isinstance(loops[0].target, ast.Name)
    if ok:
        lp = loops[0]
        v = u(lp.target)
        e = tall(lp.body, [f"L_c = Case.new_nested(ops.Case(self.parent_op.nth_inputs({v})), E_h, self.parent_node)", "self._case_builders.append((L_c, False))"])
        ok = e is not None and e["E_h"] in ("self.hugr", cparams[1]) and not any(isinstance(x, (ast.If, ast.Continue, ast.Break)) for x in ast.walk(lp)) \
            and len([c for c in calls_in(lp) if call_name(c) == "new_nested"]) == 1
    ctx.check(ok, "C01.R1", "Conditional._init_impl: one Case per variant in index order", cond.module.path, ii.lineno,
              "case i must be the i-th child and receive variant i followed by the other inputs (parent_op.nth_inputs(i))", ii)
    for name in ("__init__", "new_nested"):
        fn = ctx.cfn(f"{CQ}.{name}")
        e = tall(fn.body, ["ops.Conditional(L_sum, L_other)", "E_x._init_impl(E_h, E_root, len(L_sum.variant_rows))"])
        ctx.check(e is not None, "C01.R1", f"Conditional.{name}: as many cases as variants", cond.module.path, fn.lineno, "", fn)
    ctx.check(rust.flags["Conditional"]["allowed_children"] == "Case", "C01.R1", "oracle: Conditional children are Cases", ctx.root / "hugr-core/src/ops/validate.rs", 1, "")
    # ---- R2: permitted parent/child pairs at every creation site
    sites = creation_sites(prog)
    unresolved = 0
    for m, c, fn, call, op, parent in sites:
        where = f"{m.name.split('.', 1)[1]}.{c.name + '.' if c else ''}{fn.name}"
        if op is None:
            unresolved += 1
            ctx.note(f"C01.R2 unresolved operation at {where}:{call.lineno} `{u(call)[:60]}`")
            continue
        ptxt = u(parent) if parent is not None else "<root>"
        pcls = None
        if ptxt in ("self.parent_node",):
            pcls = builder_parent_class(c)
        elif ptxt in ("self.hugr.root", "<root>", "hugr.root", "parent or hugr.root", "parent or self.hugr.root", "parent_node", "root", "parent"):
            if c is not None and c.name == "Module":
                pcls = "Module"
        child_tags = []
        if op == "<DfParentOp>":
            child_tags = [rust.tags[p] for p in sorted(rust.dataflow_parents)]
        else:
            r = PY2RUST.get(op)
            if r is None or r not in rust.tags:
                if op in ("DataflowOp",):
                    child_tags = ["DataflowChild"]
                else:
                    unresolved += 1
                    continue
            else:
                child_tags = [rust.tags[r]]
        if op == "<DfParentOp>" or pcls is None:
            # the parent is whatever the caller passes: it must at least be legal under *some* container and under every container this builder can be
            legal_somewhere = all(any(rust.is_superset(f["allowed_children"], t) for f in rust.flags.values()) for t in child_tags)
            ctx.check(legal_somewhere, "C01.R2", f"{where}: {op} (parent given by caller)", m.path, call.lineno,
                      f"{op} (tag {child_tags}) is a legal child of no container", call, detail=f"{child_tags} under caller-supplied parent")
            continue
        parents = sorted(rust.dataflow_parents) if pcls == "<DfParentOp>" else [PY2RUST.get(pcls, pcls)]
        bad = [(p, t) for p in parents for t in child_tags if p in rust.flags and not rust.is_superset(rust.flags[p]["allowed_children"], t)]
        ctx.check(not bad, "C01.R2", f"{where}: {op} under {pcls}", m.path, call.lineno,
                  f"{op} (tag {child_tags}) is created as a child of {pcls}, whose allowed children are {[rust.flags[p]['allowed_children'] for p in parents if p in rust.flags]} "
                  "(hugr-core/src/ops/validate.rs): the validator rejects this parent/child pair", call, detail=f"{child_tags} under {parents}")
    ctx.stats["C01.R2 creation sites / unresolved"] = [len(sites), unresolved]
    # an optional `parent` parameter is defaulted (to the builder's container / the root) before it is handed on as a parent: left as
    # None it would make the callee fall back on ITS default -- the HUGR root -- whatever container the builder is working in
    PARENT_AT = {"add_node": 1, "add_const": 1, "_add_node": 1, "new_nested": 2, "add_alias_defn": 2, "add_alias_decl": 2}
    n_par = 0
    for mn, m in prog.modules.items():
        if not mn.startswith("hugr.build"):
            continue
        for c in m.classes.values():
            for name, fn_o in c.methods.items():
                a = fn_o.args
                pos = a.posonlyargs + a.args
                optional = {p_.arg for p_, d_ in zip(pos[len(pos) - len(a.defaults):], a.defaults) if isinstance(d_, ast.Constant) and d_.value is None}
                optional |= {p_.arg for p_, d_ in zip(a.kwonlyargs, a.kw_defaults) if isinstance(d_, ast.Constant) and d_.value is None}
                if not optional:
                    continue
                cf = ctx.cfn(f"{c.qualname}.{name}", subst=False)
                for call in calls_in(cf):
                    cn = call_name(call)
                    if cn not in PARENT_AT:
                        continue
                    par = kwarg(call, "parent", PARENT_AT[cn])
                    if par is None:
                        continue
                    n_par += 1
                    # (the same method of the base class taking the same optional parameter passes it through: it defaults there)
                    passthrough = isinstance(call.func, ast.Attribute) and isinstance(call.func.value, ast.Call) and u(call.func.value.func) == "super"
                    bad = isinstance(par, ast.Name) and par.id in optional and not passthrough and not _rebound_before(cf, call, par.id)
                    # a definition-level helper that documents "defaults to the root" hands its optional parent to Hugr.add_node, which defaults
                    # there: only builders that HAVE a container of their own must not
                    own_container = any(k_.name == "ParentBuilder" or "parent_node" in {f.name for f in k_.fields} for k_ in c.mro)
                    uses_container = any(isinstance(x, ast.Attribute) and x.attr == "parent_node" and u(x.value) == "self" for x in ast.walk(fn_o)) or \
                        any(isinstance(x, ast.Attribute) and x.attr == "parent_node" and u(x.value) == "self" for x in ast.walk(cf))
                    if bad and own_container and (uses_container or name in ("load",)):
                        ctx.fail("C01.R2", f"{mn.split('.', 1)[1]}.{c.name}.{name}: {cn} under an undefaulted optional parent", m.path, call.lineno,
                                 f"`{par.id}` is an optional parameter handed to {cn} as it came: when the caller leaves it out the node is created under the HUGR "
                                 "root (the callee's default), not in the container this builder is building -- e.g. a Const directly under a CFG or Conditional", call)
                    else:
                        ctx.ok("C01.R2", f"{mn.split('.', 1)[1]}.{c.name}.{name}: {cn} parent", "optional parent defaulted before use / passed through")
    ctx.stats["C01.R2 optional parents handed on"] = n_par
    # add_op takes a DataflowOp, load/call create LoadConst / Call under the dataflow parent
    ao = df.methods["add_op"]
    ann = u(ao.args.posonlyargs[1].annotation) if len(ao.args.posonlyargs) > 1 else (u(ao.args.args[1].annotation) if len(ao.args.args) > 1 else "")
    ctx.check(ann == "ops.DataflowOp", "C01.R2", "DfBase.add_op: only dataflow operations", df.module.path, ao.lineno,
              "add_op places its operation inside a dataflow region: it must be typed as a DataflowOp", ao, found=ann)


DF = "hugr.build.dfg.DfBase"
CFGQ = "hugr.build.cfg.Cfg"


def _super_call_on_every_path(ctx, qual: str, meth: str) -> tuple[bool, str]:
    """every non-raising path of the method *as the class runs it* (inherited body specialised for the class, super() calls and hook
    methods seen through) wires the Output node with all the given wires and then hands its row to the container, exactly once"""
    fn, _, _ = ctx.locate(qual)
    va = fn.args.vararg.arg if fn.args.vararg else None
    ps = [p for p in ctx.paths(qual, supers=True) if p.kind != "raise"]
    bad = []
    for p in ps:
        w = p.find_effect(f"self._wire_up(self.output_node, {va})") if va else []
        st = p.find_effect("self.parent_op._set_out_types(self._output_op().types)")
        if len(w) != 1 or len(st) != 1 or not w[0][0] < st[0][0]:
            bad.append(p.describe())
    return (bool(ps) and not bad), "; ".join(bad)[:300]


def r3_rows(ctx) -> None:
    prog = ctx.program
    R = "C01.R3"
    need_a(ctx, R, f"{DF}._init_io_nodes", "DfBase._init_io_nodes: Input row = the container's inputs",
         ["E_inputs = L_op._inputs()", "self.hugr.add_node(ops.Input(E_inputs), self.parent_node, len(E_inputs))"],
         "the Input node's row (and port count) must be the container op's _inputs()")
    so_ps = [p for p in ctx.paths(f"{DF}.set_outputs") if p.kind != "raise"]
    ok = bool(so_ps)
    for p in so_ps:
        w = p.find_effect("self._wire_up(self.output_node, L_args)")
        st = p.find_effect("self.parent_op._set_out_types(self._output_op().types)")
        ok = ok and len(w) == 1 and len(st) == 1 and w[0][0] < st[0][0]
    so = ctx.locate(f"{DF}.set_outputs")
    ctx.check(ok, R, "DfBase.set_outputs: Output row propagated into the container", so[1].path, so[0].lineno,
              "set_outputs must wire the Output node and then give the container op exactly the Output node's row", so[0],
              found="; ".join(p.describe() + " " + " | ".join(p.effect_texts()) for p in so_ps)[:300])
    # every override reaches the base implementation on every path with all its wires
    for q in ("hugr.build.dfg.Dfg", "hugr.build.cfg.Block", "hugr.build.cond_loop.TailLoop", "hugr.build.cond_loop.Case", "hugr.build.dfg.Function"):
        fn, m, c = ctx.locate(f"{q}.set_outputs")
        ok, why = _super_call_on_every_path(ctx, f"{q}.set_outputs", "set_outputs")
        va = fn.args.vararg.arg if fn.args.vararg else None
        ctx.check(ok, R, f"{c.name}.set_outputs: base wiring on every path", m.path, fn.lineno,
                  f"{c.name}.set_outputs must do the base wiring (super().set_outputs(*{va})) on every non-raising path: otherwise the Output node is not wired or the "
                  "container never learns its output row", fn, found=why)
    # container output counts agree with the op's output count (C06 table)
    need_a(ctx, R, "hugr.build.dfg.Dfg.set_outputs", "Dfg.set_outputs: container output count", ["self._set_parent_output_count(len(L_outputs))"],
         "the container's output count must be len(outputs) (the length of its signature's output row)", supers=True)
    from ..rulekit import need_any
    need_any_a(ctx, R, "hugr.build.cfg.Block.set_outputs", "Block.set_outputs: container output count",
             [["L_bt = self.hugr.port_type(L_outputs[0].out_port())", "self._set_parent_output_count(len(L_bt.variant_rows))"],
              ["self._set_parent_output_count(len(self.hugr.port_type(L_outputs[0].out_port()).variant_rows))"]],
             "a block has one control output per variant of the branch sum carried by its first output", supers=True)
    need_any_a(ctx, R, "hugr.build.cond_loop.TailLoop.set_outputs", "TailLoop.set_outputs: container output count",
             [["L_st = self.hugr.port_type(L_outputs[0].out_port())", "self._set_parent_output_count(len(L_st.variant_rows[1]) + len(L_outputs) - 1)"],
              ["self._set_parent_output_count(len(self.hugr.port_type(L_outputs[0].out_port()).variant_rows[1]) + len(L_outputs) - 1)"]],
             "a tail loop's outputs are the break variant's row followed by the rest of the body outputs", supers=True)
    need(ctx, R, "hugr.build.cond_loop.Case.set_outputs", "Case.set_outputs: conditional learns the case's output row",
         ["self._parent_cond._update_outputs(self._wire_types(L_outputs))"], supers=True)
    # Conditional._update_outputs / Cfg.branch_exit: on the path that establishes the row, row and count are set together
    uo = [p for p in ctx.paths("hugr.build.cond_loop.Conditional._update_outputs") if p.kind != "raise"]
    setters = [p for p in uo if p.find_effect("self.parent_op._outputs = L_outputs")]
    ok = bool(setters) and all(p.find_effect("self.parent_node = self.hugr._update_node_outs(self.parent_node, len(L_outputs))") and
                               p.has_test("self.parent_op._outputs is not None", False) is not None for p in setters)
    f_ = ctx.locate("hugr.build.cond_loop.Conditional._update_outputs")
    ctx.check(ok, R, "Conditional._update_outputs: row and count set together", f_[1].path, f_[0].lineno,
              "the first case to finish gives the conditional its output row and the matching output count", f_[0])
    be = [p for p in ctx.paths(f"{CFGQ}.branch_exit") if p.kind != "raise"]
    first = [p for p in be if p.find_effect("self._exit_op._cfg_outputs = E_row")]
    ok = bool(first)
    for p in first:
        a = p.find_effect("self._exit_op._cfg_outputs = E_row")
        env = a[0][2]
        b = p.find_effect("self.parent_op._outputs = E_row", env)
        c = p.find_effect("self.parent_node = self.hugr._update_node_outs(self.parent_node, len(E_row))", env)
        ok = ok and bool(b) and bool(c) and "_nth_outputs(" in env["E_row"]
    f_ = ctx.locate(f"{CFGQ}.branch_exit")
    ctx.check(ok, R, "Cfg.branch_exit: exit row, CFG output row and count set together", f_[1].path, f_[0].lineno,
              "the first exit branch must give the same row to the exit block and to the CFG op, and update the CFG's output count, on the same path", f_[0])
    ok = bool(be) and all(p.find_effect("self.hugr.add_link(E_src, self.exit.inp(0))") for p in be) and \
        all("self._nth_outputs(" in " ".join(p.effect_texts()) for p in be)
    ctx.check(ok, R, "Cfg.branch_exit: exit row = the branch's successor row", f_[1].path, f_[0].lineno,
              "every exit branch links the source to the exit block's port 0 and takes the exit row from the source's successor row", f_[0])
    need_a(ctx, R, f"{CFGQ}._nth_outputs", "Cfg._nth_outputs: successor i receives variant i + other outputs",
         ["self.hugr._get_typed_op(E_p.node, ops.DataflowBlock).nth_outputs(E_p.offset)"])
    need_a(ctx, R, f"{CFGQ}.add_successor", "Cfg.add_successor: block inputs = predecessor's successor row",
         ["L_b = self.add_block(*self._nth_outputs(L_pred))", "self.branch(L_pred, L_b)"])
    br = [p for p in ctx.paths(f"{CFGQ}.branch")]
    ok = bool(br) and all((p.kind == "return" and "self.branch_exit(" in p.value_text()) or p.find_effect("self.branch_exit(E_s)")
                          or p.find_effect("self.hugr.add_link(E_src, L_dst.inp(0))") for p in br)
    f_ = ctx.locate(f"{CFGQ}.branch")
    ctx.check(ok, R, "Cfg.branch: control edges enter a block at port 0", f_[1].path, f_[0].lineno, "", f_[0])
    # op-side setters
    for cname in ("DFG", "Case", "FuncDefn"):
        need_a(ctx, R, f"hugr.ops.{cname}._set_out_types", f"hugr.ops.{cname}: row setter", ["self._outputs = L_types"],
             f"{cname} must record the row it is given in its signature fields")
    need_a(ctx, R, "hugr.ops.Output._set_in_types", "hugr.ops.Output: row setter", ["self._types = L_types"])
    need_a(ctx, R, "hugr.ops.DataflowBlock._set_out_types", "hugr.ops.DataflowBlock: row setter",
         ["L_s, L_o = tys.get_first_sum(L_types)", "self._sum = L_s", "self._other_outputs = L_o"],
         "DataflowBlock must record the row it is given in its signature fields")
    tl = [p for p in ctx.paths("hugr.ops.TailLoop._set_out_types") if p.kind != "raise"]
    ok = bool(tl) and all(p.find_effect("self._just_outputs = tys.get_first_sum(L_types)[0].variant_rows[1]") and
                          p.find_effect("assert tys.get_first_sum(L_types)[0].variant_rows[0] == self.just_inputs") for p in tl)
    f_ = ctx.locate("hugr.ops.TailLoop._set_out_types")
    ctx.check(ok, R, "hugr.ops.TailLoop: row setter", f_[1].path, f_[0].lineno, "TailLoop must record the break row of the body's first output sum", f_[0],
              found=" | ".join(e for p in tl for e in p.effect_texts())[:300])
    gfs = returns(ctx.paths("hugr.tys.get_first_sum"))
    ok = bool(gfs) and all(p.value_text() == "(types[0], types[1:])" and p.find_effect("assert isinstance(types[0], Sum)") for p in gfs)
    f_ = ctx.locate("hugr.tys.get_first_sum")
    ctx.check(ok, R, "hugr.tys.get_first_sum", f_[1].path, f_[0].lineno, "", f_[0], found="; ".join(p.describe() for p in gfs))
    # _wire_up: port i gets wire i; partial ops learn their input row; port counts from the signature
    need(ctx, R, f"{DF}._wire_up", "DfBase._wire_up: wires in port order, partial ops completed, counts from the signature",
         ["L_tys = [self._wire_up_port(L_node, c0, c1) for c0, c1 in enumerate(L_ports)]", "E_op._set_in_types(L_tys)", "L_sig = E_op.outer_signature()",
          "self.hugr._update_port_count(L_node, num_inps=len(L_sig.input), num_outs=len(L_sig.output))"],
         "input port i must receive wire i, a partial op must be given the wire types, and the node's port counts must come from the completed signature")
    need_a(ctx, R, "hugr.build.dfg.Function.declare_outputs", "Function.declare_outputs",
         ["self._set_parent_output_count(len(L_t))", "self.parent_op._set_out_types(L_t)"])
    # nested containers take their input rows from the wires they are given
    need_a(ctx, R, f"{DF}.add_nested", "DfBase.add_nested: container inputs = types of the given wires, then wired",
         ["L_d = Dfg.new_nested(ops.DFG(self._wire_types(L_args)), self.hugr, self.parent_node)", "self._wire_up(L_d.parent_node, L_args)"])
    need_a(ctx, R, f"{DF}.add_cfg", "DfBase.add_cfg: container inputs = types of the given wires, then wired",
         ["L_c = Cfg.new_nested(self._wire_types(L_args), self.hugr, self.parent_node)", "self._wire_up(L_c.parent_node, L_args)"])
    need_a(ctx, R, f"{DF}.add_tail_loop", "DfBase.add_tail_loop: container inputs = types of the given wires, then wired",
         ["L_t = TailLoop.new_nested(ops.TailLoop(E_ji, E_rest), self.hugr, self.parent_node)", "self._wire_up(L_t.parent_node, (*L_just, *L_rest))"])
    e = tall(ctx.cfn(f"{DF}.add_tail_loop").body, ["ops.TailLoop(E_ji, E_rest)", "self._wire_up(L_t.parent_node, (*L_just, *L_rest))"])
    if e is not None:
        body = ctx.cfn(f"{DF}.add_tail_loop").body
        def val(x):
            d = [s.value for s in body if isinstance(s, ast.Assign) and u(s.targets[0]) == x]
            return u(d[0]) if d else x
        ok = val(e["E_ji"]) == f"self._wire_types({e['L_just']})" and val(e["E_rest"]) == f"self._wire_types({e['L_rest']})"
        f_ = ctx.locate(f"{DF}.add_tail_loop")
        ctx.check(ok, R, "DfBase.add_tail_loop: rows = types of the two wire groups", f_[1].path, f_[0].lineno, "", f_[0])
    need_a(ctx, R, f"{DF}.add_conditional", "DfBase.add_conditional: container inputs = types of the given wires, then wired",
         ["L_s, L_o = tys.get_first_sum(self._wire_types(L_all))", "L_c = Conditional.new_nested(L_s, L_o, self.hugr, self.parent_node)", "self._wire_up(L_c.parent_node, L_all)"])


def r4_order_edges(ctx) -> None:
    R = "C01.R4"
    q = f"{DF}._wire_up_port"
    fn, m, _ = ctx.locate(q)
    ps = [p for p in ctx.paths(q) if p.kind != "raise"]
    linked = [(p, p.find_effect("self.hugr.add_link(E_src, L_node.inp(L_offset))")) for p in ps]
    linked = [(p, h) for p, h in linked if h]
    ok = bool(linked)
    nonlocal_seen = False
    why = ""
    for p, h in linked:
        env = h[0][2]
        anc = f"_ancestral_sibling(self.hugr, {env['E_src']}.node, {env['L_node']})"
        local = p.has_test(f"{anc} == {env['L_node']}")
        if local is None:
            ok, why = False, "a value edge is added on a path that never compares the target's sibling-ancestor with the target: " + p.describe()
            continue
        taken = [k for t, k in p.tests if u(t) == f"{anc} == {env['L_node']}"][0]
        if not taken:
            nonlocal_seen = True
            o = p.find_effect(f"self.add_state_order({env['E_src']}.node, {anc})") or p.find_effect(f"self.hugr.add_order_link({env['E_src']}.node, {anc})")
            if not o or o[0][0] > h[0][0]:
                ok, why = False, "non-local path without the order edge (source node -> target's ancestor) before the value edge: " + " | ".join(p.effect_texts())
        if len(h) != 1:
            ok, why = False, "more than one value edge on a path"
    ctx.check(ok and nonlocal_seen, R, "DfBase._wire_up_port: order edge accompanies every non-local value edge", m.path, fn.lineno,
              "when the source is not a sibling of the target (its sibling-ancestor differs from the target) a state-order edge from the source node to "
              "the target's ancestor must be added before the value edge. " + why, fn)
    need(ctx, R, q, "DfBase._wire_up_port: ancestor = sibling-ancestor of the target", ["_ancestral_sibling(self.hugr, E_src.node, L_node)", "self.hugr.add_link(E_src, L_node.inp(L_off))"])
    need(ctx, R, q, "DfBase._wire_up_port: value edge to the requested port", ["self.hugr.add_link(L_src, L_node.inp(L_offset))", "L_src = L_p.out_port()"])
    aso = returns(ctx.paths(f"{DF}.add_state_order")) + [p for p in ctx.paths(f"{DF}.add_state_order") if p.kind == "fall"]
    f_ = ctx.locate(f"{DF}.add_state_order")
    ok = bool(aso) and all(p.find_effect("self.hugr.add_order_link(L_src, L_dst)") for p in aso)
    ctx.check(ok, R, "DfBase.add_state_order", f_[1].path, f_[0].lineno, "", f_[0])
    # Block: the only link without an order edge is the dominator-edge fallback
    need(ctx, R, "hugr.build.cfg.Block._wire_up_port", "Block._wire_up_port: ordinary wiring first", ["super()._wire_up_port(L_node, L_offset, L_p)"])
    # _ancestral_sibling returns the ancestor of tgt whose parent is src's parent (search loop in normal form, hv/genloop.py)
    fn, m, sl, (h, src, tgt) = _sibling_search(ctx)
    par = f"{h}[s0].parent"
    same = (f"{par} == {h}[{src}].parent", f"{h}[{src}].parent == {par}")
    found = [it for it in sl.iters if it.kind == "return" and it.value is not None and u(it.value) == "s0"]
    ok = list(sl.state) == ["s0"] and u(sl.state["s0"]) == tgt and bool(found) and all(any(it.test(t) is True for t in same) for it in found)
    climb = [it for it in sl.iters if it.kind == "next"]
    ok = ok and bool(climb) and all({k: u(v) for k, v in it.update.items()} == {"s0": par} for it in climb)
    # nothing but the target's ancestors is ever answered
    ok = ok and all(it.kind != "return" or u(it.value) in ("s0", "None") for it in sl.iters)
    ctx.check(ok, R, "_ancestral_sibling: climbs from the target until the parent is the source's parent", m.path, fn.lineno,
              "the walk returns the ancestor of the target whose parent is the source's parent, climbing one parent per iteration", fn,
              found="; ".join(it.describe() for it in sl.iters)[:400])


def _sibling_search(ctx):
    from ..genloop import NotASearchLoop, search_loop
    q = "hugr.build.dfg._ancestral_sibling"
    fn, m, _ = ctx.locate(q)
    a = [x.arg for x in fn.args.args]
    if len(a) != 3:
        ctx.broken("_ancestral_sibling: expected (h, src, tgt)")
    try:
        sl = search_loop(ctx.cfn(q, subst=False).body)
    except NotASearchLoop as e:
        ctx.broken(f"_ancestral_sibling: not a single search loop ({e})")
    return fn, m, sl, a


def r6_function_boundary(ctx, rule="C01.R6") -> None:
    fn, m, sl, (h, src, tgt) = _sibling_search(ctx)
    par = f"{h}[s0].parent"

    def func_test(it):
        for e, k in it.tests_matching(f"isinstance({h}[{par}].op, E_cls)"):
            if "FuncDefn" in e["E_cls"]:
                return k
        return None
    climb = [it for it in sl.iters if it.kind == "next"]
    found = [it for it in sl.iters if it.kind == "return" and u(it.value) == "s0"]
    stop = [it for it in sl.iters if it.kind == "return" and u(it.value) == "None" and func_test(it) is True]
    ok = bool(climb) and all(func_test(it) is False for it in climb) and bool(stop) and bool(found) and all(func_test(it) is None for it in found)
    ctx.check(ok, rule, "_ancestral_sibling: the search does not leave a function definition", m.path, sl.loop.lineno if hasattr(sl.loop, "lineno") else fn.lineno,
              "the ancestor walk climbs through a FuncDefn: a value wire from outside a function into its body is accepted and an order edge is added "
              "to the function node, but the validator forbids value edges into a function body (ValueEdgeIntoFunc). The walk must stop "
              "(return None -> NoSiblingAncestor) when the parent it would climb past is a FuncDefn, and only after the sibling test", fn,
              detail="sibling test, then function-boundary test, then climb", found="; ".join(it.describe() for it in sl.iters)[:400])


def _rebound_before(fn, call, name: str) -> bool:
    """is `name` assigned by a statement that comes before the one holding `call`, in its block or an enclosing one"""
    def search(block):
        for i, st in enumerate(block):
            if any(n is call for n in ast.walk(st)):
                if any(isinstance(x, ast.Name) and x.id == name and isinstance(x.ctx, ast.Store) for b_ in block[:i] for x in ast.walk(b_)):
                    return True
                for fld in ("body", "orelse", "finalbody"):
                    bb = getattr(st, fld, None)
                    if isinstance(bb, list) and bb and isinstance(bb[0], ast.stmt) and any(n is call for b_ in bb for n in ast.walk(b_)):
                        return search(bb)
                for h in getattr(st, "handlers", []):
                    if any(n is call for b_ in h.body for n in ast.walk(b_)):
                        return search(h.body)
                return False
        return False
    return search(fn.body)


def run(ctx) -> None:
    ctx.rule("C01.R1", "mandated child positions: Input/Output, entry/exit block, one Case per variant in order (oracle: validity flags in validate.rs)", floor=8)
    ctx.rule("C01.R2", "every node-creating call in the builders pairs an operation with a parent whose allowed-children tag admits it (oracle: tag.rs / validate.rs)", floor=12)
    ctx.rule("C01.R3", "rows and output counts are propagated from the wires / child Output into the container op on every path", floor=30)
    ctx.rule("C01.R4", "every non-local value wire is accompanied by a state-order edge from the source node to the target's ancestor", floor=6)
    ctx.rule("C01.R5", "the order port is addressed from the operation's signature (shared with C03.R5)", floor=1)
    ctx.rule("C01.R6", "the ancestor walk for non-local wires stops at a function boundary", floor=1)
    rust = RustOps(ctx.root)
    ctx.stats["rust tags / supersets / flags scanned"] = [len(rust.tags), len(rust.supersets), len(rust.flags)]
    r1_r2_structure(ctx, rust)
    r3_rows(ctx)
    r4_order_edges(ctx)
    r5_order_offset(ctx, rule="C01.R5")
    r6_function_boundary(ctx)
    # rules shared with the properties that own these mechanisms (a defect there yields an invalid HUGR without any builder call raising)
    ctx.rule("C01.R7", "tracked builder: node built from the currently tracked wires and indices rebound to the argument's own output position (shared with C15.R2/R3)", floor=4)
    from .c15 import tracked_add_rules
    tracked_add_rules(ctx, R2="C01.R7", R3="C01.R7")
    ctx.rule("C01.R8", "insert_* wrappers wire in the order of their add_* twins (shared with C08.R5)", floor=5)
    from .c08 import insert_wrappers
    insert_wrappers(ctx, R5="C01.R8")
    ctx.rule("C01.R9", "add_order_link joins out(-1) to inp(-1) unless exactly that link exists (shared with C04.R6)", floor=1)
    from .c04 import order_link_rule
    order_link_rule(ctx, "C01.R9")
    ctx.rule("C01.R10", "Call: output count, function-port offset and port kinds all read the instantiated signature (shared with C06.R4): the validator types a call's wires by the instantiation", floor=3)
    from .c06 import r4_call
    from ..nf import NF
    with ctx.as_rule(C06_R4="C01.R10"):
        r4_call(ctx, NF(ctx.program))
    # (.. and a call node carries as many type arguments as the callee has type parameters: shared with C13.R1)
    from .c13 import call_arity_rule
    call_arity_rule(ctx, "C01.R10")
    ctx.rule("C01.R11", "insert_* of a built container: every node and every link (order links included) of the inserted HUGR is copied, the root under the requested parent (shared with C08.R1-R4): a dropped order edge leaves a non-local value edge without its mandatory order edge", floor=8)
    from .c08 import insert_core
    insert_core(ctx, R1="C01.R11", R2="C01.R11", R3="C01.R11", R4="C01.R11")
    from .. import lints
    lints.arm(ctx)



# ---------------------------------------------------------------------------------------
D = "hugr-py/src/hugr/build/dfg.py"
CF = "hugr-py/src/hugr/build/cfg.py"
CL = "hugr-py/src/hugr/build/cond_loop.py"
FN = "hugr-py/src/hugr/build/function.py"
O = "hugr-py/src/hugr/ops.py"
B = "hugr-py/src/hugr/hugr/base.py"
MUTANTS = [
    dict(name="output-count-only-when-some", file=D, expect="C01.R3", old="        super().set_outputs(*outputs)\n        self._set_parent_output_count(len(outputs))",
         new="        super().set_outputs(*outputs)\n        if outputs:\n            self._set_parent_output_count(len(outputs))"),
    dict(name="output-before-input", file=D, expect="C01.R1",
         old="        self.input_node = self.hugr.add_node(\n            ops.Input(inputs), self.parent_node, len(inputs)\n        )\n        self.output_node = self.hugr.add_node(ops.Output(), self.parent_node)",
         new="        self.output_node = self.hugr.add_node(ops.Output(), self.parent_node)\n        self.input_node = self.hugr.add_node(\n            ops.Input(inputs), self.parent_node, len(inputs)\n        )"),
    dict(name="exit-before-entry", file=CF, expect="C01.R1",
         old="        self._entry_block = Block.new_nested(ops.DataflowBlock(input_types), hugr, root)\n\n        self.exit = self.hugr.add_node(ops.ExitBlock(), self.parent_node)",
         new="        self.exit = self.hugr.add_node(ops.ExitBlock(), self.parent_node)\n        self._entry_block = Block.new_nested(ops.DataflowBlock(input_types), hugr, root)"),
    dict(name="cases-reversed", file=CL, expect="C01.R1", old="        for case_id in range(n_cases):", new="        for case_id in reversed(range(n_cases)):"),
    dict(name="case-inputs-without-variant", file=CL, expect="C01.R1", old="                ops.Case(self.parent_op.nth_inputs(case_id)),", new="                ops.Case(self.parent_op.other_inputs),"),
    dict(name="one-case-too-few", file=CL, expect="C01.R1", old="        new._init_impl(hugr, root, len(sum_ty.variant_rows))", new="        new._init_impl(hugr, root, len(sum_ty.variant_rows) - 1)"),
    dict(name="alias-decl-under-dfg", file=D, expect="C01.R2", old="        return self.hugr.add_node(ops.AliasDefn(name, ty), parent_node)", new="        return self.hugr.add_node(ops.Module(), parent_node)"),
    dict(name="exit-block-under-dataflow", file=D, expect="C01.R2", old="        self.output_node = self.hugr.add_node(ops.Output(), self.parent_node)", new="        self.output_node = self.hugr.add_node(ops.Output(), self.parent_node)\n        self.hugr.add_node(ops.ExitBlock(), self.parent_node)"),
    dict(name="case-under-cfg", file=CF, expect=["C01.R2", "C01.R1"], old="        self.exit = self.hugr.add_node(ops.ExitBlock(), self.parent_node)", new="        self.exit = self.hugr.add_node(ops.Case([]), self.parent_node)"),
    dict(name="input-row-empty", file=D, expect="C01.R3", old="            ops.Input(inputs), self.parent_node, len(inputs)", new="            ops.Input([]), self.parent_node, len(inputs)"),
    dict(name="container-row-not-set", file=D, expect="C01.R3", old="        self._wire_up(self.output_node, args)\n        self.parent_op._set_out_types(self._output_op().types)", new="        self._wire_up(self.output_node, args)"),
    dict(name="block-skips-base", file=CF, expect="C01.R3", old="    def set_outputs(self, *outputs: Wire) -> None:\n        super().set_outputs(*outputs)\n\n        assert len(outputs) > 0\n        branching = outputs[0]", new="    def set_outputs(self, *outputs: Wire) -> None:\n        assert len(outputs) > 0\n        branching = outputs[0]"),
    dict(name="block-count-wrong", file=CF, expect="C01.R3", old="        self._set_parent_output_count(len(branch_type.variant_rows))", new="        self._set_parent_output_count(len(outputs))"),
    dict(name="tailloop-count-wrong", file=CL, expect="C01.R3", old="        self._set_parent_output_count(len(sum_type.variant_rows[1]) + len(outputs) - 1)", new="        self._set_parent_output_count(len(sum_type.variant_rows[0]) + len(outputs) - 1)"),
    dict(name="exit-row-only-on-exit-op", file=CF, expect="C01.R3", old="            self._exit_op._cfg_outputs = out_types\n            self.parent_op._outputs = out_types\n", new="            self._exit_op._cfg_outputs = out_types\n"),
    dict(name="successor-gets-all-outputs", file=CF, expect="C01.R3", old="        b = self.add_block(*self._nth_outputs(pred))", new="        b = self.add_block(*self._entry_op.inputs)"),
    dict(name="block-setter-crossed", file=O, expect="C01.R3", old="        (sum_, other) = tys.get_first_sum(types)\n        self._sum = sum_\n        self._other_outputs = other", new="        (sum_, other) = tys.get_first_sum(types)\n        self._sum = sum_\n        self._other_outputs = types"),
    dict(name="wires-misaligned", file=D, expect="C01.R3", old="        tys = [self._wire_up_port(node, i, p) for i, p in enumerate(ports)]", new="        tys = [self._wire_up_port(node, i + 1, p) for i, p in enumerate(ports)]"),
    dict(name="nested-dfg-wrong-inputs", file=D, expect="C01.R3", old="        parent_op = ops.DFG(self._wire_types(args))", new="        parent_op = ops.DFG(self._input_op().types)"),
    dict(name="no-order-edge", file=D, expect="C01.R4", old="        if node_ancestor != node:\n            self.add_state_order(src.node, node_ancestor)\n", new=""),
    dict(name="order-edge-to-target", file=D, expect="C01.R4", old="            self.add_state_order(src.node, node_ancestor)", new="            self.add_state_order(src.node, node)"),
    dict(name="order-edge-reversed", file=D, expect="C01.R4", old="            self.add_state_order(src.node, node_ancestor)", new="            self.add_state_order(node_ancestor, src.node)"),
    dict(name="order-offset-from-counters", file=B, expect="C01.R5", old="            order_offset = self._order_port_offset(p.node, p.direction)\n            if order_offset is None:", new="            order_offset = None\n            if order_offset is None:"),
    dict(name="function-boundary-ignored", file=D, expect="C01.R6", old="        if isinstance(h[tgt_parent].op, ops.FuncDefn):\n            return None\n", new=""),
    dict(name="function-boundary-too-early", file=D, expect=["C01.R6", "C01.R4"], old="        if tgt_parent == src_parent:\n            return tgt\n        if isinstance(h[tgt_parent].op, ops.FuncDefn):\n            return None\n", new="        if isinstance(h[tgt_parent].op, ops.FuncDefn):\n            return None\n        if tgt_parent == src_parent:\n            return tgt\n"),
]
TWINS = []


def thorough(ctx):
    from ..selftest import run_battery
    return run_battery(ctx, MUTANTS, TWINS)
