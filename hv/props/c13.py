"""C13 -- builders refuse inconsistent constructions instead of recording them.

R1 guard table: for each documented refusal the raise exists, is reachable, is controlled by a test on the named
quantities, and the check never comes after the effect it protects (CFG, check-before-effect);
R2 optional fields are read through _check_complete on every path reachable from an op's _to_serial;
R3 an index range guard that is followed by a subscript bounds the index on both sides.
"""
from __future__ import annotations

import ast

from ..cfg import CFG, EXIT, RAISE
from ..model import calls_in, call_name, real_body, u, walk_no_nested


def _find(prog, qual, own=True):
    if qual.count(".") and qual.rsplit(".", 1)[0] in prog.modules:
        return prog.module(qual.rsplit(".", 1)[0]), None, prog.function(qual)
    c, m = prog.method(qual, own=own)
    return c.module, c, m


def _mentions(e, names) -> bool:
    """names is either a list of fragments that must all occur, or a spec tuple:
       ("cmp", a, b): an ==/!= comparison between an operand ending in a and one ending in b
       ("isnone", a): `<...a> is None` / `is not None`;  ("truth", a): the bare value a is tested"""
    if isinstance(names, tuple):
        kind = names[0]
        for n in ast.walk(e):
            if kind == "cmp" and isinstance(n, ast.Compare) and len(n.ops) == 1 and isinstance(n.ops[0], (ast.Eq, ast.NotEq)):
                l, r = u(n.left), u(n.comparators[0])
                if (l.endswith(names[1]) and r.endswith(names[2])) or (l.endswith(names[2]) and r.endswith(names[1])):
                    return True
            if kind == "isnone" and isinstance(n, ast.Compare) and len(n.ops) == 1 and isinstance(n.ops[0], (ast.Is, ast.IsNot)) \
                    and u(n.left).endswith(names[1]) and u(n.comparators[0]) == "None":
                return True
            if kind == "truth" and isinstance(n, ast.Name) and n.id == names[1]:
                return True
            if kind == "truth" and u(n).endswith(names[1]) and isinstance(n, (ast.Attribute, ast.Call)):
                return True
        return False
    s = u(e)
    return all(n in s for n in names)


def _stmt_is(stmt, tmpl_src) -> bool:
    from ..tmpl import T, tmatch
    try:
        return tmatch(stmt, T(tmpl_src)) is not None
    except ValueError:
        return False


def _raise_nodes(g, exc):
    out = []
    for n, s in g.stmt.items():
        if isinstance(s, ast.Raise) and s.exc is not None:
            e = s.exc.func if isinstance(s.exc, ast.Call) else s.exc
            if u(e).split(".")[-1] == exc:
                out.append(n)
    return out


def _controlling_tests(g, r):
    """test nodes such that r is reachable only through one of their labelled edges"""
    dom = g.dominators()
    out = []
    for d in dom[r]:
        if g.kind.get(d) not in ("test", "loop", "case"):
            continue
        for x in g.succ[d]:
            lab = g.label.get((d, x))
            if lab in ("T", "F") and r not in g.reachable(0, avoid_edges=frozenset({(d, x)})):
                out.append((d, lab))
    return out


# Guard table, stated over path summaries (hv/paths.py): every local is replaced by its definition on the path, so the
# tests below do not depend on local names, guard-clause vs if/else layout, `a or b` vs two tests, or extracted helpers.
#   site, exception, [(label, [option, ...])], effect templates, what
#   option = [(test template, taken), ...]: for EACH listed test some path raising the exception takes it that way
def _loop_guard(iter_text, pred):
    """an option: the exception is raised inside a loop over iter_text under a test accepted by pred(test, taken, target)"""
    def ok(paths):
        for p in paths:
            for i, (t, k) in enumerate(p.tests):
                if isinstance(t, ast.Call) and u(t.func) == "in_loop_" and u(t.args[0]) == iter_text:
                    tgt = t.args[1] if len(t.args) > 1 else None
                    if any(pred(t2, k2, tgt) for t2, k2 in p.tests[i + 1:]):
                        return True
        return False
    return ok


def _unbuilt(t, taken, tgt):
    # the flag is the second component of the (builder, built) pairs
    return (not taken) and isinstance(t, ast.Name) and isinstance(tgt, ast.Tuple) and len(tgt.elts) == 2 and u(tgt.elts[1]) == t.id


GUARDS = [
    ("hugr.build.dfg.DfBase._wire_up_port", "NoSiblingAncestor",
     [("sibling-ancestor is None", [[("_ancestral_sibling(self.hugr, ANY_, L_node) is not None", False)]])],
     ["self.hugr.add_link(ANY_, ANY_)", "self.add_state_order(ANY_, ANY_)"], "a wire whose source has no ancestor-sibling relation to its target"),
    ("hugr.build.cond_loop.Conditional._update_outputs", "ConditionalError",
     [("case outputs differ from the established ones", [[("L_o == self.parent_op._outputs", False)], [("self.parent_op._outputs == L_o", False)]])],
     [], "cases disagree on their outputs"),
    ("hugr.build.cond_loop.Conditional.add_case", "ConditionalError",
     [("case index outside 0..n-1", [[("0 <= L_i < len(self._case_builders)", False)],
                                      [("L_i < 0", True), ("L_i < len(self._case_builders)", False)],
                                      [("0 <= L_i", False), ("L_i < len(self._case_builders)", False)],
                                      [("L_i in range(len(self._case_builders))", False)]]),
      ("case already built", [[("self._case_builders[L_i][1]", True)]])],
     ["self._case_builders[L_i] = ANY_"], "case index out of range / built twice"),
    ("hugr.build.cond_loop.Conditional.__exit__", "ConditionalError",
     [("some case unbuilt", [[("all((c1 for c0, c1 in self._case_builders))", False)], [("any((not c1 for c0, c1 in self._case_builders))", True)],
                             [("all([c1 for c0, c1 in self._case_builders])", False)], _loop_guard("self._case_builders", _unbuilt)])],
     [], "context left with unbuilt cases"),
    ("hugr.build.cfg.Cfg.branch_exit", "MismatchedExit",
     [("exit row differs from the established one", [[("self._exit_op._cfg_outputs == self._nth_outputs(ANY_)", False)], [("self._nth_outputs(ANY_) == self._exit_op._cfg_outputs", False)]])],
     ["self._exit_op._cfg_outputs = ANY_"], "exit branch disagrees with the established exit type"),
    ("hugr.build.dfg.Function.set_outputs", "ValueError",
     [("wire types differ from the declared outputs", [[("[self._get_dataflow_type(c0) for c0 in L_args] == self.parent_op._outputs", False)],
                                                       [("self._wire_types(L_args) == self.parent_op._outputs", False)],
                                                       [("self.parent_op._outputs == [self._get_dataflow_type(c0) for c0 in L_args]", False)]])],
     ["self._wire_up(self.output_node, L_args)"], "function outputs differ from the declared ones"),
    ("hugr.ops._CallOrLoad.__init__", "NoConcreteFunc",
     [("missing instantiation", [[("instantiation is not None", False)]]),
      ("argument count mismatch", [[("len(signature.params) == len(ANY_)", False)], [("len(ANY_) == len(signature.params)", False)]])],
     ["self.instantiation = instantiation"], "polymorphic function without matching instantiation / argument count"),
    ("hugr.build.dfg.DfBase._get_dataflow_type", "ValueError",
     [("port has no dataflow type", [[("self.hugr.port_type(ANY_) is not None", False)]])], [], "a non-dataflow port used as a wire"),
    ("hugr.build.tracked_dfg.TrackedDfg.tracked_wire", "IndexError",
     [("index untracked or out of range", [[("self.tracked[L_i] is not None", False)]])], [], "an integer that names no tracked wire"),
    ("hugr.ops._sig_port_type", "ValueError", [("the state-order port", [[("L_p.offset == -1", True)], [("-1 == L_p.offset", True)], [("L_p.offset < 0", True)]])], [],
     "the order port (offset -1) used as a typed wire"),
    ("hugr.ops._check_complete", "IncompleteOp", [("value not set", [[("L_v is not None", False)]])], [], "an incomplete operation is serialized"),
    ("hugr.build.dfg.DfBase._fn_sig", "ValueError",
     [("a non-function port", [[("isinstance(ANY_.port_kind(ANY_), tys.FunctionKind)", False)]])], [], "calling / loading something whose port 0 is not a function"),
]


GUARD_CALLERS = {
    "hugr.build.dfg.DfBase._fn_sig": ["hugr.build.dfg.DfBase.call", "hugr.build.dfg.DfBase.load_function"],
    "hugr.ops._sig_port_type": ["hugr.ops.DataflowOp.port_type"],
}


def _exc_name(p) -> str:
    e = p.value
    if e is None:
        return ""
    e = e.func if isinstance(e, ast.Call) else e
    return u(e).split(".")[-1]


def _cfg_fallback_rule(ctx, q):
    """the NoSiblingAncestor handler of Block._wire_up_port as a search loop (hv/genloop.py: any way of writing the walk -- while loop,
    generator helper consumed by any(..) / `in` / a for-else -- gives the same per-iteration outcomes over the walk's state s0):
      s0 starts at the parent of the source node;  s0 == the block's CFG -> the walk ends and the link is added;
      s0 is None or s0 == the root -> NotInSameCfg;   otherwise s0 becomes the parent of s0"""
    from ..genloop import NotASearchLoop, search_loop
    cf = ctx.cfn(q, subst=False)
    tries = [s_ for s_ in cf.body if isinstance(s_, ast.Try)]
    if len(tries) == 1 and len(tries[0].handlers) == 1:
        tr = tries[0]
        prefix = [s_ for s_ in cf.body[: cf.body.index(tr)] if isinstance(s_, (ast.Assign, ast.AnnAssign))]
        hb = list(tr.handlers[0].body)
    else:
        # the ordinary wiring with a hook for "no sibling ancestor": as the block runs it (base method and overridden hook seen through),
        # the fallback is the branch taken when the sibling-ancestor is None
        cf = ctx.cfn(q, subst=False, supers=True)
        from ..tmpl import T as _T, tmatch as _tm
        branch = None
        for i_, s_ in enumerate(cf.body):
            if isinstance(s_, ast.If) and s_.orelse:
                e_ = _tm(s_.test, _T("L_a is not None")) or _tm(s_.test, _T("L_a is None"))
                bound_ = {u(x.targets[0]): u(x.value) for x in cf.body[:i_] if isinstance(x, ast.Assign) and isinstance(x.targets[0], ast.Name)}
                if e_ is not None and bound_.get(e_["L_a"], "").startswith("_ancestral_sibling("):
                    branch = (i_, s_.orelse if "is not None" in u(s_.test) else s_.body)
        if branch is None:
            return False, "neither a NoSiblingAncestor handler nor a branch for a missing sibling-ancestor was found"
        prefix = [s_ for s_ in cf.body[: branch[0]] if isinstance(s_, (ast.Assign, ast.AnnAssign))]
        hb = list(branch[1])
        # (the refusal raised and caught on the spot, to chain NotInSameCfg from it: the handler is the fallback)
        if len(hb) == 1 and isinstance(hb[0], ast.Try) and len(hb[0].handlers) == 1 and len(hb[0].body) == 1 and isinstance(hb[0].body[0], ast.Raise) \
                and "NoSiblingAncestor" in u(hb[0].body[0]) and "NoSiblingAncestor" in u(hb[0].handlers[0].type):
            hb = list(hb[0].handlers[0].body)
        # the link shared with the ordinary branch, after the choice
        hb = hb + [s_ for s_ in cf.body[branch[0] + 1:] if any(isinstance(n, ast.Call) and call_name(n) == "add_link" for n in ast.walk(s_))]
        other = cf.body[branch[0]].body if branch[1] is cf.body[branch[0]].orelse else cf.body[branch[0]].orelse
        if any(isinstance(n, ast.Call) and call_name(n) == "add_link" for s_ in other for n in ast.walk(s_)) and len(hb) and \
                any(isinstance(n, ast.Call) and call_name(n) == "add_link" for s_ in cf.body[branch[0] + 1:] for n in ast.walk(s_)):
            return False, "the link is added twice on the ordinary branch"
    # the link is added after the walk, nowhere else
    try:
        sl = search_loop(prefix + hb + [ast.Return(value=ast.Constant("linked_"))])
    except NotASearchLoop as e:
        return False, f"the handler is not a single search loop ({e})"
    if len(sl.state) != 1:
        return False, f"walk state {sorted(sl.names.values())}"
    init = u(sl.state["s0"])
    srcp = [a_.arg for a_ in cf.args.args][3] if len(cf.args.args) > 3 else "p"
    # (locals of the prefix written out: the source port may have been named first)
    from ..norm import _Subst as _Sb
    import copy as _cp
    env_ = {}
    for x in prefix:
        if isinstance(x, ast.Assign) and isinstance(x.targets[0], ast.Name):
            env_[x.targets[0].id] = _Sb(dict(env_)).visit(_cp.deepcopy(x.value))
    init = u(_Sb(dict(env_)).visit(_cp.deepcopy(sl.state["s0"])))
    # the state is the candidate container itself (starting at the source's parent), or the node below it (starting at the source)
    if init == f"self.hugr[{srcp}.out_port().node].parent":
        C = "s0"
    elif init == f"{srcp}.out_port().node":
        C = "self.hugr[s0].parent"
    else:
        return False, f"the walk starts at {init}"
    cfg = "self.hugr[self.parent_node].parent"
    found = climb = refused_none = refused_root = False
    for it in sl.iters:
        at_cfg = [k for t, k in it.tests if u(t) in (f"{cfg} == {C}", f"{C} == {cfg}")] + [not k for t, k in it.tests if u(t) in (f"{cfg} != {C}", f"{C} != {cfg}")]
        is_none = [not k for t, k in it.tests if u(t) == f"{C} is not None"] + [k for t, k in it.tests if u(t) == f"{C} is None"]
        at_root = [k for t, k in it.tests if u(t) in (f"{C} == self.hugr.root", f"self.hugr.root == {C}")]
        if it.kind == "return":
            # the walk ended: only at the CFG, and the link follows
            links = [e for e in getattr(it, "effects", [])]
            if not (at_cfg and at_cfg[0]) or u(it.value) != "'linked_'":
                return False, "the walk succeeds without having reached the CFG: " + it.describe()[:160]
            found = True
        elif it.kind == "raise":
            if "NotInSameCfg" not in u(it.value):
                return False, "another exception: " + u(it.value)[:80]
            if at_cfg and at_cfg[0]:
                return False, "refused although the CFG was reached"
            if is_none and is_none[0]:
                refused_none = True
            elif at_root and at_root[0]:
                refused_root = True
            else:
                return False, "refused on " + it.describe()[:160]
        else:
            if (at_cfg and at_cfg[0]) or (is_none and is_none[0]) or (at_root and at_root[0]) or not (at_cfg and is_none and at_root):
                return False, "climbs without having excluded the CFG, None and the root: " + it.describe()[:160]
            if u(it.update.get("s0", ast.Constant(None))) != "self.hugr[s0].parent":
                return False, "climbs to " + u(it.update.get("s0", ast.Constant(None)))
            climb = True
    if not (found and climb and refused_none and refused_root):
        return False, f"found={found} climb={climb} refused at None={refused_none} at the root={refused_root}"
    # the link is added after the loop (suffix of the handler), never inside it or before
    hl = [i for i, s_ in enumerate(hb) if isinstance(s_, ast.While)]
    links_after = [s_ for s_ in hb[hl[0] + 1:] if any(isinstance(n, ast.Call) and call_name(n) == "add_link" for n in ast.walk(s_))]
    links_else = [n for s_ in hb[: hl[0] + 1] for n in ast.walk(s_) if isinstance(n, ast.Call) and call_name(n) == "add_link"]
    if len(links_after) != 1 or links_else:
        return False, "the link is not added exactly once, after the walk"
    return True, ""


def call_arity_rule(ctx, rule="C13.R1") -> None:
    """Call / LoadFunc of a polymorphic function: every way of completing the constructor has compared the number of type arguments
    it files with the number of type parameters (omitted arguments count as none)"""
    import re
    q = "hugr.ops._CallOrLoad.__init__"
    fn, mod, _ = ctx.locate(q)
    ps = ctx.paths(q)
    sig = fn.args.args[1].arg
    done = [p for p in ps if p.kind != "raise"]
    bad = None
    for p in done:
        mono = p.has_test(f"len({sig}.params) == 0", True) is not None or p.has_test(f"len({sig}.params) != 0", False) is not None \
            or p.has_test(f"{sig}.params", False) is not None or p.has_test(f"not {sig}.params", True) is not None or p.has_test(f"len({sig}.params) > 0", False) is not None
        if mono:
            continue
        eq = False
        for t, k in p.tests:
            tt = u(t)
            if f"len({sig}.params)" in tt and tt.count("len(") >= 2 and isinstance(t, ast.Compare) and len(t.ops) == 1:
                if (isinstance(t.ops[0], ast.Eq) and k) or (isinstance(t.ops[0], ast.NotEq) and not k):
                    eq = True
        if not eq:
            bad = p
            break
    ctx.check(bool(done) and bad is None, rule, "_CallOrLoad.__init__: type arguments counted against type parameters", mod.path, fn.lineno,
              "a Call / LoadFunc of a polymorphic function must refuse (NoConcreteFunc) a number of type arguments different from the number of type "
              "parameters -- also when the arguments are omitted" + (f" [completes without the comparison: {bad.describe()[:160]}]" if bad is not None else ""), fn)


def r1_guards(ctx) -> None:
    prog = ctx.program
    from ..tmpl import T, tmatch
    # a guard stated on a private helper is stated on the helper's public callers (helper seen through) when the helper is gone:
    # renaming or moving it does not move the guard out of the builders' way
    rows = []
    for qual, exc, alts, effects, what in GUARDS:
        try:
            ctx.locate(qual)
            rows.append((qual, exc, alts, effects, what))
        except Exception:
            if qual not in GUARD_CALLERS:
                raise
            for q2 in GUARD_CALLERS[qual]:
                rows.append((q2, exc, alts, effects, what))
    for qual, exc, alts, effects, what in rows:
        fn, mod, cls = ctx.locate(qual)
        ps = ctx.paths(qual, supers=True)
        short = qual.split(".", 1)[1]
        rs = [p for p in ps if p.kind == "raise" and _exc_name(p) == exc]
        if not rs:
            ctx.fail("C13.R1", f"{short}: raises {exc}", mod.path, fn.lineno,
                     f"{short} no longer raises {exc}: {what} would be accepted silently", fn)
            continue
        for label, options in alts:
            sat = False
            for opt in options:
                if callable(opt):
                    sat = sat or opt(rs)
                    continue
                # "refused when": the test is taken that way on some path, and every path taking it that way ends in the exception
                def refused(t, taken):
                    hit = [p for p in ps if p.has_test(t, taken) is not None]
                    return bool(hit) and all(p.kind == "raise" and _exc_name(p) == exc for p in hit)
                sat = sat or all(refused(t, taken) for t, taken in opt)
            shown = " | ".join(" and ".join(("" if k else "not ") + t for t, k in o) for o in options if not callable(o))
            ctx.check(sat, "C13.R1", f"{short}: {exc} when {label}", mod.path, fn.lineno,
                      f"no raise of {exc} in {short} is controlled by the test `{shown}`: {what} is not refused", fn,
                      detail=f"{len(rs)} raising path(s)", found="; ".join(p.describe() for p in rs)[:300])
        # check-before-effect: on no path that ends in the refusal has the guarded effect already happened,
        # and the effect exists on some accepted path
        if effects:
            def has_eff(p):
                return [e for f in effects for e in p.find_effect(f)]
            done = [p for p in ps if p.kind != "raise" and has_eff(p)]
            ctx.check(bool(done), "C13.R1", f"{short}: effect site", mod.path, fn.lineno, f"the guarded effect ({effects}) was not found", fn)
            bad = [(p, has_eff(p)) for p in rs if has_eff(p)]
            where = bad[0][1][0][1] if bad else None
            ctx.check(not bad, "C13.R1", f"{short}: check before effect", mod.path, getattr(where, "lineno", fn.lineno),
                      f"in {short} the effect `{u(where)[:70] if bad else ''}` can happen before the {exc} check: the inconsistent construction is "
                      "recorded first and refused afterwards (or not at all)", where, detail=f"{len(done)} accepting path(s) perform the effect after the checks")
    # ---- Block._wire_up_port: NotInSameCfg
    q = "hugr.build.cfg.Block._wire_up_port"
    fn, mod, cls = ctx.locate(q)
    ps = ctx.paths(q)
    exc_tests = [u(t) for p in ps for t, k in p.tests if isinstance(t, ast.Call) and u(t.func) == "except_"]
    ok = bool(exc_tests) and set(exc_tests) == {"except_(NoSiblingAncestor)"}
    if not exc_tests:
        # no handler at all: the fallback is a hook of the base method, reached exactly where the base would refuse with NoSiblingAncestor
        # (the sibling-ancestor is None): every path that walks to the CFG or refuses with NotInSameCfg has taken that branch
        ps_b = ctx.paths(q, supers=True)
        fb = [p for p in ps_b if (p.kind == "raise" and "NotInSameCfg" in p.value_text()) or any(isinstance(e_, ast.While) for e_ in p.effects)]
        ok = bool(fb) and all(any((not k) and isinstance(t, ast.Compare) and isinstance(t.ops[0], ast.IsNot) and u(t.left).startswith("_ancestral_sibling(") for t, k in p.tests) for p in fb)
        exc_tests = ["<hook for a missing sibling-ancestor>"] if ok else []
    ctx.check(ok, "C13.R1", "build.cfg.Block._wire_up_port: falls back only on NoSiblingAncestor", mod.path, fn.lineno,
              "the dominator-edge fallback may only catch NoSiblingAncestor from the ordinary wiring", fn, found=str(sorted(set(exc_tests))))
    if ok:
        ok2, why = _cfg_fallback_rule(ctx, q)
        ctx.check(ok2, "C13.R1", "build.cfg.Block._wire_up_port: NotInSameCfg before the fallback link", mod.path, fn.lineno,
                  "the fallback must climb from the source's parent to the enclosing CFG, raise NotInSameCfg when it reaches None or the root "
                  "first, and add the link only after that walk succeeded" + (f" [{why}]" if why else ""), fn)
    # ---- every way of wiring a port up answers with the CHECKED type of the source (a port that carries no value is refused there):
    #      also on the dominator-edge fallback, where the ordinary wiring did not complete
    for q_ in ("hugr.build.dfg.DfBase._wire_up_port", "hugr.build.cfg.Block._wire_up_port"):
        fn_, mod_, cls_ = ctx.locate(q_)
        done = [p for p in ctx.paths(q_, supers=True) if p.kind in ("return", "fall")]
        # (the answer itself is the checked type, or the check was made by a statement of this path outside any try block)
        bad = [p for p in done if not (p.kind == "return" and p.value is not None and any(
            isinstance(c_, ast.Call) and call_name(c_) == "_get_dataflow_type" for c_ in ast.walk(p.value)))
            and not any(isinstance(c_, ast.Call) and call_name(c_) == "_get_dataflow_type" for e_ in p.effects if not isinstance(e_, ast.Try) for c_ in ast.walk(e_))]
        ctx.check(bool(done) and not bad, "C13.R1", f"{q_.split('.', 1)[1]}: the source port is type-checked on every completing path", mod_.path, fn_.lineno,
                  "a wire whose source port carries no value (a Const / function definition port, an order port) must be refused with ValueError "
                  "by _get_dataflow_type on every path that wires it up" + (f" [path {bad[0].describe()[:200]}]" if bad else ""), bad[0].node if bad and bad[0].node is not None else fn_)
    # ---- DfBase.add: integer wire in an untracked builder
    q = "hugr.build.dfg.DfBase.add"
    fn_o, mod, cls = ctx.locate(q)
    closures = {n.name for n in ast.walk(fn_o) if isinstance(n, ast.FunctionDef) and n is not fn_o}
    fn = ctx.cfn(q, inline=closures)
    cp = fn_o.args.args[1].arg
    # canonical body: refusing helpers are conditional expressions with raise_(exc) (hv/canon.py); the sequence add_op receives is the
    # command's arguments with every int refused -- or a refusing loop over them comes first
    from ..tmpl import tfind
    checked = f"(raise_(ValueError(ANY_)) if isinstance(c0, int) else c0 for c0 in {cp}.incoming)"
    ok = bool(tfind(fn, T(f"self.add_op(E_op, *{checked}, metadata=E_m)")))
    if not ok:
        ps = ctx.paths(q, inline=closures)
        refusing = [p for p in ps if p.kind == "raise" and "ValueError" in p.value_text() and
                    any(tmatch(t, T("isinstance(L_w, int)")) is not None and k for t, k in p.tests)]
        adding = [p for p in ps if p.kind != "raise" and (p.find_effect("self.add_op(ANY_)") or "self.add_op(" in p.value_text())]
        ok = bool(refusing) and bool(adding) and not any(p.find_effect("self.add_op(ANY_)") for p in refusing) and all(
            any(isinstance(e, ast.For) and f"{cp}.incoming" in u(e.iter) and any(isinstance(x, ast.Raise) for x in ast.walk(e)) for e in p.effects) for p in adding)
    ctx.check(ok, "C13.R1", "build.dfg.DfBase.add: ValueError for integer wires", mod.path, fn_o.lineno,
              "a command holding integer indices given to an untracked builder must raise ValueError before the node is wired", fn_o)


def r2_complete(ctx) -> None:
    """raw reads of optional `_x` fields on paths reachable from _to_serial"""
    mod = ctx.program.module("hugr.ops")
    n = 0
    for c in mod.classes.values():
        opt = [f.name for f in c.fields if f.name.startswith("_") and ("None" in f.annotation)]
        if not opt or "_to_serial" not in c.methods and c.find_method("_to_serial")[1] is None:
            continue
        # properties that guard each field
        guards = {}
        visible = {}
        for k_ in reversed(c.mro):      # (an accessor shared through a mixin guards the field just the same)
            visible.update(k_.methods)
        for name, m in visible.items():
            rb = real_body(m)
            if len(rb) == 1 and isinstance(rb[0], ast.Return) and isinstance(rb[0].value, ast.Call) and u(rb[0].value.func) == "_check_complete" \
                    and len(rb[0].value.args) == 2 and u(rb[0].value.args[1]).startswith("self._"):
                guards[u(rb[0].value.args[1])[5:]] = name
        for f in opt:
            ctx.check(f in guards, "C13.R2", f"hugr.ops.{c.name}.{f}: guarded accessor", mod.path, c.node.lineno,
                      f"optional field {f} of {c.name} has no accessor of the form `return _check_complete(self, self.{f})`", c.node,
                      detail=f"through {guards.get(f)}")
        # walk from _to_serial
        k, ser = c.find_method("_to_serial")
        if ser is None:
            continue
        seen = set()
        todo = ["_to_serial"]
        while todo:
            name = todo.pop()
            if name in seen:
                continue
            seen.add(name)
            kk, m = c.find_method(name)
            if m is None or name in guards.values():
                continue
            for x in ast.walk(m):
                if isinstance(x, ast.Attribute) and isinstance(x.value, ast.Name) and x.value.id == "self":
                    if x.attr in opt and isinstance(x.ctx, ast.Load):
                        n += 1
                        ctx.fail("C13.R2", f"hugr.ops.{c.name}.{name}: raw read of {x.attr}", mod.path, x.lineno,
                                 f"{c.name}.{name} is reachable from _to_serial and reads the optional field {x.attr} directly: an incomplete operation is "
                                 "serialized with None instead of raising IncompleteOp", x)
                    elif c.find_method(x.attr)[1] is not None:
                        todo.append(x.attr)
        ctx.ok("C13.R2", f"hugr.ops.{c.name}: serialization path", f"{len(seen)} methods reachable from _to_serial use the guarded accessors")


def r3_two_sided(ctx) -> None:
    """stated over path summaries (helpers seen through, locals substituted): on every path that does not raise, evaluates
    seq[i] for a parameter i and has tested i against len(seq) from above, the tests on the path also bound i from below
    (i >= 0, or i >= -len(seq) where negative indexing is meant).  Decided with linear constraints (hv/lin.py)."""
    from ..core import AnalysisError
    from ..canon import NoCanon
    from ..lin import Lin, constraint, implies
    from ..paths import PathBound, summaries
    prog = ctx.program
    n = 0
    for mn, m in prog.modules.items():
        if not (mn.startswith("hugr.build") or mn in ("hugr.ops", "hugr.hugr.node_port")):
            continue
        fns = [(None, x) for x in m.tree.body if isinstance(x, ast.FunctionDef)]
        for c in [x for x in m.tree.body if isinstance(x, ast.ClassDef)]:
            fns += [(c, x) for x in c.body if isinstance(x, ast.FunctionDef)]
        for c, fn in fns:
            params = {a.arg for a in fn.args.args + fn.args.kwonlyargs} - {"self", "cls"}
            if not params or not any(isinstance(x, ast.Call) and u(x.func) == "len" for x in ast.walk(fn)) or not any(isinstance(x, ast.Subscript) for x in ast.walk(fn)):
                continue
            qual = f"{mn}.{c.name + '.' if c else ''}{fn.name}"
            try:
                paths = summaries(ctx.cfn(qual, subst=False).body, 256)
            except (PathBound, NoCanon, AnalysisError) as e:
                ctx.note(f"C13.R3 {qual}: not summarised ({str(e)[:80]})")
                continue
            sites = {}
            for p in paths:
                if p.kind == "raise":
                    continue
                nodes = [x for e in list(p.effects) + [t for t, _ in p.tests] + ([p.value] if p.value is not None else []) for x in ast.walk(e)]
                for sub in nodes:
                    if not (isinstance(sub, ast.Subscript) and isinstance(sub.slice, ast.Name) and sub.slice.id in params):
                        continue
                    subj, seq = sub.slice.id, u(sub.value)

                    def atom(e, subj=subj, seq=seq):
                        if isinstance(e, ast.Name) and e.id == subj:
                            return Lin.sym("i")
                        if isinstance(e, ast.Call) and u(e.func) == "len" and len(e.args) == 1 and u(e.args[0]) == seq:
                            return Lin.sym("n")
                        return None
                    cons = []
                    for t, k in p.tests:
                        parts = [(t, k)]
                        if isinstance(t, ast.Compare) and len(t.ops) > 1 and k:
                            xs = [t.left] + list(t.comparators)
                            parts = [(ast.Compare(left=xs[j], ops=[t.ops[j]], comparators=[xs[j + 1]]), True) for j in range(len(t.ops))]
                        if isinstance(t, ast.Compare) and len(t.ops) == 1 and isinstance(t.ops[0], (ast.In, ast.NotIn)) and u(t.comparators[0]) == f"range(len({seq}))" \
                                and isinstance(t.left, ast.Name) and t.left.id == subj and k == isinstance(t.ops[0], ast.In):
                            cons += [Lin.sym("i"), Lin.sym("n") - Lin.sym("i") - 1]
                            continue
                        for t2, k2 in parts:
                            cs = constraint(t2, k2, atom)
                            if cs:
                                cons += cs
                    upper = implies(cons, Lin.sym("n") - Lin.sym("i") - 1)
                    if not upper:
                        continue
                    lower = implies(cons, Lin.sym("i")) or implies(cons, Lin.sym("i") + Lin.sym("n"))
                    key = (subj, seq)
                    prev = sites.get(key)
                    sites[key] = (prev[0] and lower if prev else lower, p if not lower and (prev is None or prev[0]) else (prev[1] if prev else p))
            for (subj, seq), (ok, p) in sorted(sites.items()):
                n += 1
                ctx.check(ok, "C13.R3", f"{mn}.{fn.name}: range guard on {subj}", m.path, fn.lineno,
                          f"`{subj}` is only bounded above before it indexes `{seq}`: a negative index passes the guard and Python's negative "
                          "indexing silently selects an element from the end instead of raising the documented error", fn, detail=p.describe()[:300])
    ctx.stats["C13.R3 range guards followed by a subscript"] = n


def r5_exit_never_swallows(ctx) -> None:
    """a truthy answer of __exit__ suppresses the exception that is leaving the `with` block: every refusal raised while building
    inside it would vanish and building would go on"""
    from ..canon import NoCanon
    from ..core import AnalysisError
    prog = ctx.program
    for mn, m in sorted(prog.modules.items()):
        if not mn.startswith("hugr.build"):
            continue
        for c in m.classes.values():
            fn = c.methods.get("__exit__")
            if fn is None:
                continue
            try:
                ps = ctx.paths(f"{c.qualname}.__exit__")
            except (AnalysisError, NoCanon) as e:
                ctx.broken(f"{c.qualname}.__exit__ not summarised: {e}")
            bad = [p for p in ps if p.kind == "return" and p.value is not None and not (isinstance(p.value, ast.Constant) and p.value.value in (None, False))]
            ctx.check(not bad, "C13.R5", f"{c.qualname}.__exit__: never swallows", m.path, getattr(bad[0].node, "lineno", fn.lineno) if bad else fn.lineno,
                      f"{c.name}.__exit__ can answer `{bad[0].value_text() if bad else ''}`: a true answer suppresses the exception in flight, so a builder "
                      "refusal raised inside the `with` block is swallowed and the inconsistent construction continues", bad[0].node if bad and bad[0].node is not None else fn,
                      detail="returns None / False on every path")


def run(ctx) -> None:
    ctx.rule("C13.R1", "guard table: documented exception raised, reachable, controlled by a test on the named quantities, checked before the effect", floor=20)
    ctx.rule("C13.R2", "optional op fields are read through _check_complete accessors on every path reachable from _to_serial", floor=15)
    ctx.rule("C13.R3", "index range guards followed by a subscript bound the index on both sides", floor=1)
    r1_guards(ctx)
    call_arity_rule(ctx)
    from .c01 import r6_function_boundary
    r6_function_boundary(ctx, rule="C13.R1")     # "a wire's source has no ancestor-sibling relation to its target" includes wires into a function body
    r2_complete(ctx)
    r3_two_sided(ctx)
    ctx.rule("C13.R4", "Call: port kinds read the instantiated signature, the function port is an *input* (shared with C06.R4): `call(n)` / `load_function(n)` refuse a node whose output is not a function by asking its port kind", floor=3)
    from .c06 import r4_call
    from ..nf import NF
    with ctx.as_rule(C06_R4="C13.R4"):
        r4_call(ctx, NF(ctx.program))
    ctx.rule("C13.R5", "builder context managers never swallow an exception: __exit__ answers None / False on every path", floor=3)
    r5_exit_never_swallows(ctx)
    ctx.rule("C13.R6", "what the builders ask to refuse a non-dataflow wire: Hugr.port_type answers a type for dataflow ports only (shared with C06.R3)", floor=12)
    from .c06 import r3_port_kinds
    from ..nf import NF as _NF
    with ctx.as_rule(C06_R3="C13.R6"):
        r3_port_kinds(ctx, _NF(ctx.program))
    from .. import lints
    lints.arm(ctx)



# ---------------------------------------------------------------------------------------
D = "hugr-py/src/hugr/build/dfg.py"
CF = "hugr-py/src/hugr/build/cfg.py"
CL = "hugr-py/src/hugr/build/cond_loop.py"
TD = "hugr-py/src/hugr/build/tracked_dfg.py"
O = "hugr-py/src/hugr/ops.py"
MUTANTS = [
    dict(name="no-sibling-check-dropped", file=D, expect="C13.R1", old="        if node_ancestor is None:\n            raise NoSiblingAncestor(src.node.idx, node.idx)\n", new=""),
    dict(name="link-before-sibling-check", file=D, expect="C13.R1",
         old="        if node_ancestor is None:\n            raise NoSiblingAncestor(src.node.idx, node.idx)\n        if node_ancestor != node:\n            self.add_state_order(src.node, node_ancestor)\n        self.hugr.add_link(src, node.inp(offset))",
         new="        self.hugr.add_link(src, node.inp(offset))\n        if node_ancestor is None:\n            raise NoSiblingAncestor(src.node.idx, node.idx)\n        if node_ancestor != node:\n            self.add_state_order(src.node, node_ancestor)"),
    dict(name="not-in-cfg-unchecked", file=CF, expect="C13.R1", old="                if src_parent is None or src_parent == self.hugr.root:\n                    raise NotInSameCfg(src.node.idx, node.idx) from e\n", new="                if src_parent is None:\n                    break\n"),
    dict(name="fallback-catches-all", file=CF, expect="C13.R1", old="        except NoSiblingAncestor as e:", new="        except Exception as e:"),
    dict(name="walk-ignores-root", file=CF, expect="C13.R1", old="                if src_parent is None or src_parent == self.hugr.root:", new="                if src_parent is None:"),
    dict(name="walk-starts-at-source", file=CF, expect="C13.R1", old="        src_parent = self.hugr[src.node].parent", new="        src_parent = src.node"),
    dict(name="link-before-walk", file=CF, expect="C13.R1",
         old="            while cfg_node != src_parent:", new="            self.hugr.add_link(src, node.inp(offset))\n            while cfg_node != src_parent:"),
    dict(name="case-mismatch-accepted", file=CL, expect="C13.R1", old="            if outputs != self.parent_op._outputs:\n                msg = \"Mismatched case outputs.\"\n                raise ConditionalError(msg)", new="            pass"),
    dict(name="case-built-twice", file=CL, expect="C13.R1", old="        if built:\n            msg = f\"Case {case_id} already built.\"\n            raise ConditionalError(msg)\n", new=""),
    dict(name="case-marked-before-check", file=CL, expect="C13.R1",
         old="        case, built = self._case_builders[case_id]\n        if built:\n            msg = f\"Case {case_id} already built.\"\n            raise ConditionalError(msg)\n        self._case_builders[case_id] = (case, True)",
         new="        case, built = self._case_builders[case_id]\n        self._case_builders[case_id] = (case, True)\n        if built:\n            msg = f\"Case {case_id} already built.\"\n            raise ConditionalError(msg)"),
    dict(name="exit-with-unbuilt-cases", file=CL, expect="C13.R1", old="        if not all(built for _, built in self._case_builders):\n            msg = \"All cases must be added before exiting context.\"\n            raise ConditionalError(msg)\n", new=""),
    dict(name="exit-type-overwritten", file=CF, expect="C13.R1", old="            if self._exit_op._cfg_outputs != out_types:\n                raise MismatchedExit(src.node.idx)", new="            self._exit_op._cfg_outputs = out_types"),
    dict(name="declared-outputs-unchecked", file=D, expect="C13.R1", old="            if arg_types != self.parent_op._outputs:", new="            if len(arg_types) != len(self.parent_op._outputs):"),
    dict(name="declared-outputs-checked-late", file=D, expect="C13.R1",
         old="        if self.parent_op._outputs is not None:\n            arg_types = [self._get_dataflow_type(w) for w in args]\n            if arg_types != self.parent_op._outputs:\n                error_message = (\n                    f\"The function has fixed output type {self.parent_op._outputs}, \"\n                    f\"but was given output wires with types {arg_types}.\"\n                )\n                raise ValueError(error_message)\n\n        super().set_outputs(*args)",
         new="        declared = self.parent_op._outputs\n        super().set_outputs(*args)\n        if declared is not None:\n            arg_types = [self._get_dataflow_type(w) for w in args]\n            if arg_types != declared:\n                error_message = \"mismatch\"\n                raise ValueError(error_message)"),
    dict(name="missing-instantiation-defaulted", file=O, expect="C13.R1", old="            if instantiation is None:\n                msg = \"Missing instantiation for polymorphic function.\"\n                raise NoConcreteFunc(msg)", new="            if instantiation is None:\n                instantiation = signature.body"),
    dict(name="type-arg-count-unchecked", file=O, expect="C13.R1", old="            if len(signature.params) != len(type_args):\n                msg = \"Mismatched number of type arguments.\"\n                raise NoConcreteFunc(msg)\n", new=""),
    dict(name="non-function-accepted", file=D, expect="C13.R1", old="            case _:\n                msg = \"Expected 'func' to be a function\"\n                raise ValueError(msg)", new="            case _:\n                signature = tys.PolyFuncType.empty()"),
    dict(name="non-dataflow-port-none", file=D, expect="C13.R1", old="        if ty is None:\n            msg = f\"Port {port} is not a dataflow port.\"\n            raise ValueError(msg)\n        return ty", new="        return ty  # type: ignore[return-value]"),
    dict(name="int-wires-passed-through", file=D, expect="C13.R1", old="            (w if not isinstance(w, int) else raise_no_ints()) for w in com.incoming", new="            w for w in com.incoming  # type: ignore[misc]"),
    dict(name="incomplete-op-serialized", file=O, expect="C13.R1", old="    if v is None:\n        raise IncompleteOp(op)\n    return v", new="    return v  # type: ignore[return-value]"),
    dict(name="raw-read-in-serializer", file=O, expect="C13.R2", old="            outputs=ser_it(self.outputs),\n        )\n\n    def outer_signature(self) -> tys.FunctionType:\n        return self.signature\n\n    def nth_inputs",
         new="            outputs=ser_it(self._outputs or []),\n        )\n\n    def outer_signature(self) -> tys.FunctionType:\n        return self.signature\n\n    def nth_inputs"),
    dict(name="raw-read-via-property", file=O, expect="C13.R2", old="        return tys.FunctionType(self.inputs, self.outputs, self._extension_delta)", new="        return tys.FunctionType(self.inputs, self._outputs or [], self._extension_delta)"),
    dict(name="one-sided-range-again", file=CL, expect="C13.R3", old="        if not 0 <= case_id < len(self._case_builders):", new="        if case_id >= len(self._case_builders):"),
]
TWINS = [
    dict(name="twin-range-or-form", file=CL, old="        if not 0 <= case_id < len(self._case_builders):", new="        if case_id < 0 or case_id >= len(self._case_builders):"),
    dict(name="twin-early-return", file=CL, old="        if self.parent_op._outputs is None:\n            self.parent_op._outputs = outputs\n            self.parent_node = self.hugr._update_node_outs(\n                self.parent_node, len(outputs)\n            )\n        else:\n            if outputs != self.parent_op._outputs:\n                msg = \"Mismatched case outputs.\"\n                raise ConditionalError(msg)",
         new="        if self.parent_op._outputs is None:\n            self.parent_op._outputs = outputs\n            self.parent_node = self.hugr._update_node_outs(\n                self.parent_node, len(outputs)\n            )\n            return\n        if outputs != self.parent_op._outputs:\n            msg = \"Mismatched case outputs.\"\n            raise ConditionalError(msg)"),
]


def thorough(ctx):
    from ..selftest import run_battery
    return run_battery(ctx, MUTANTS, TWINS)
