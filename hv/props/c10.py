"""C10 -- extension definitions round-trip; the bundled standard library matches the specification.

R1 CODEC between hugr/ext.py and _serialization/extension.py; R2 owner invariant of Extension;
R3 bundled files = specification files; R4 typed std helpers denote existing definitions with matching parameters.
"""
from __future__ import annotations

import ast
import hashlib
import json

from .. import codec
from ..model import Class, calls_in, call_name, kwarg, real_body, u, walk_no_nested
from ..nf import NF, Opaque, attr, ctor_args, find_calls, show, sym
from ..stdlib import Std

EXT = "hugr.ext"
SEXT = "hugr._serialization.extension"


def simp(t):
    """decorations that C10.R2 establishes on the original object are idempotent on the decoded one"""
    if not isinstance(t, tuple) or not t:
        return t
    t = tuple(simp(x) if isinstance(x, tuple) else x for x in t)
    if t[0] == "call" and t[1] == ".with_runtime_reqs" and len(t[2]) == 2:
        return t[2][0]
    if t[0] == "ite" and t[2] == t[1] and t[3] == ("const", None):
        return t[1]
    if t[0] == "ite" and t[3] == ("const", None) and t[2] == ("dec", ("enc", t[1])):
        return t[1]
    if t[0] == "op" and t[1] == "Or" and len(t[2]) == 2 and t[2][1] in (("dict", ()), ("list", ()), ("call", "dict", (), ())):
        return t[2][0]
    if t[0] == "call" and t[1] in (".add_type_def", ".add_op_def", ".add_extension_value") and len(t[2]) == 2:
        return t[2][1]
    return t


def unguard(nf, t, env):
    """`f(T) if T else None` with T = (A if c else None)  ==>  (f(A) if c else None), re-simplified"""
    from ..nf import subst
    if isinstance(t, tuple) and t and t[0] == "ite" and t[3] == ("const", None) and t[1][0] == "ite" and t[1][3] == ("const", None):
        c, a = t[1][1], t[1][2]
        inner = nf.simplify(subst(t[2], t[1], a), env)
        return ("ite", c, inner, ("const", None))
    # `f(T) if c else None` with T = (A if c else None), the guard taken once on the way in: under c, T is A
    if isinstance(t, tuple) and t and t[0] == "ite" and t[3] == ("const", None):
        from ..nf import _assume
        inner = nf.simplify(_assume(t[2], t[1], True), env)
        return ("ite", t[1], inner, ("const", None))
    return t


def r1_bounds_codec(ctx, nf) -> None:
    """forward CODEC of the two kinds of type-definition bound (also what C07 needs of the extension codec)"""
    em = ctx.program.module(EXT)
    for cname in ("ExplicitBound", "FromParamsBound"):
        c = em.classes[cname]
        probs, desc = codec.forward(nf, c)
        k, m = c.find_method("_to_serial")
        if not probs:
            ctx.ok("C10.R1", c.qualname, desc)
        for p in probs:
            ctx.fail("C10.R1", c.qualname + (f".{p.field}" if p.field else ""), c.module.path, m.lineno, p.msg, m, expected=p.expected, found=p.found)


def r1_codec(ctx, nf) -> None:
    prog = ctx.program
    em = prog.module(EXT)
    s = sym("self")
    r1_bounds_codec(ctx, nf)
    for cname in ("FixedHugr",):
        c = em.classes[cname]
        probs, desc = codec.forward(nf, c)
        k, m = c.find_method("_to_serial")
        if not probs:
            ctx.ok("C10.R1", c.qualname, desc)
        for p in probs:
            ctx.fail("C10.R1", c.qualname + (f".{p.field}" if p.field else ""), c.module.path, m.lineno, p.msg, m, expected=p.expected, found=p.found)
    table = {
        "TypeDef": (["name", "description", "params", "bound"], ".add_type_def"),
        "OpDef": (["name", "description", "misc", "lower_funcs"], ".add_op_def"),
        "ExtensionValue": (["name", "val"], ".add_extension_value"),
    }
    for cname, (fields, adder) in table.items():
        c = em.classes[cname]
        k, m = c.find_method("_to_serial")
        try:
            ser, env = nf.method_nf(c, "_to_serial")
            raw = nf.mk_dec(ser, env)
        except Opaque as e:
            ctx.broken(f"{c.qualname} codec not normalisable: {e}")
        # the decoder must register the definition with the extension being decoded (owner back-reference)
        ctx.check(raw[0] == "call" and raw[1] == adder and raw[2][0] == sym("extension"), "C10.R1", f"{c.qualname}: re-attached", c.module.path, m.lineno,
                  f"the decoded {cname} must be registered through extension{adder}(...) so that it reports its owner", m, found=show(raw)[:200])
        back = simp(raw)
        if back == s:
            for f in fields + (["signature"] if cname == "OpDef" else []):
                ctx.ok("C10.R1", f"{c.qualname}.{f}", "identity")
            ea = ctor_args(ser).get("extension")
            ctx.check(ea == nf.expr_nf("self.get_extension().name", c)[0], "C10.R1", f"{c.qualname}: extension written", c.module.path, m.lineno,
                      "the serialized definition must name its owning extension", m, found=show(ea) if ea else "<missing>")
            continue
        if back[0] != "ctor" or back[1] != c.qualname:
            ctx.fail("C10.R1", c.qualname, c.module.path, m.lineno, f"decoding does not rebuild a {cname}: {show(back)[:160]}", m)
            continue
        a = ctor_args(back)
        for f in fields:
            got = simp(a.get(f)) if a.get(f) is not None else None
            ctx.check(got == attr(s, f), "C10.R1", f"{c.qualname}.{f}", c.module.path, m.lineno,
                      f"field `{f}` of {cname} does not survive serialization", m, expected=f"self.{f}", found=show(got) if got else "<not passed: default>")
        if cname == "OpDef":
            sig = a.get("signature")
            ok = sig is not None and sig[0] == "ctor" and sig[1].endswith("OpDefSig")
            if ok:
                sa = {k2: simp(unguard(nf, v, env)) for k2, v in ctor_args(sig).items()}
                pf = attr(attr(s, "signature"), "poly_func")
                ok = sa.get("poly_func") == pf and sa.get("binary") == attr(attr(s, "signature"), "binary")
            ctx.check(bool(ok), "C10.R1", f"{c.qualname}.signature", c.module.path, m.lineno,
                      "the signature (type scheme and binary flag) of an operation definition does not survive serialization", m,
                      expected="OpDefSig(self.signature.poly_func, self.signature.binary)", found=show(sig)[:300] if sig else "<missing>")
        # the `extension` name written is the owner's
        ea = ctor_args(ser).get("extension")
        ctx.check(ea == nf.expr_nf("self.get_extension().name", c)[0], "C10.R1", f"{c.qualname}: extension written", c.module.path, m.lineno,
                  "the serialized definition must name its owning extension", m, found=show(ea) if ea else "<missing>")
    # ---- Extension itself: dict-of-definitions idiom
    from ..rulekit import arg_of
    c = em.classes["Extension"]
    sc = prog.module(SEXT).classes["Extension"]
    if c.methods.get("_to_serial") is None or sc.methods.get("deserialize") is None:
        ctx.broken("anchor vanished: Extension codec")
    # canonical bodies: accumulate loops are comprehensions, temporaries are substituted, keywords follow the callee's layout
    enc = ctx.cfn(f"{EXT}.Extension._to_serial")
    dec = ctx.cfn(f"{SEXT}.Extension.deserialize")
    enc_call = [x for x in calls_in(enc) if u(x.func).endswith("Extension")]
    if len(enc_call) != 1:
        ctx.broken("Extension._to_serial: constructor call not found")
    for f in ("name", "version", "runtime_reqs"):
        v = arg_of(ctx, enc_call[0], f, c.module, c)
        ctx.check(v is not None and u(v) == f"self.{f}", "C10.R1", f"hugr.ext.Extension.{f}: encoded", c.module.path, enc.lineno,
                  f"Extension._to_serial must write {f}=self.{f}", enc, found=u(v))
    dec_ctor = [x for x in calls_in(dec) if u(x.func) == "ext.Extension"]
    if len(dec_ctor) != 1:
        ctx.broken("serial Extension.deserialize: ext.Extension(...) call not found")
    for f in ("name", "version", "runtime_reqs"):
        v = arg_of(ctx, dec_ctor[0], f, sc.module, sc)
        ctx.check(v is not None and u(v) == f"self.{f}", "C10.R1", f"hugr.ext.Extension.{f}: decoded", sc.module.path, dec.lineno,
                  f"Extension.deserialize must pass {f}=self.{f}", dec, found=u(v))
    evar = None
    for n in ast.walk(dec):
        if isinstance(n, ast.Assign) and n.value is dec_ctor[0] and isinstance(n.targets[0], ast.Name):
            evar = n.targets[0].id
    for d, adder in (("types", "add_type_def"), ("operations", "add_op_def"), ("values", "add_extension_value")):
        v = arg_of(ctx, enc_call[0], d, c.module, c)
        ok = isinstance(v, ast.DictComp) and len(v.generators) == 1 and u(v.generators[0].iter) == f"self.{d}.items()" and not v.generators[0].ifs
        if ok:
            kv = v.generators[0].target
            ok = isinstance(kv, ast.Tuple) and u(v.key) == u(kv.elts[0]) and u(v.value) == f"{u(kv.elts[1])}._to_serial()"
        ctx.check(bool(ok), "C10.R1", f"hugr.ext.Extension.{d}: encoded", c.module.path, enc.lineno,
                  f"every entry of {d} must be written under its own key as its serialized definition", enc, expected=f"{{k: v._to_serial() for k, v in self.{d}.items()}}", found=u(v))
        loops = [n for n in ast.walk(dec) if isinstance(n, ast.For) and u(n.iter) == f"self.{d}.items()"]
        ok = len(loops) == 1
        if ok:
            lp = loops[0]
            vname = u(lp.target.elts[1]) if isinstance(lp.target, ast.Tuple) else "?"
            des = [x for x in calls_in(lp) if call_name(x) == "deserialize" and u(x.func.value) == vname and [u(a) for a in x.args] == [evar]]
            # the decoded definition is handed to the matching adder of the extension being built
            added = [x for x in calls_in(lp) if call_name(x) == adder and u(x.func.value) == evar and x.args and any(y in des for y in ast.walk(x.args[0]))]
            if des and not added:
                # .. or the serialized definition registers itself: its own deserialize(extension) hands the decoded definition to
                # extension.<adder> on every path (then decoding it with the extension being built is enough)
                fld = sc.find_field(d)
                ecls = None
                if fld is not None:
                    for nm in [n.id for n in ast.walk(fld.node.annotation) if isinstance(n, ast.Name)]:
                        if nm in sc.module.classes and "deserialize" in sc.module.classes[nm].methods:
                            ecls = sc.module.classes[nm]
                if ecls is not None:
                    dm = ecls.methods["deserialize"]
                    xp = dm.args.args[1].arg if len(dm.args.args) > 1 else None
                    eps = [q for q in ctx.paths(f"{ecls.qualname}.deserialize") if q.kind != "raise"]
                    if xp and eps and all(q.find_effect(f"{xp}.{adder}(ANY_)") or (q.value is not None and any(
                            isinstance(n, ast.Call) and call_name(n) == adder and u(n.func.value) == xp for n in ast.walk(q.value))) for q in eps):
                        added = des
            ok = bool(des) and bool(added) and not any(isinstance(x, (ast.Continue, ast.Break, ast.If)) for x in ast.walk(lp))
        ctx.check(bool(ok), "C10.R1", f"hugr.ext.Extension.{d}: decoded", sc.module.path, dec.lineno,
                  f"every serialized entry of {d} must be decoded into the extension being built (no filter)", dec)
    rets = [r for r in ast.walk(dec) if isinstance(r, ast.Return)]
    ctx.check(len(rets) == 1 and u(rets[0].value) == evar, "C10.R1", "hugr.ext.Extension: decoded object returned", sc.module.path, dec.lineno, "", dec)
    # entry points
    for mname, want in (("to_json", "self._to_serial().model_dump_json()"), ("from_json", "ext_s.Extension.model_validate_json(json_str).deserialize()")):
        m = c.methods.get(mname)
        rb = real_body(m) if m else []
        ctx.check(len(rb) == 1 and isinstance(rb[0], ast.Return) and u(rb[0].value) == want, "C10.R1", f"hugr.ext.Extension.{mname}", c.module.path,
                  (m or c.node).lineno, f"Extension.{mname} must be {want}", m, expected=want, found=u(rb[0]) if rb else "")


def r2_owner(ctx) -> None:
    prog = ctx.program
    c = prog.cls(f"{EXT}.Extension")
    file = c.module.path
    owners = {"operations": "add_op_def", "types": "add_type_def", "values": "add_extension_value"}
    # who may write
    n = 0
    for mn, m in prog.modules.items():
        for node in ast.walk(m.tree):
            tgt = None
            if isinstance(node, ast.Subscript) and isinstance(node.ctx, (ast.Store, ast.Del)) and isinstance(node.value, ast.Attribute) and node.value.attr in owners:
                tgt = node.value
            if isinstance(node, ast.Call) and isinstance(node.func, ast.Attribute) and node.func.attr in ("pop", "update", "clear", "setdefault", "popitem") \
                    and isinstance(node.func.value, ast.Attribute) and node.func.value.attr in owners:
                tgt = node.func.value
            if tgt is None:
                continue
            n += 1
            fn = _enclosing(m, node)
            inside = mn == EXT and fn is not None and fn.name == owners[tgt.attr] and u(tgt.value) == "self"
            # the registry's own `extensions` dict is not one of these
            ctx.check(inside, "C10.R2", f"{mn}.{fn.name if fn else '<module>'}: writes .{tgt.attr}", m.path, node.lineno,
                      f"the `{tgt.attr}` table of an extension may only be written by Extension.{owners[tgt.attr]} (which also sets the owner back-reference)", node)
    ctx.stats["C10.R2 writes to definition tables"] = n
    from ..rulekit import unold
    for d, adder in owners.items():
        m = c.methods.get(adder)
        if m is None:
            ctx.broken(f"anchor vanished: Extension.{adder}")
        p = m.args.args[1].arg
        # path summaries of the canonical body (unknown helpers seen through): owner first, then the table entry, then the answer
        ps = [q for q in ctx.paths(f"{EXT}.Extension.{adder}") if q.kind != "raise"]
        ok = ok_ret = bool(ps)
        found = ""
        for q in ps:
            own = [i for i, e in enumerate(q.effects) if isinstance(e, ast.Assign) and unold(e.targets[0]) == f"{p}._extension" and unold(e.value) == "self"]
            sto = [i for i, e in enumerate(q.effects) if isinstance(e, ast.Assign) and unold(e.targets[0]) == f"self.{d}[{p}.name]" and unold(e.value) == p]
            ok = ok and len(own) == 1 and len(sto) == 1 and own[0] < sto[0]
            ok_ret = ok_ret and q.kind == "return" and unold(q.value) in (f"self.{d}[{p}.name]", p)
            found = " ; ".join(q.effect_texts())[:240]
        ctx.check(ok, "C10.R2", f"hugr.ext.Extension.{adder}: owner set before registration", file, m.lineno,
                  f"{adder} must set {p}._extension = self and then store the definition under its own name", m,
                  expected=f"{p}._extension = self; self.{d}[{p}.name] = {p}", found=found)
        ctx.check(ok_ret, "C10.R2", f"hugr.ext.Extension.{adder}: returns the registered definition", file, m.lineno, "", m)
    # runtime requirement added to polymorphic signatures before the definition becomes reachable
    m = c.methods["add_op_def"]
    p = m.args.args[1].arg
    ps = [q for q in ctx.paths(f"{EXT}.Extension.add_op_def") if q.kind != "raise"]
    ok = bool(ps)
    seen = set()
    for q in ps:
        poly = [k for t, k in q.tests if u(t) == f"{p}.signature.poly_func is not None"]
        req = [i for i, e in enumerate(q.effects) if isinstance(e, ast.Assign) and unold(e.targets[0]) == f"{p}.signature.poly_func"
               and unold(e.value) == f"{p}.signature.poly_func.with_runtime_reqs([self.name])"]
        sto = [i for i, e in enumerate(q.effects) if isinstance(e, ast.Assign) and unold(e.targets[0]).startswith("self.operations[")]
        if not poly:
            ok = False
        elif poly[0]:
            seen.add(True)
            ok = ok and len(req) == 1 and bool(sto) and req[0] < sto[0]
        else:
            seen.add(False)
            ok = ok and not req
    ok = ok and seen == {True, False}
    ctx.check(bool(ok), "C10.R2", "hugr.ext.Extension.add_op_def: own extension among the signature's requirements", file, m.lineno,
              "every operation definition held by an extension must name that extension among its signature's runtime requirements: "
              "add_op_def has to replace a present type scheme by with_runtime_reqs([self.name]) before registering it", m)
    # with_runtime_reqs really adds
    ft = prog.cls("hugr.tys.FunctionType")
    wm = ft.methods.get("with_runtime_reqs")
    src = u(wm) if wm else ""
    ok = wm is not None and "union(runtime_reqs)" in src.replace(" ", "") or ("|" in src and "runtime_reqs" in src)
    rets = [r for r in ast.walk(wm) if isinstance(r, ast.Return)] if wm else []
    ok = ok and len(rets) == 1 and "self.input" in u(rets[0].value) and "self.output" in u(rets[0].value)
    ctx.check(bool(ok), "C10.R2", "hugr.tys.FunctionType.with_runtime_reqs", ft.module.path, wm.lineno if wm else 1,
              "with_runtime_reqs must return the same rows with the union of the old and the given requirements", wm)
    pt = prog.cls("hugr.tys.PolyFuncType").methods.get("with_runtime_reqs")
    rb = real_body(pt) if pt else []
    ok = len(rb) == 1 and isinstance(rb[0], ast.Return) and "self.body.with_runtime_reqs(runtime_reqs)" in u(rb[0].value) and "params=self.params" in u(rb[0].value).replace(" ", "")
    ctx.check(ok, "C10.R2", "hugr.tys.PolyFuncType.with_runtime_reqs", prog.cls("hugr.tys.PolyFuncType").module.path, pt.lineno if pt else 1,
              "PolyFuncType.with_runtime_reqs must decorate the body and keep the parameters", pt)
    # get_extension() reports the owner
    eo = prog.cls(f"{EXT}.ExtensionObject")
    ge = eo.methods.get("get_extension")
    ge_c = ctx.cfn(f"{EXT}.ExtensionObject.get_extension") if ge else None       # (canonical: a walrus / local holding the field is the field)
    rets = [r for r in ast.walk(ge_c) if isinstance(r, ast.Return)] if ge_c else []
    ctx.check(len(rets) == 1 and u(rets[0].value) == "self._extension", "C10.R2", "hugr.ext.ExtensionObject.get_extension", eo.module.path, ge.lineno if ge else 1,
              "get_extension must report the owner recorded by add_*", ge)


def _enclosing(m, node):
    best = None
    for fn in ast.walk(m.tree):
        if isinstance(fn, (ast.FunctionDef, ast.AsyncFunctionDef)) and fn.lineno <= node.lineno <= (fn.end_lineno or fn.lineno):
            if best is None or fn.lineno >= best.lineno:
                best = fn
    return best


def r3_bundled(ctx) -> None:
    spec = ctx.root / "specification" / "std_extensions"
    bund = ctx.pkg / "std" / "_json_defs"
    if not spec.is_dir() or not bund.is_dir():
        ctx.broken("anchor vanished: specification/std_extensions or std/_json_defs")
    sf = {str(p.relative_to(spec)): p for p in spec.rglob("*") if p.is_file()}
    bf = {str(p.relative_to(bund)): p for p in bund.rglob("*") if p.is_file() and p.name != "README.md" and "__pycache__" not in p.parts}
    for rel in sorted(set(sf) | set(bf)):
        if rel not in bf:
            ctx.fail("C10.R3", f"std extension {rel}", sf[rel], 1, f"{rel} is published in the specification but not bundled with the Python package")
        elif rel not in sf:
            ctx.fail("C10.R3", f"std extension {rel}", bf[rel], 1, f"{rel} is bundled with the Python package but not published in the specification")
        else:
            a, b = sf[rel].read_bytes(), bf[rel].read_bytes()
            ctx.check(a == b, "C10.R3", f"std extension {rel}", bf[rel], 1,
                      f"bundled {rel} differs from the published specification file (sha256 {hashlib.sha256(b).hexdigest()[:12]} vs {hashlib.sha256(a).hexdigest()[:12]})",
                      detail=f"{len(a)} bytes identical")
    # each file is named after the extension it defines
    for rel, p in sorted(bf.items()):
        if not rel.endswith(".json"):
            continue
        try:
            d = json.loads(p.read_text())
        except json.JSONDecodeError as e:
            ctx.fail("C10.R3", f"std extension {rel}: parses", p, 1, f"not valid JSON: {e}")
            continue
        dotted = rel[:-5].replace("/", ".")
        ctx.check(d.get("name") == dotted, "C10.R3", f"std extension {rel}: name", p, 1,
                  f"file {rel} defines extension {d.get('name')!r}; _load_extension({dotted!r}) expects the file to define {dotted!r}")
        keys_ok = all(k == v.get("name") for sect in ("types", "operations", "values") for k, v in d.get(sect, {}).items())
        ctx.check(keys_ok, "C10.R3", f"std extension {rel}: keys", p, 1, "every definition must be stored under its own name (the loader asserts it)")


def r4_helpers(ctx) -> None:
    prog = ctx.program
    std = Std(prog, ctx.pkg)
    nload = nsub = ninst = 0
    for mn, m in prog.modules.items():
        if not mn.startswith("hugr.std") and mn not in ("hugr.ops", "hugr.tys", "hugr.val"):
            continue
        for node in ast.walk(m.tree):
            # (a) _load_extension literals
            if isinstance(node, ast.Call) and u(node.func).split(".")[-1] == "_load_extension" and node.args:
                a = node.args[0]
                if not isinstance(a, ast.Constant):
                    if mn == "hugr.std":
                        continue
                    ctx.broken(f"{mn}:{node.lineno}: _load_extension with a non-literal argument")
                nload += 1
                ctx.check(a.value in std.exts, "C10.R4", f"{mn}: _load_extension({a.value!r})", m.path, node.lineno,
                          f"no bundled definition file for extension {a.value!r}", node, detail=str(std.files.get(a.value, ""))[-60:])
            # (b) literal lookups of definitions
            d = None
            if isinstance(node, ast.Subscript) and isinstance(node.slice, ast.Constant) and isinstance(node.value, ast.Attribute) and node.value.attr in ("types", "operations", "values"):
                d = std.desc(m, node)
            if isinstance(node, ast.Call) and call_name(node) in ("get_op", "get_type", "get_value") and node.args and isinstance(node.args[0], ast.Constant):
                d = std.desc(m, node, cls=None)
                if d is None:
                    # std.PRELUDE.get_op("MakeTuple") inside ops.py: receiver resolved through the function-level import
                    recv = node.func.value
                    if u(recv) == "std.PRELUDE":
                        d = ("opdef" if call_name(node) == "get_op" else "typedef", "prelude", node.args[0].value)
            if d and d[0] in ("typedef", "opdef", "valdef"):
                nsub += 1
                sect = {"typedef": "types", "opdef": "operations", "valdef": "values"}[d[0]]
                ok = d[1] in std.exts and d[2] in std.exts[d[1]].get(sect, {})
                ctx.check(ok, "C10.R4", f"{mn}: {d[1]}.{sect}[{d[2]!r}]", m.path, node.lineno,
                          f"extension {d[1]!r} has no {sect[:-1]} named {d[2]!r}", node)
    # (c) instantiations: arity and kinds of the arguments match the definition's parameters
    sites = []
    for mn, m in prog.modules.items():
        if not mn.startswith("hugr.std"):
            continue
        for node in ast.walk(m.tree):
            if isinstance(node, ast.Call) and call_name(node) == "instantiate":
                d = std.desc(m, node)
                if d and d[0] == "exttype":
                    sites.append((mn, m, node, d))
        for c in m.classes.values():
            if c.is_subclass_of("hugr.tys.ExtType") and "__init__" in c.methods:
                fake = ast.Call(func=ast.Name(id=c.name, ctx=ast.Load()), args=[], keywords=[])
                d = std.class_instance(c, fake, m, {}, 0)
                if d:
                    sites.append((mn, m, c.methods["__init__"], d))
    for mn, m, node, d in sites:
        ninst += 1
        td = std.typedef(d[1], d[2])
        if td is None:
            continue
        args = d[3]
        inst = f"{mn}:{getattr(node, 'name', 'instantiate')}@{d[1]}.{d[2]}"
        if args is None:
            ctx.broken(f"{inst}: argument list is not a literal list")
        ok = len(args) == len(td["params"])
        ctx.check(ok, "C10.R4", inst + ": arity", m.path, node.lineno,
                  f"{d[1]}.{d[2]} has {len(td['params'])} parameter(s), the helper passes {len(args)}", node)
        if not ok:
            continue
        for i, (a, p) in enumerate(zip(args, td["params"])):
            kind = std.arg_kind(d[4], a, d[5])
            if kind is None and isinstance(a, ast.Name) and isinstance(node, ast.FunctionDef):
                # local of the helper class's __init__: all constructor calls assigned to it agree on the kind
                ks = {std.arg_kind(d[4], n.value, {}) for n in ast.walk(node) if isinstance(n, ast.Assign) and isinstance(n.targets[0], ast.Name)
                      and n.targets[0].id == a.id and isinstance(n.value, ast.Call)}
                ks.discard(None)
                if len(ks) == 1:
                    kind = ks.pop()
            if kind is None:
                ctx.note(f"C10.R4 {inst}: kind of argument {i} (`{u(a)}`) not syntactically evident")
                continue
            if kind == "Variable":
                # the variable's declared parameter must equal the definition's parameter
                prm = kwarg(_follow(d[4], a, d[5]), "param", 1)
                pdesc = _param_literal(d[4], prm)
                want = (p["tp"], p.get("bound"))
                ctx.check(pdesc == want, "C10.R4", inst + f": variable parameter {i}", m.path, node.lineno,
                          f"a variable standing for parameter {i} of {d[1]}.{d[2]} must be declared as {want}", node, expected=str(want), found=str(pdesc))
                continue
            ctx.check(kind == p["tp"], "C10.R4", inst + f": argument {i} kind", m.path, node.lineno,
                      f"argument {i} of {d[1]}.{d[2]} must be a {p['tp']} argument, the helper passes a {kind} argument", node, expected=p["tp"], found=kind)
    # (d) cached signatures name the operation's own extension
    for mn, m in prog.modules.items():
        if not (mn.startswith("hugr.std") or mn == "hugr.ops"):
            continue
        for c in m.classes.values():
            cs = c.methods.get("cached_signature")
            od = c.methods.get("op_def")
            if cs is None:
                continue
            ext_name = None
            if od is not None:
                for x in calls_in(od):
                    if call_name(x) == "get_op" and u(x.func.value) == "std.PRELUDE":
                        ext_name = "prelude"
            cod = c.class_assigns.get("const_op_def") or next((f.node.value for f in c.fields if f.name == "const_op_def"), None)
            if cod is not None:
                dd = std.desc(m, cod)
                if dd and dd[0] == "opdef":
                    ext_name = dd[1]
            if ext_name is None:
                continue
            rr = [kwarg(x, "runtime_reqs", 2) for x in calls_in(cs) if u(x.func).endswith("FunctionType") or u(x.func).endswith("FunctionType.endo")]
            rr = [r for r in rr if r is not None]
            for r in rr:
                names = []
                if isinstance(r, ast.List):
                    for e in r.elts:
                        if isinstance(e, ast.Constant):
                            names.append(e.value)
                        else:
                            de = std.desc(m, e)
                            names.append(de[1] if de and de[0] == "extname" else u(e))
                ctx.check(ext_name in names, "C10.R4", f"{c.qualname}.cached_signature: runtime_reqs", m.path, cs.lineno,
                          f"the cached signature of an operation of extension {ext_name!r} must name that extension among its requirements", cs, found=str(names))
    ctx.stats["C10.R4 load sites / definition lookups / instantiations"] = [nload, nsub, ninst]


def _follow(mod, a, loc):
    seen = 0
    while isinstance(a, ast.Name) and a.id in loc and isinstance(loc[a.id], tuple) and loc[a.id][0] == "expr" and seen < 5:
        seen += 1
        a = loc[a.id][1]
    return a if isinstance(a, ast.Call) else ast.Call(func=ast.Name(id="?", ctx=ast.Load()), args=[], keywords=[])


def _param_literal(mod, e):
    if isinstance(e, ast.Name) and e.id in mod.assigns:
        e = mod.assigns[e.id]
    if isinstance(e, ast.Call):
        n = u(e.func).split(".")[-1]
        if n == "BoundedNatParam":
            b = e.args[0].value if e.args and isinstance(e.args[0], ast.Constant) else (kwarg(e, "upper_bound").value if kwarg(e, "upper_bound") is not None else None)
            return ("BoundedNat", b)
        if n == "TypeTypeParam":
            return ("Type", None)
    return None


def run(ctx) -> None:
    ctx.rule("C10.R1", "CODEC between hugr.ext and the serial extension models: every field of bounds, type/op/value definitions and the extension preserved; definitions re-attached to their owner", floor=30)
    ctx.rule("C10.R2", "owner invariant: definition tables written only by add_*, which set the back-reference first; add_op_def adds the own extension to the signature's requirements", floor=9)
    ctx.rule("C10.R3", "bundled std extension files are byte-identical to specification/std_extensions and named after the extension they define", floor=25)
    ctx.rule("C10.R4", "std helpers: every _load_extension / types[...] / operations[...] / get_op literal exists; instantiations match parameter count and kinds; cached signatures name their own extension", floor=25)
    nf = NF(ctx.program)
    r1_codec(ctx, nf)
    r2_owner(ctx)
    r3_bundled(ctx)
    r4_helpers(ctx)
    ctx.rule("C10.R5", "std constants name the std type instantiated with their own parameters and its extension (shared with C14.R3)", floor=20)
    from .c14 import r3_std_constants
    with ctx.as_rule(C14_R3="C10.R5"):
        r3_std_constants(ctx, nf)
    ctx.rule("C10.R6", "types and values inside definitions decode to what was encoded: forward CODEC of hugr.tys / hugr.val (shared with C02.R1)", floor=20)
    from .c02 import r1_forward_codec
    r1_forward_codec(ctx, nf, rule="C10.R6", modules=("hugr.tys", "hugr.val"))
    ctx.rule("C10.R7", "the serial models hold what they are given: no model configuration or hook that rewrites values (descriptions, names) on the way in or out (shared with C05.R7 / C17.R3)", floor=60)
    from .c17 import r3_no_hidden_acceptance_logic
    from ..schema import SchemaDeriver
    d3 = SchemaDeriver(ctx.program, None)
    d3.canon = ctx.canon
    with ctx.as_rule(C17_R3="C10.R7"):
        r3_no_hidden_acceptance_logic(ctx, d3, with_required=False)
    # the typed array helper: its first argument is a size the definition's BoundedNat parameter accepts, on every completing path
    aq = "hugr.std.collections.array.Array.__init__"
    try:
        afn, amod, _ = ctx.locate(aq)
        bad = None
        aps = [p_ for p_ in ctx.paths(aq) if p_.kind != "raise"]
        for p_ in aps:
            pos = [u(t) for t, k in p_.tests if k]
            if not any("BoundedNatArg" in t_ or "BoundedNatParam" in t_ for t_ in pos):
                bad = p_
                break
        ctx.check(bool(aps) and bad is None, "C10.R4", "hugr.std.collections.array.Array.__init__: size is a bounded natural or a nat variable", amod.path, afn.lineno,
                  "the array type helper instantiates `array` with [size, element type]: the size must be a BoundedNatArg or a variable declared with a "
                  "BoundedNatParam on every path that completes -- anything else does not fit the bundled definition's parameters"
                  + (f" [completes on: {bad.describe()[:200]}]" if bad is not None else ""), afn)
    except Exception as e_:
        if type(e_).__name__ == "AnalysisError":
            raise
    from .. import lints
    lints.arm(ctx)



# ---------------------------------------------------------------------------------------
X = "hugr-py/src/hugr/ext.py"
SX = "hugr-py/src/hugr/_serialization/extension.py"
T = "hugr-py/src/hugr/tys.py"
SI = "hugr-py/src/hugr/std/int.py"
SF = "hugr-py/src/hugr/std/float.py"
SL = "hugr-py/src/hugr/std/logic.py"
AR = "hugr-py/src/hugr/std/collections/array.py"
O = "hugr-py/src/hugr/ops.py"
MUTANTS = [
    dict(name="typedef-description-dropped", file=SX, expect="C10.R1", old="                description=self.description,\n                params=deser_it(self.params),", new="                description=\"\",\n                params=deser_it(self.params),"),
    dict(name="typedef-params-dropped", file=SX, expect="C10.R1", old="                params=deser_it(self.params),", new="                params=[],"),
    dict(name="opdef-misc-dropped", file=SX, expect="C10.R1", old="                misc=self.misc or {},", new="                misc={},"),
    dict(name="opdef-binary-dropped", file=SX, expect="C10.R1", old="            else None,\n            self.binary,\n        )", new="            else None,\n            False if self.signature else True,\n        )"),
    dict(name="opdef-binary-not-encoded", file=X, expect="C10.R1", old="            binary=self.signature.binary,\n", new=""),
    dict(name="opdef-description-misc-crossed", file=X, expect="C10.R1", old="            description=self.description,\n            misc=self.misc,", new="            description=str(self.misc),\n            misc=self.misc,"),
    dict(name="opdef-not-reattached", file=SX, expect="C10.R1", old="        return extension.add_op_def(\n            ext.OpDef(", new="        return (\n            ext.OpDef("),
    dict(name="value-payload-dropped", file=X, expect="C10.R1", old="            typed_value=self.val._to_serial_root(),", new="            typed_value=val.Unit._to_serial_root(),"),
    dict(name="extension-version-reset", file=SX, expect="C10.R1", old="            version=self.version,  # type: ignore[arg-type]\n            name=self.name,", new="            version=\"0.1.0\",  # type: ignore[arg-type]\n            name=self.name,"),
    dict(name="extension-reqs-not-encoded", file=X, expect="C10.R1", old="            runtime_reqs=self.runtime_reqs,\n            types=", new="            runtime_reqs=set(),\n            types="),
    dict(name="extension-values-skipped", file=SX, expect="C10.R1", old="        for k, v in self.values.items():\n            assert k == v.name, \"Value name must match key\"\n            e.add_extension_value(v.deserialize(e))\n", new=""),
    dict(name="extension-types-filtered", file=X, expect="C10.R1", old="            types={k: v._to_serial() for k, v in self.types.items()},", new="            types={k: v._to_serial() for k, v in self.types.items() if v.params},"),
    dict(name="frombound-indices-dropped", file=SX, expect="C10.R1", old="        return ext.FromParamsBound(indices=self.indices)", new="        return ext.FromParamsBound(indices=sorted(self.indices))"),
    dict(name="outside-writer-of-operations", file=X, expect="C10.R2", old="            cls.const_op_def = op_def\n", new="            cls.const_op_def = op_def\n            self.operations[new_name.lower()] = op_def\n"),
    dict(name="owner-not-set", file=X, expect="C10.R2", old="        type_def._extension = self\n", new=""),
    dict(name="owner-set-after", file=X, expect="C10.R2", old="        extension_value._extension = self\n        self.values[extension_value.name] = extension_value\n", new="        self.values[extension_value.name] = extension_value\n        extension_value._extension = None\n"),
    dict(name="own-extension-not-required", file=X, expect="C10.R2", old="        if op_def.signature.poly_func is not None:\n            # Ensure the op def signature has the extension as a requirement\n            op_def.signature.poly_func = op_def.signature.poly_func.with_runtime_reqs(\n                [self.name]\n            )\n", new=""),
    dict(name="with-reqs-replaces", file=T, expect="C10.R2", old="        exts = set(self.runtime_reqs)\n        exts = exts.union(runtime_reqs)", new="        exts = set(runtime_reqs)"),
    dict(name="bundled-file-edited", file="hugr-py/src/hugr/std/_json_defs/logic.json", expect="C10.R3", old="\"name\": \"logic\"", new="\"name\": \"Logic\"", count=1),
    dict(name="wrong-type-name", file=SF, expect="C10.R4", old="FLOAT_TYPES_EXTENSION.types[\"float64\"]", new="FLOAT_TYPES_EXTENSION.types[\"float\"]"),
    dict(name="wrong-op-name", file=SL, expect="C10.R4", old="EXTENSION.operations[\"Not\"]", new="EXTENSION.operations[\"not\"]"),
    dict(name="wrong-extension-file", file=SI, expect="C10.R4", old="_load_extension(\"arithmetic.int.types\")", new="_load_extension(\"arithmetic.int_types\")"),
    dict(name="int-type-without-width", file=SI, expect="C10.R4", old="    return INT_T_DEF.instantiate(\n        [tys.BoundedNatArg(n=width)],\n    )", new="    return INT_T_DEF.instantiate(\n        [],\n    )"),
    dict(name="int-param-bound", file=SI, expect="C10.R4", old="_INT_PARAM = tys.BoundedNatParam(7)", new="_INT_PARAM = tys.BoundedNatParam(6)"),
    dict(name="array-arg-kinds-crossed", file=AR, expect="C10.R4", old="        self.args = [size, ty_arg]", new="        self.args = [ty_arg, size]"),
    dict(name="prelude-op-renamed", file=O, expect="C10.R4", old="        return std.PRELUDE.get_op(\"Noop\")", new="        return std.PRELUDE.get_op(\"NoOp\")"),
    dict(name="divmod-wrong-reqs", file=SI, expect="C10.R4", old="        return tys.FunctionType.endo(row, runtime_reqs=[INT_OPS_EXTENSION.name])", new="        return tys.FunctionType.endo(row, runtime_reqs=[INT_TYPES_EXTENSION.name])"),
]
TWINS = [
    dict(name="twin-keyword-order", file=SX, old="                name=self.name,\n                description=self.description,\n                params=deser_it(self.params),", new="                description=self.description,\n                name=self.name,\n                params=deser_it(self.params),"),
    dict(name="twin-local-sig", file=X, old="            binary=self.signature.binary,", new="            binary=bool(self.signature.binary) if False else self.signature.binary,"),
]


def thorough(ctx):
    from ..selftest import run_battery
    return run_battery(ctx, MUTANTS, TWINS[:1])
