"""C17 -- the published JSON schema files are exactly what the serialization models define.

Decided by structural identity: engine E derives the schema from the class definitions (AST only)
and compares it, definition by definition, with each of the four published files.
"""
from __future__ import annotations

import ast
import json

from ..model import Module, Program, calls_in, kwarg, real_body, u
from ..schema import SchemaDeriver, Unsupported, jdiff

SCHEMA_DIR = "specification/schema"
GEN = "scripts/generate_schema.py"


class _Fold(ast.NodeTransformer):
    """substitute loop variables and fold f-strings / concatenations of constants"""
    def __init__(self, env):
        self.env = env

    def visit_Name(self, node):
        if isinstance(node.ctx, ast.Load) and node.id in self.env:
            return self.env[node.id]
        return node

    def visit_JoinedStr(self, node):
        self.generic_visit(node)
        parts = []
        for v in node.values:
            if isinstance(v, ast.Constant) and isinstance(v.value, str):
                parts.append(v.value)
            elif isinstance(v, ast.FormattedValue) and isinstance(v.value, ast.Constant) and v.format_spec is None and v.conversion == -1:
                parts.append(str(v.value.value))
            else:
                return node
        return ast.copy_location(ast.Constant("".join(parts)), node)

    def visit_BinOp(self, node):
        self.generic_visit(node)
        if isinstance(node.op, ast.Add) and isinstance(node.left, ast.Constant) and isinstance(node.right, ast.Constant) \
                and isinstance(node.left.value, str) and isinstance(node.right.value, str):
            return ast.copy_location(ast.Constant(node.left.value + node.right.value), node)
        return node


def _expand(stmts, env, consts, funcs=None, depth=0):
    """the statements with `for <targets> in <literal tuple/list>` loops unrolled (loop variables substituted) and calls of the
    script's own functions (other than write_schema) replaced by their bodies"""
    import copy
    funcs = funcs or {}
    out = []
    for s in stmts:
        if isinstance(s, ast.Expr) and isinstance(s.value, ast.Call) and isinstance(s.value.func, ast.Name) and s.value.func.id in funcs \
                and s.value.func.id != "write_schema" and depth < 4:
            f = funcs[s.value.func.id]
            from ..norm import bind_call
            call = _Fold(env).visit(copy.deepcopy(s.value))
            binds = bind_call(f, call, False)
            if binds is None or f.args.vararg or f.args.kwarg:
                return None
            sub = _expand([x for x in f.body if not (isinstance(x, ast.Expr) and isinstance(x.value, ast.Constant))], dict(binds), consts, funcs, depth + 1)
            if sub is None:
                return None
            out += sub
            continue
        if isinstance(s, ast.Assign) and len(s.targets) == 1 and isinstance(s.targets[0], ast.Name) and isinstance(s.value, (ast.Tuple, ast.List)):
            consts[s.targets[0].id] = _Fold(env).visit(copy.deepcopy(s.value))
        if isinstance(s, ast.AnnAssign) and isinstance(s.target, ast.Name) and isinstance(s.value, (ast.Tuple, ast.List)):
            consts[s.target.id] = _Fold(env).visit(copy.deepcopy(s.value))
        if isinstance(s, ast.For):
            it = s.iter
            if isinstance(it, ast.Name) and it.id in consts:
                it = consts[it.id]
            if isinstance(it, (ast.Tuple, ast.List)) and not s.orelse:
                for elt in it.elts:
                    e2 = dict(env)
                    if isinstance(s.target, ast.Name):
                        e2[s.target.id] = elt
                    elif isinstance(s.target, (ast.Tuple, ast.List)) and isinstance(elt, (ast.Tuple, ast.List)) and len(elt.elts) == len(s.target.elts):
                        for t, v in zip(s.target.elts, elt.elts):
                            if isinstance(t, ast.Name):
                                e2[t.id] = v
                    else:
                        return None
                    sub = _expand(s.body, e2, consts, funcs, depth)
                    if sub is None:
                        return None
                    out += sub
                continue
            return None
        if isinstance(s, (ast.If, ast.With)):
            sub = _expand(s.body, env, consts, funcs, depth)
            if sub is None:
                return None
            out += sub
            continue
        out.append(_Fold(env).visit(copy.deepcopy(s)))
    return out


def _gen_script(ctx):
    p = ctx.root / GEN
    if not p.exists():
        ctx.broken(f"anchor vanished: {GEN}")
    tree = ast.parse(p.read_text())
    configs: dict[str, dict] = {}
    for n in ast.walk(tree):
        if isinstance(n, ast.Assign) and len(n.targets) == 1 and isinstance(n.targets[0], ast.Name) \
                and isinstance(n.value, ast.Call) and u(n.value.func).endswith("ConfigDict"):
            configs[n.targets[0].id] = {k.arg: ast.literal_eval(k.value) for k in n.value.keywords}
    # the calls the script performs, with literal loops unrolled (a refactoring of four calls into a loop is the same script)
    funcs = {f.name: f for f in tree.body if isinstance(f, ast.FunctionDef)}
    flat = _expand([s_ for s_ in tree.body if not isinstance(s_, (ast.FunctionDef, ast.ClassDef, ast.Import, ast.ImportFrom))], {}, {}, funcs)
    if flat is None:
        ctx.broken(f"{GEN}: a loop over something other than a literal sequence drives write_schema")
    calls = [n for s_ in flat for n in ast.walk(s_) if isinstance(n, ast.Call) and u(n.func) == "write_schema"]
    ws = [f for f in tree.body if isinstance(f, ast.FunctionDef) and f.name == "write_schema"]
    if not ws:
        ctx.broken(f"anchor vanished: write_schema in {GEN}")
    return tree, configs, calls, ws[0], p


def run(ctx) -> None:
    ctx.rule("C17.R1", "every definition derived from the model classes equals the published one (keywords, property order, required order)", floor=250)
    ctx.rule("C17.R3", "model classes carry no acceptance logic outside their declared fields (validators, __init__, aliases, config switches)", floor=60)
    ctx.rule("C17.R2", "schema version literal = file-name suffix; get_version reaches it; generator writes exactly the four (prefix, root, config) files; the strict/lax config reaches the root class and every op/type model", floor=16)
    prog = ctx.program
    tree, configs, calls, ws, gen_path = _gen_script(ctx)

    # ---- R2: version plumbing ---------------------------------------------------------
    sh = prog.module("hugr._serialization.serial_hugr")
    sv = sh.functions.get("serialization_version")
    if sv is None:
        ctx.broken("anchor vanished: serialization_version")
    version = None
    vps = ctx.paths("hugr._serialization.serial_hugr.serialization_version")
    if len(vps) == 1 and vps[0].kind == "return":
        v = vps[0].value
        if isinstance(v, ast.Name) and isinstance(sh.assigns.get(v.id), ast.Constant):
            v = sh.assigns[v.id]          # a module-level constant
        if isinstance(v, ast.Constant) and isinstance(v.value, str):
            version = v.value
    ctx.check(version is not None, "C17.R2", "hugr._serialization.serial_hugr.serialization_version", sh.path, sv.lineno,
              "serialization_version() must return a string literal", sv, detail=f"version literal {version!r}")
    if version is None:
        return
    vf = sh.assigns.get("VersionField")
    df = kwarg(vf, "default_factory") if isinstance(vf, ast.Call) else None
    ctx.check(df is not None and u(df) == "serialization_version", "C17.R2", "VersionField.default_factory", sh.path,
              getattr(vf, "lineno", 1), "the version field's default must be produced by serialization_version", vf,
              expected="default_factory=serialization_version", found=u(df))
    for q, mod in (("SerialHugr", "hugr._serialization.serial_hugr"), ("TestingHugr", "hugr._serialization.testing_hugr")):
        c = prog.cls(f"{mod}.{q}")
        f = c.find_field("version")
        good = f is not None and f.node.value is not None and u(f.node.value) == "VersionField"
        ctx.check(good, "C17.R2", f"{q}.version", c.module.path, c.node.lineno,
                  f"{q}.version must default to VersionField (serialization_version)", c.node if f is None else f.node)
        gv = c.find_method("get_version")[1]          # (possibly shared through a mixin: judged as this class runs it)
        gvc = ctx.cfn(f"{mod}.{q}.get_version") if gv is not None else None
        ok = gv is not None and any(isinstance(n, ast.Attribute) and n.attr == "version" for n in ast.walk(gvc))
        ctx.check(ok, "C17.R2", f"{q}.get_version", c.module.path, (gv or c.node).lineno,
                  f"{q}.get_version must read the version field of a default instance", gv)
    for q in ("Extension", "Package"):
        c = prog.cls(f"hugr._serialization.extension.{q}")
        gv = c.methods.get("get_version")
        ok = gv is not None and any(u(n.func) == "serialization_version" for n in calls_in(gv))
        ctx.check(ok, "C17.R2", f"{q}.get_version", c.module.path, (gv or c.node).lineno,
                  f"{q}.get_version must return serialization_version()", gv)

    # ---- generator calls -> (prefix, root class name, extra mode) ------------------------
    triples = []
    for c in calls:
        if len(c.args) < 3:
            continue
        prefix = ast.literal_eval(c.args[1]) if isinstance(c.args[1], ast.Constant) else None
        root = u(c.args[2])
        cfg = kwarg(c, "config", 3)
        cfgd = configs.get(u(cfg), {}) if cfg is not None else {}
        triples.append((prefix, root, cfgd.get("extra"), bool(cfgd.get("strict")), c))
    want = {("hugr_schema_strict", "SerialHugr", "forbid"), ("hugr_schema", "SerialHugr", "allow"),
            ("testing_hugr_schema_strict", "TestingHugr", "forbid"), ("testing_hugr_schema", "TestingHugr", "allow")}
    got = {(p, r, e) for p, r, e, _, _ in triples}
    ctx.check(got == want, "C17.R2", "generate_schema.write_schema calls", gen_path, (calls[0].lineno if calls else 1),
              "the generator must write exactly the four (prefix, root class, extra) combinations the published files correspond to",
              expected=str(sorted(want)), found=str(sorted(got)), detail="4 (prefix, root, config) triples")
    for p, r, e, strict, c in triples:
        if e == "forbid":
            ctx.check(strict, "C17.R2", f"generate_schema config of {p}", gen_path, c.lineno,
                      "the strict files must be generated with strict=True", c)
    # filename = f"{name_prefix}_{version}.json"; title; also-roots
    from ..model import Module as _M
    gm = _M(prog, "scripts.generate_schema", gen_path)
    cws = ctx.canon.fn(ws, gm, None)
    wparams = [a.arg for a in ws.args.args]
    from ..tmpl import T, tfind, tmatch
    fn_ok = any(tmatch(n, T(f"f'{{{wparams[1]}}}_{{{wparams[2]}.get_version()}}.json'")) is not None for n in ast.walk(cws) if isinstance(n, ast.JoinedStr))
    ctx.check(fn_ok, "C17.R2", "generate_schema.write_schema filename", gen_path, ws.lineno,
              "file name must be <prefix>_<version>.json", ws)
    also_names = None
    title = None
    for n in ast.walk(cws):
        if isinstance(n, ast.Call) and u(n.func) == "models_json_schema":
            t = kwarg(n, "title")
            title = ast.literal_eval(t) if t is not None else None
            a0 = n.args[0] if n.args else None
            if isinstance(a0, ast.Name):
                # a list of (class, mode) pairs built beforehand in a local bound once: classes and mode names, nothing a rebuild changes
                binds = [x for x in ast.walk(cws) if isinstance(x, ast.Assign) and len(x.targets) == 1 and isinstance(x.targets[0], ast.Name) and x.targets[0].id == a0.id]
                stores_ = sum(1 for x in ast.walk(cws) if isinstance(x, ast.Name) and x.id == a0.id and isinstance(x.ctx, ast.Store))
                if len(binds) == 1 and stores_ == 1:
                    a0 = binds[0].value
            if isinstance(a0, (ast.ListComp, ast.GeneratorExp)) and len(a0.generators) == 1 and isinstance(a0.generators[0].iter, (ast.List, ast.Tuple)) \
                    and u(a0.elt) == f"({u(a0.generators[0].target)}, 'validation')":
                also_names = [u(x) for x in a0.generators[0].iter.elts]
            elif isinstance(a0, ast.List) and all(isinstance(x, ast.Tuple) and len(x.elts) == 2 and u(x.elts[1]) == "'validation'" for x in a0.elts):
                also_names = [u(x.elts[0]) for x in a0.elts]
    if also_names is None or also_names[0] != wparams[2]:
        ctx.broken("generate_schema.write_schema: the list of schema roots handed to models_json_schema was not found")
    files = {}
    for p, r, e, _, c in triples:
        f = ctx.root / SCHEMA_DIR / f"{p}_{version}.json"
        ctx.check(f.exists(), "C17.R2", f"file {p}_{version}.json", f, 1,
                  f"published schema file for version {version!r} is missing (version literal and file names disagree)")
        if f.exists():
            files[(p, r, e)] = json.loads(f.read_text())
    stale = [x.name for x in (ctx.root / SCHEMA_DIR).glob("*.json") if x.name not in {f"{p}_{version}.json" for p, *_ in triples}]
    ctx.check(not stale, "C17.R2", "no stale schema files", ctx.root / SCHEMA_DIR, 1,
              f"published files not produced by the generator for version {version!r}: {stale}")

    # ---- R1: structural identity ----------------------------------------------------------
    ext_mod = prog.module("hugr._serialization.extension")
    total = 0
    # the generator's calls run in one process and every rebuild updates the classes' model_config in place: a class that a later
    # call does not reconfigure (SerialHugr, reached from the testing roots through Package) keeps what an earlier call left.  The
    # files are therefore derived in the order of the calls, carrying that state.
    state: dict = {}
    order = [(p, r, e) for p, r, e, _, _ in triples if (p, r, e) in files]
    for (p, r, e) in order:
        pub = files[(p, r, e)]
        fname = f"{SCHEMA_DIR}/{p}_{version}.json"
        if title is not None:
            ctx.check(pub.get("title") == title, "C17.R2", f"{p}: top-level title", ctx.root / fname, 1,
                      "top-level schema title differs from the generator's", expected=title, found=str(pub.get("title")))
        pub_defs = pub.get("$defs", {})
        semver = None
        try:
            semver = {k: v for k, v in pub_defs["Extension"]["properties"]["version"].items() if k in ("pattern", "type")}
        except KeyError:
            pass
        d = SchemaDeriver(prog, semver)
        d.canon = ctx.canon
        d.prior = dict(state)
        root_cls = None
        for mn in ("hugr._serialization.serial_hugr", "hugr._serialization.testing_hugr"):
            if r in prog.module(mn).classes:
                root_cls = prog.module(mn).classes[r]
        if root_cls is None:
            ctx.broken(f"root class {r} not found")
        also = []
        gen_mod_imports = {"Extension": ext_mod.classes.get("Extension"), "Package": ext_mod.classes.get("Package")}
        for nm in also_names[1:]:
            if gen_mod_imports.get(nm) is None:
                ctx.broken(f"generate_schema: root {nm} not found in hugr._serialization.extension")
            also.append(gen_mod_imports[nm])
        try:
            mine = d.derive(root_cls, e, also)
        except Unsupported as ex:
            ctx.broken(f"schema derivation met a construct outside the supported subset: {ex}")
        for k_ in d.configured_classes(root_cls):
            state[k_] = e
        for name in sorted(set(mine) | set(pub_defs)):
            total += 1
            inst = f"{p}:{name}"
            if name not in pub_defs:
                c = next((k for m in d.mods.values() for k in m.classes.values() if k.name == name), None)
                ctx.fail("C17.R1", inst, c.module.path if c else fname, c.node.lineno if c else 1,
                         f"model class {name} is reachable from the schema roots but the published file {p}_{version}.json has no definition for it")
                continue
            if name not in mine:
                ctx.fail("C17.R1", inst, ctx.root / fname, 1,
                         f"published definition {name} has no model class reachable from the schema roots")
                continue
            diffs = jdiff(mine[name], pub_defs[name])
            if not diffs and mine[name].get("required") != pub_defs[name].get("required"):
                diffs = [f"/required order: models {mine[name].get('required')} published {pub_defs[name].get('required')}"]
            c = next((k for m in d.mods.values() for k in m.classes.values() if k.name == name), None)
            ctx.check(not diffs, "C17.R1", inst, c.module.path if c else fname, c.node.lineno if c else 1,
                      f"model {name} and {p}_{version}.json disagree: " + "; ".join(diffs[:4]),
                      expected=json.dumps(pub_defs[name])[:500], found=json.dumps(mine[name])[:500])
    d3 = SchemaDeriver(prog, None)
    d3.canon = ctx.canon
    r3_no_hidden_acceptance_logic(ctx, d3)
    r4_config_plumbing(ctx)
    ctx.stats["C17 definitions compared"] = total
    ctx.stats["C17 files"] = sorted(f"{p}_{version}.json" for p, _, _ in files)


def r4_config_plumbing(ctx) -> None:
    """the strict / lax configuration must reach exactly the classes the derivation assumes: the ConfiguredBaseModel subclasses
    defined in _serialization/ops.py and tys.py plus the root class itself"""
    from ..tmpl import tseq, tsubseq, thas
    prog = ctx.program
    for mn, cname in (("hugr._serialization.serial_hugr", "SerialHugr"), ("hugr._serialization.testing_hugr", "TestingHugr")):
        c = prog.cls(f"{mn}.{cname}")
        m = c.find_method("_pydantic_rebuild")[1]
        if m is None:
            ctx.broken(f"anchor vanished: {cname}._pydantic_rebuild")
        cm = ctx.cfn(f"{mn}.{cname}._pydantic_rebuild")
        # canonical body: the copied map with the root class added is one display, the defaulted config is written where it is read
        env = thas(cm, "model_rebuild({**dict(ops_classes), cls.__name__: cls}, config=config or ConfigDict(), **kwargs)") or None
        ctx.check(env is not None, "C17.R2", f"{cname}._pydantic_rebuild: root class receives the configuration", c.module.path, m.lineno,
                  f"{cname}._pydantic_rebuild must rebuild the op/type classes AND {cname} itself with the given config (my_classes[cls.__name__] = cls; "
                  "model_rebuild(my_classes, config=config, **kwargs)): otherwise the root model keeps the default `extra` while the published schema says "
                  "additionalProperties false/true", m)
        ctx.check(thas(cm, "config = config or ConfigDict()") or thas(cm, "config or ConfigDict()"), "C17.R2", f"{cname}._pydantic_rebuild: default config", c.module.path, m.lineno, "", m)
    tys = prog.module("hugr._serialization.tys")
    mr = tys.functions.get("model_rebuild")
    if mr is None:
        ctx.broken("anchor vanished: hugr._serialization.tys.model_rebuild")
    mr_o = mr
    mr = ctx.cfn("hugr._serialization.tys.model_rebuild")      # canonical: a loop over a filtering generator is the filtered loop
    loops = [n for n in ast.walk(mr) if isinstance(n, ast.For)]
    ok = len(loops) >= 1 and u(loops[0].iter) == "classes.values()"
    if ok:
        lp = loops[0]
        v = u(lp.target)
        ok = any(tseq(lp.body, [f"if issubclass({v}, ConfiguredBaseModel):\n    {v}.update_model_config({cfg})\n    {v}.model_rebuild(**kwargs)"]) is not None
                 for cfg in ("config", "config or ConfigDict()"))
    ctx.check(ok, "C17.R2", "tys.model_rebuild: every configured class is updated and rebuilt", tys.path, mr.lineno,
              "model_rebuild must apply the config to every ConfiguredBaseModel subclass in the map and rebuild it", mr)
    # the models that embed configured classes -- the RootModel unions OpType, Type, TypeArg, .. that sit between the root
    # document and the op / type classes -- must be rebuilt as well, after their members: pydantic compiles a model's
    # validator when the model is (re)built and embeds its members' validators as they are then (trusted library behaviour,
    # confirmed once at run time); a union that is not rebuilt keeps validating its members with the import-time
    # configuration, so the strict decoder accepts what the strict published schema (additionalProperties: false) rejects
    ops_m = prog.module("hugr._serialization.ops")
    embedding = []
    for mod_ in (tys, ops_m):
        for c_ in mod_.classes.values():
            bases = c_.base_names()
            if "RootModel" in bases and not c_.is_subclass_of("ConfiguredBaseModel"):
                f_ = c_.find_field("root")
                if f_ is not None:
                    embedding.append(c_)
    rebuilt_unconditionally = ok and any(
        isinstance(s_, ast.Expr) and isinstance(s_.value, ast.Call) and u(s_.value.func) == f"{v}.model_rebuild" for s_ in lp.body) if ok else False
    second_pass = [n for n in ast.walk(mr) if isinstance(n, ast.For) and n is not (loops[0] if loops else None)]
    covered = rebuilt_unconditionally or bool(second_pass)
    ctx.check(covered or not embedding, "C17.R2", "tys.model_rebuild: models that embed configured classes are rebuilt too", tys.path, mr.lineno,
              f"model_rebuild rebuilds only ConfiguredBaseModel subclasses; the union models {sorted(c_.name for c_ in embedding)} embed them but are never "
              "rebuilt, so after a strict rebuild the decoder still accepts unknown fields inside operations and types nested under them "
              "(e.g. {\"parent\":0,\"op\":\"Module\",\"BOGUS\":1} as a node) while the strict published schema rejects them", mr,
              expected="every pydantic model of the map is rebuilt after the configuration was applied, members before the unions that embed them",
              found="only `if issubclass(c, ConfiguredBaseModel): ... c.model_rebuild(**kwargs)`")
    cb = tys.classes.get("ConfiguredBaseModel")
    um = cb.methods.get("update_model_config") if cb else None
    ok = um is not None and thas(um, "cls.model_config.update(config)")
    ctx.check(ok, "C17.R2", "ConfiguredBaseModel.update_model_config", tys.path, um.lineno if um else 1, "", um)
    ops = prog.module("hugr._serialization.ops")
    for mod, want_plus in ((tys, False), (ops, True)):
        v = mod.assigns.get("classes")
        # (a list completed at module level after it was bound: classes.extend(xs) / classes += xs)
        if v is not None:
            seen_bind = False
            for st in mod.tree.body:
                if isinstance(st, ast.Assign) and len(st.targets) == 1 and u(st.targets[0]) == "classes":
                    seen_bind = st.value is v
                    continue
                if not seen_bind:
                    continue
                if isinstance(st, ast.Expr) and isinstance(st.value, ast.Call) and u(st.value.func) == "classes.extend" and len(st.value.args) == 1 and not st.value.keywords:
                    v = ast.List(elts=[ast.Starred(value=v, ctx=ast.Load()), ast.Starred(value=st.value.args[0], ctx=ast.Load())], ctx=ast.Load())
                elif isinstance(st, ast.AugAssign) and u(st.target) == "classes" and isinstance(st.op, ast.Add):
                    v = ast.List(elts=[ast.Starred(value=v, ctx=ast.Load()), ast.Starred(value=st.value, ctx=ast.Load())], ctx=ast.Load())
            ast.fix_missing_locations(v)
        try:
            src = u(ctx.canon.module_expr(mod, v)) if v is not None else ""
        except Exception:
            src = ""
        # (canonical: inspect.getmembers of a module object is its namespace sorted by name)
        gen = "(c0, c1) for c0, c1 in sorted(vars(sys.modules[__name__]).items()) if inspect.isclass(c1) if c1.__module__ == __name__"
        ok = src == (f"[*({gen}), *tys_classes]" if want_plus else f"[{gen}]")
        ctx.check(ok, "C17.R2", f"{mod.name}.classes", mod.path, getattr(v, "lineno", 1),
                  "the class list handed to model_rebuild must be all classes defined in this module" + (" plus those of tys" if want_plus else ""), v)


def r3_no_hidden_acceptance_logic(ctx, d, with_required: bool = True) -> None:
    """What a model accepts must be what its schema says: no validators, constructors or config switches
    that accept/reject documents beyond the declared fields (the one pass-through WrapValidator excepted)."""
    bad_decos = ("field_validator", "model_validator", "validator", "root_validator", "field_serializer",
                 "model_serializer", "computed_field")
    bad_methods = ("__init__", "__new__", "model_post_init", "model_validate", "model_validate_json", "__get_pydantic_core_schema__",
                   "__get_pydantic_json_schema__", "model_json_schema",
                   # (an enumeration's look-up hook: the validator calls it for values that are no member, the schema lists the members)
                   "_missing_")
    n = 0
    for m in d.mods.values():
        for c in m.classes.values():
            if not (d.is_model(c) or d.is_enum(c)):
                continue
            n += 1
            probs = []
            for name, fn in c.methods.items():
                if name in bad_methods:
                    probs.append((fn, f"defines {name}"))
                for deco in fn.decorator_list:
                    if u(deco).split("(")[0].split(".")[-1] in bad_decos:
                        probs.append((fn, f"@{u(deco)[:40]} on {name}"))
            cfg = d.expand(m, c.class_assigns.get("model_config"))
            seen_alias = 0
            while isinstance(cfg, ast.Name) and seen_alias < 4:
                # model_config = <module-level ConfigDict(..)>, possibly imported
                seen_alias += 1
                try:
                    r_ = d.resolve(m, cfg.id)
                except Unsupported:
                    break
                cfg = r_[1] if r_[0] == "alias" else None
            if isinstance(cfg, ast.Call):
                for kw in cfg.keywords:
                    # (populate_by_name, also accepted as a class keyword below, only matters for aliases, which are refused)
                    if kw.arg not in ("title", "json_schema_extra", "populate_by_name"):
                        probs.append((cfg, f"model_config sets {kw.arg}"))
            elif c.class_assigns.get("model_config") is not None and cfg is not None and not isinstance(cfg, ast.Call):
                probs.append((c.class_assigns["model_config"], f"model_config is `{u(c.class_assigns['model_config'])[:40]}`, not a ConfigDict(..) literal"))
            for kw in c.node.keywords:
                if kw.arg not in ("populate_by_name", "metaclass"):
                    probs.append((c.node, f"class keyword {kw.arg}"))
            for f in c.fields:
                fi = d.field_info(m, f.node.value)
                if fi and ("alias" in fi or "validation_alias" in fi or "exclude" in fi):
                    probs.append((f.node, f"field {f.name} uses alias/exclude"))
            if probs:
                for node, why in probs:
                    ctx.fail("C17.R3", f"{c.qualname}", m.path, node.lineno,
                             f"{c.name} {why}: the documents it accepts/emits are no longer determined by the declared fields "
                             "that the published schema is derived from", node)
            else:
                ctx.ok("C17.R3", c.qualname, "fields only")
    # a `required` override in json_schema_extra only edits the schema: the decoder must require the field too
    for m in (d.mods.values() if with_required else ()):
        for c in m.classes.values():
            cfg = d.expand(m, c.class_assigns.get("model_config"))
            if not (d.is_model(c) and isinstance(cfg, ast.Call)):
                continue
            extra = next((kw.value for kw in cfg.keywords if kw.arg == "json_schema_extra"), None)
            if not isinstance(extra, ast.Dict):
                continue
            req = next((v for k, v in zip(extra.keys, extra.values) if isinstance(k, ast.Constant) and k.value == "required"), None)
            if req is None:
                continue
            if not (isinstance(req, (ast.List, ast.Tuple)) and all(isinstance(e, ast.Constant) and isinstance(e.value, str) for e in req.elts)):
                ctx.broken(f"{c.qualname}: json_schema_extra['required'] is not a literal list of names")
            own = {f.name: (k, f) for k in reversed(c.mro) for f in k.fields if not f.classvar}
            for e in req.elts:
                if e.value not in own:
                    continue        # a tag of the union's members (RootModel): required by the discriminator itself
                k, f = own[e.value]
                fi = d.field_info(k.module, f.node.value)
                has_default = f.node.value is not None and (fi is None or "default" in fi or "default_factory" in fi)
                ctx.check(not has_default, "C17.R3", f"{c.qualname}.{e.value}: required by the schema and by the decoder", m.path, f.node.lineno,
                          f"the published schema lists `{e.value}` as required (json_schema_extra override) but the model gives it a default "
                          f"(`{u(f.node.value)[:60]}`): a document without `{e.value}` is accepted by the decoder and rejected by the schema", f.node)
    tys_mod = d.mods["hugr._serialization.tys"]
    wv = tys_mod.functions.get("_json_custom_error_validator")
    if wv is not None:
        rb = real_body(wv)
        ok = bool(rb) and isinstance(rb[0], ast.Return) and u(rb[0].value) == f"{wv.args.args[1].arg}({wv.args.args[0].arg})"
        ctx.check(ok, "C17.R3", "hugr._serialization.tys._json_custom_error_validator", tys_mod.path, wv.lineno,
                  "the WrapValidator used on the recursive unions must pass the value straight to the handler", wv)
    sh = d.mods["hugr._serialization.serial_hugr"].classes["SerialHugr"]
    lj = sh.methods.get("load_json")
    if lj is None:
        ctx.broken("anchor vanished: SerialHugr.load_json")
    rb = real_body(lj)
    ok = len(rb) == 1 and isinstance(rb[0], ast.Return) and u(rb[0].value) in (
        f"cls(**{lj.args.args[1].arg})", f"cls.model_validate({lj.args.args[1].arg})", f"SerialHugr(**{lj.args.args[1].arg})")
    ctx.check(ok, "C17.R3", "hugr._serialization.serial_hugr.SerialHugr.load_json", sh.module.path, lj.lineno,
              "load_json must build the model through its validating constructor from the whole document", lj,
              expected="cls(**json)", found=u(rb[0]) if rb else "")
    for m in d.mods.values():
        for c in calls_in(m.tree):
            if u(c.func).endswith("model_construct"):
                ctx.fail("C17.R3", f"{m.name}:model_construct", m.path, c.lineno, "model_construct bypasses validation", c)
    ctx.stats["C17 model classes inspected"] = n


# ---------------------------------------------------------------------------------------
ST = "hugr-py/src/hugr/_serialization/tys.py"
SO = "hugr-py/src/hugr/_serialization/ops.py"
SH = "hugr-py/src/hugr/_serialization/serial_hugr.py"
SE = "hugr-py/src/hugr/_serialization/extension.py"
MUTANTS = [
    dict(name="rename-field", file=SO, expect="C17.R1", old="    name: str\n    definition: Type\n", new="    name: str\n    defn: Type\n"),
    dict(name="optional-field", file=SE, expect="C17.R1", old="    description: str  # Human readable", new="    description: str = \"\"  # Human readable"),
    dict(name="change-default", file=SE, expect="C17.R1", old="    binary: bool = False", new="    binary: bool = True"),
    dict(name="change-tag", file=SO, expect="C17.R1", old='op: Literal["DFG"] = "DFG"', new='op: Literal["Dfg"] = "Dfg"'),
    dict(name="drop-literal-default", file=SE, expect="C17.R1", old='b: Literal["Explicit"] = "Explicit"', new='b: Literal["Explicit"]'),
    dict(name="add-field", file=SH, expect="C17.R1", old="    edges: list[Edge]\n", new="    edges: list[Edge]\n    hierarchy: list[int] | None = None\n"),
    dict(name="change-type", file=SH, expect="C17.R1", old="Port = tuple[NodeIdx, PortOffset | None]", new="Port = tuple[NodeIdx, PortOffset]"),
    dict(name="set-to-list", file=SE, expect="C17.R1", old="    runtime_reqs: set[ExtensionId]", new="    runtime_reqs: list[ExtensionId]"),
    dict(name="version-bump", file=SH, expect="C17.R2", old='    return "live"', new='    return "v2"'),
    dict(name="union-member-dropped", file=SO, expect="C17.R1", old="        | AliasDecl\n        | AliasDefn\n    ) = Field", new="        | AliasDecl\n    ) = Field"),
    dict(name="generator-config", file=GEN, expect="C17.R2", old='lax_config = ConfigDict(strict=False, extra="allow")', new='lax_config = ConfigDict(strict=False, extra="ignore")'),
    dict(name="required-extra-dropped", file=SH, expect="C17.R1", old='            "required": ["version", "nodes", "edges"],', new='            "required": ["nodes", "edges"],'),
    dict(name="published-edited", file="specification/schema/hugr_schema_strict_live.json", expect="C17.R1",
         old='"title": "Hugr",', new='"title": "HUGR",', count=1),
]
MUTANTS += [
    dict(name="hidden-validator", file=SE, expect="C17.R3", old="class FixedHugr(ConfiguredBaseModel):\n    extensions: ExtensionSet\n    hugr: Any\n",
         new="class FixedHugr(ConfiguredBaseModel):\n    extensions: ExtensionSet\n    hugr: Any\n\n    @pd.field_validator(\"extensions\")\n    @classmethod\n    def _nonempty(cls, v):\n        assert v\n        return v\n"),
    dict(name="constraint-added", file=SE, expect="C17.R1", old="    indices: list[int]\n", new="    indices: list[int] = pd.Field(min_length=1)\n"),
    dict(name="load-json-partial", file=SH, expect="C17.R3", old="        return cls(**json)", new="        return cls(nodes=json[\"nodes\"], edges=json[\"edges\"])"),
    dict(name="wrapvalidator-swallows", file=ST, expect="C17.R3", old="    return handler(value)\n    try:", new="    try:"),
]
TWINS = [
    dict(name="twin-method-added", file=SE, old="class FixedHugr(ConfiguredBaseModel):\n", new="class FixedHugr(ConfiguredBaseModel):\n    def helper(self) -> int:\n        return 1\n\n"),
    dict(name="twin-optional-spelling", file=SH, old="    encoder: str | None = Field(", new="    encoder: None | str = Field(", ),
]


def thorough(ctx):
    from ..selftest import run_battery
    return run_battery(ctx, MUTANTS, [TWINS[0]])
