"""C20 -- rendering draws every node, port and link of the HUGR exactly once.

R1 nodes / clusters; R2 port cells; R3 links; R4 purity (no mutation of the Hugr reachable from render);
R5 configuration only feeds colours and the op-name choice.  Not decided: the DOT text itself (graphviz).
"""
from __future__ import annotations

import ast

from ..cfg import CFG, EXIT, RAISE
from ..model import calls_in, call_name, kwarg, real_body, u, walk_no_nested
from .c04 import BIMAP_MUT, HUGR_MUT, LIST_MUT

R = "hugr.hugr.render"


def run(ctx) -> None:
    ctx.rule("C20.R1", "one node statement per HUGR node on each path of _viz_node, named by the node index with the op's display name; one cluster per parent, children recursed inside it", floor=6)
    ctx.rule("C20.R2", "one cell per input and output port, ids in.<i> / out.<i> with the prefixes the edge endpoints use", floor=4)
    ctx.rule("C20.R3", "one edge statement per link (no filter), endpoints built from node index and offset, value edges labelled by their type, kind match exhaustive", floor=6)
    ctx.rule("C20.R4", "rendering performs no store or mutator call on the Hugr", floor=1)
    ctx.rule("C20.R5", "the configuration only reaches colour attributes and the qualified-name choice", floor=2)
    prog = ctx.program
    ctx.rule("C20.R6", "the queries the renderer enumerates the HUGR with are complete: links() every link, children() the ordered children, port counts (shared with C04.R7)", floor=4)
    from .c04 import r6_r7_tables
    hugr_cls = prog.cls("hugr.hugr.base.Hugr")
    with ctx.as_rule(C04_R7="C20.R6"):
        r6_r7_tables(ctx, hugr_cls, hugr_cls.module.path, only={"links", "children", "num_in_ports", "num_out_ports"})
    m = prog.module(R)
    dr = m.classes.get("DotRenderer")
    if dr is None:
        ctx.broken("anchor vanished: DotRenderer")
    render, vn, vl = dr.methods.get("render"), dr.methods.get("_viz_node"), dr.methods.get("_viz_link")
    if not (render and vn and vl):
        ctx.broken("anchor vanished: DotRenderer.render/_viz_node/_viz_link")
    from ..paths import summaries
    from ..rulekit import unold
    from ..tmpl import T, thas, tmatch
    DQ = f"{R}.DotRenderer"
    rp = [a.arg for a in render.args.args]
    hp_ = rp[1]                                   # the hugr parameter of render
    np_, nh_, ng_ = [a.arg for a in vn.args.args[1:4]]      # node, hugr, graph parameters of _viz_node

    def prim(p, pred):
        return [e for e in p.effects if isinstance(e, ast.Expr) and isinstance(e.value, ast.Call) and pred(e.value)]
    # ---- R1 (path summaries: helpers extracted from _viz_node are inlined, locals are substituted away)
    rps = [p for p in ctx.paths(f"{DQ}.render") if p.kind != "raise"]
    ok = bool(rps)
    for p in rps:
        roots = prim(p, lambda c: call_name(c) == "_viz_node")
        ok = ok and len(roots) == 1 and len(roots[0].value.args) == 3 and u(roots[0].value.args[0]) == f"{hp_}.root" and u(roots[0].value.args[1]) == hp_
    ctx.check(ok, "C20.R1", "render: starts at the root", m.path, render.lineno, "rendering must draw the hierarchy from hugr.root", render)
    # (the port-row helper is seen through: which of the two builds the list of port names and tests it for emptiness is free)
    vps = [p for p in ctx.paths(f"{DQ}._viz_node", bound=4096, inline=("_html_ports",)) if p.kind != "raise"]
    op_txt = f"{nh_}[{np_}].op"
    ok_one = ok_name = ok_label = ok_disp = ok_cluster = ok_meta = bool(vps)
    f_meta = ""
    rows_ok = {"inputs_row": bool(vps), "outputs_row": bool(vps)}
    seen_branch = set()
    for p in vps:
        has_ch = [k for t, k in p.tests if u(t) in (f"{nh_}.children({np_})", f"len({nh_}.children({np_})) > 0")]
        has_ch += [not k for t, k in p.tests if u(t) in (f"len({nh_}.children({np_})) <= 0", f"len({nh_}.children({np_})) == 0")]
        nodes = prim(p, lambda c: call_name(c) == "node" and isinstance(c.func, ast.Attribute) and isinstance(c.func.value, ast.Name))
        if len(nodes) != 1 or not has_ch:
            ok_one = False
            continue
        seen_branch.add(has_ch[0])
        call = nodes[0].value
        recv = u(call.func.value)
        if has_ch[0]:
            # drawn inside its own cluster, after every child was drawn into that cluster
            sg = p.find_effect(f"{ng_}.subgraph(name=f'cluster{{{np_}.idx}}')")
            loops = [e for e in p.effects if isinstance(e, ast.For) and u(e.iter) == f"{nh_}.children({np_})"]
            good = recv != ng_ and bool(sg) and len(loops) == 1 and isinstance(loops[0].target, ast.Name) and len(loops[0].body) == 1 and \
                u(loops[0].body[0]) == f"self._viz_node({u(loops[0].target)}, {nh_}, {recv})" and not any(isinstance(x, (ast.If, ast.Continue, ast.Break)) for x in ast.walk(loops[0]))
            ok_cluster = ok_cluster and good
            ok_one = ok_one and recv != ng_
        else:
            ok_one = ok_one and recv == ng_
        nm = u(call.args[0]) if call.args else ""
        lab = kwarg(call, "label")
        labels = [c for c in ast.walk(lab) if isinstance(c, ast.Call) and call_name(c) == "_format_html_label"] if lab is not None else []
        ok_name = ok_name and nm in (f"f'{{{np_}.idx}}'", f"str({np_}.idx)") and len(labels) == 1
        if len(labels) != 1:
            ok_label = False
            continue
        lc = labels[0]
        nl, ir, orow = kwarg(lc, "node_label"), kwarg(lc, "inputs_row"), kwarg(lc, "outputs_row")
        ok_label = ok_label and nl is not None and ir is not None and orow is not None
        # metadata lines: every entry, key and value formatted whatever their type
        ndat = kwarg(lc, "node_data")
        md = f"{nh_}[{np_}].metadata"
        want_md = f"'<BR/><BR/>' + '<BR/>'.join((f'{{c0}}: {{c1}}' for c0, c1 in {md}.items()))"
        got_md = unold(ndat) if ndat is not None else None
        ok_meta = ok_meta and got_md in ("''", want_md, f"{want_md} if {md} else ''", f"{want_md} if len({md}) > 0 else ''",
                                         f"{want_md} if [f'{{c0}}: {{c1}}' for c0, c1 in {md}.items()] else ''")
        if got_md not in ("''", None) and ok_meta is False and not f_meta:
            f_meta = got_md
        # display name: the definition's short name for extension ops unless qualified names are configured
        ext = [k for t, k in p.tests if unold(t) == f"isinstance({op_txt}, AsExtOp)"]
        qual = [k for t, k in p.tests if u(t) == "self.config.qualify_op_name"]
        short = bool(ext) and ext[0] and bool(qual) and not qual[0]
        want_nl = f"{op_txt}.op_def().name" if short else f"{op_txt}.name()"
        ok_disp = ok_disp and nl is not None and unold(nl) == want_nl and bool(ext) and (not ext[0] or bool(qual))
        # ---- R2: one cell per port: the row is empty exactly when the node has no port of that side, else the row template over
        #      the cells of ports "0", "1", .., n-1 in order, each with id prefix + port
        from ..tmpl import T, tmatch
        for var, arg, cnt, prefix in (("inputs_row", ir, "num_in_ports", "self._INPUT_PREFIX"), ("outputs_row", orow, "num_out_ports", "self._OUTPUT_PREFIX")):
            n_txt = f"{nh_}.{cnt}({np_})"
            names = (f"[str(c0) for c0 in range({n_txt})]", f"(str(c0) for c0 in range({n_txt}))")
            def says_empty(tt, k):
                if tt in [f"len({x}) <= 0" for x in names] + [f"len({x}) == 0" for x in names] + [f"{n_txt} <= 0", f"{n_txt} == 0", f"{n_txt} < 1"]:
                    return k
                if tt in [f"len({x}) > 0" for x in names] + list(names) + [f"{n_txt} > 0", f"{n_txt} >= 1", n_txt, f"{n_txt} != 0"]:
                    return not k
                return None
            empty = None            # what the path has established: True = no ports, False = some
            for t, k in p.tests:
                e_ = says_empty(unold(t), k)
                empty = e_ if e_ is not None else empty
            try:
                row = ast.parse(unold(arg), mode="eval").body if arg is not None else None
            except SyntaxError:
                row = None
            if row is not None and empty is None and isinstance(row, ast.IfExp):
                # the choice written as a conditional expression in the argument: both alternatives are judged
                e_ = says_empty(u(row.test), True)
                if e_ is not None:
                    some_row, none_row = (row.orelse, row.body) if e_ else (row.body, row.orelse)
                    rows_ok[var] = rows_ok[var] and u(none_row) == "''"
                    row, empty = some_row, False
            if row is None or empty is None:
                rows_ok[var] = False
                continue
            if empty:
                rows_ok[var] = rows_ok[var] and u(row) == "''"
                continue
            e = tmatch(row, T("self._HTML_PORTS_ROW_TEMPLATE.format(port_cells=''.join((self._HTML_PORT_TEMPLATE.format(port=E_p, port_id=E_id, back_colour=ANY_, "
                              "font_colour=ANY_, border_width=ANY_, border_colour=ANY_, fontface=ANY_) for L_v in E_src)))"))
            good = e is not None
            if good:
                v = e["L_v"]
                # the cell's port is str(i) for i in range(n): either the names were listed first, or the offsets are formatted in the cell
                listed = e["E_p"] == v and e["E_src"] in [x.replace("c0", v) if False else x for x in names] + [f"[str({w}) for {w} in range({n_txt})]" for w in ("c0", "c1")]
                direct = e["E_p"] == f"str({v})" and e["E_src"] == f"range({n_txt})"
                good = (listed or direct) and e["E_id"] == f"{prefix} + {e['E_p']}"
            rows_ok[var] = rows_ok[var] and good
    ctx.check(ok_one and seen_branch == {True, False}, "C20.R1", "_viz_node: exactly one node statement per path", m.path, vn.lineno,
              "a node with children is drawn once inside its cluster, a leaf once in the enclosing graph: never zero or two statements", vn)
    ctx.check(ok_name, "C20.R1", "_viz_node: node statement named by index", m.path, vn.lineno,
              "node statements must be named str(node.idx) -- the name the edge endpoints refer to -- and carry the label", vn)
    ctx.check(ok_label, "C20.R1", "_viz_node: label carries the display name and both port rows", m.path, vn.lineno, "", vn)
    ctx.check(ok_disp, "C20.R1", "_viz_node: display name from the node's own op", m.path, vn.lineno, "", vn)
    ctx.check(ok_meta, "C20.R1", "_viz_node: metadata lines format any key and value", m.path, vn.lineno,
              "every metadata entry is shown as `key: value` with both formatted (f-string / str): metadata values are arbitrary JSON, joining them as "
              "strings raises for numbers, booleans, None and lists", vn, found=f_meta[:300])
    ctx.check(ok_cluster, "C20.R1", "_viz_node: one cluster per parent, every child recursed inside it", m.path, vn.lineno,
              "a node with children opens cluster<idx> and draws each child (no filter) into that cluster, so clusters nest as the hierarchy does", vn)
    # ---- R2
    ctx.check(rows_ok["inputs_row"], "C20.R2", "_viz_node: in_ports", m.path, vn.lineno, "one cell per input port, rendered with the input prefix", vn)
    ctx.check(rows_ok["outputs_row"], "C20.R2", "_viz_node: out_ports", m.path, vn.lineno, "one cell per output port, rendered with the output prefix", vn)
    hp = dr.methods.get("_html_ports")
    # (the helper is seen through by the two rules above, cell template and prefix included; what remains to say about it on its own is
    #  that every cell goes through the port template)
    ok = rows_ok["inputs_row"] and rows_ok["outputs_row"]
    if hp is not None:
        ok = ok and thas(ctx.cfn(f"{DQ}._html_ports"), "self._HTML_PORT_TEMPLATE.format(port=ANY_, port_id=ANY_, back_colour=ANY_, font_colour=ANY_, border_width=ANY_, border_colour=ANY_, fontface=ANY_)")
    ctx.check(ok, "C20.R2", "_html_ports: one cell per port with id prefix+port", m.path, hp.lineno if hp else 1, "", hp)
    pre = {k: v.value for k, v in dr.class_assigns.items() if k in ("_INPUT_PREFIX", "_OUTPUT_PREFIX") and isinstance(v, ast.Constant)}
    ok = pre.get("_INPUT_PREFIX") == "in." and pre.get("_OUTPUT_PREFIX") == "out." and pre["_INPUT_PREFIX"] != pre["_OUTPUT_PREFIX"]
    ctx.check(ok, "C20.R2", "port id prefixes", m.path, dr.node.lineno, "input and output cells need distinct prefixes", dr.node, found=str(pre))
    for name, pfx in (("_in_port_name", "self._INPUT_PREFIX"), ("_out_port_name", "self._OUTPUT_PREFIX")):
        fn = dr.methods.get(name)
        ok = False
        if fn is not None:
            pa = fn.args.args[1].arg
            qs = ctx.paths(f"{DQ}.{name}")
            ok = bool(qs) and all(q.kind == "return" and q.value_text() == f"f'{{{pa}.node.idx}}:{{{pfx}}}{{{pa}.offset}}'" for q in qs)
        ctx.check(ok, "C20.R3", f"{name}", m.path, fn.lineno if fn else 1,
                  "edge endpoints name <node index>:<prefix><offset>, the id of the port's cell", fn, found=u(real_body(fn)[-1]) if fn else "")
    # ---- R3: stated on `render` with the edge helper seen through (which of the two looks the port kind up is free): every link of
    #      hugr.links() gets exactly one edge statement from the source's port cell to the target's, styled by the kind of the source port
    ok = bool(rps)
    after = bool(rps)
    for p in rps:
        loops = [e for e in p.effects if isinstance(e, ast.For) and unold(e.iter) == f"{hp_}.links()"]
        roots = [i for i, e in enumerate(p.effects) if isinstance(e, ast.Expr) and isinstance(e.value, ast.Call) and call_name(e.value) == "_viz_node"]
        ok = ok and len(loops) == 1
        after = after and bool(roots) and len(loops) == 1 and p.effects.index(loops[0]) > roots[0]
    rcf = ctx.cfn(f"{DQ}.render", inline=("_viz_link",), subst=False)
    lloops = [n for n in rcf.body if isinstance(n, ast.For) and u(n.iter) == f"{hp_}.links()" and isinstance(n.target, ast.Tuple) and len(n.target.elts) == 2]
    gdefs = [s_.targets[0].id for s_ in rcf.body if isinstance(s_, ast.Assign) and isinstance(s_.targets[0], ast.Name) and isinstance(s_.value, ast.Call)
             and u(s_.value.func).endswith("Digraph")]
    if len(lloops) != 1 or len(gdefs) != 1:
        ok = False
        lps, sv, tv, K, gv_ = [], "?", "?", "?", "?"
    else:
        lp = lloops[0]
        sv, tv = u(lp.target.elts[0]), u(lp.target.elts[1])
        K, gv_ = f"{hp_}.port_kind({sv})", gdefs[0]
        lps = [q for q in summaries(lp.body) if q.kind != "raise"]
    ctx.check(ok and bool(lps), "C20.R3", "render: one _viz_link per link", m.path, render.lineno, "every link of hugr.links() is drawn, with the kind of its source port", render)
    ctx.check(after, "C20.R3", "render: nodes before links", m.path, render.lineno, "", render)
    ok = bool(lps)
    handled = set()
    ok_val = False
    no_exit = bool(lps)
    for p in lps:
        edges = prim(p, lambda c: call_name(c) == "edge")
        # graphviz: Digraph.edge(tail_name, head_name, label=None, **attrs)
        ends = [kwarg(edges[0].value, "tail_name", 0), kwarg(edges[0].value, "head_name", 1)] if len(edges) == 1 else []
        good = len(edges) == 1 and all(e_ is not None for e_ in ends) and [u(a) for a in ends] == [f"self._out_port_name({sv})", f"self._in_port_name({tv})"] \
            and kwarg(edges[0].value, "label", 2) is not None and u(edges[0].value.func.value) == gv_
        ok = ok and good
        kinds = [t for t, k in p.tests if k and isinstance(t, ast.Call) and u(t.func) == "isinstance" and unold(t.args[0]) == K]
        never = any(isinstance(e, ast.Expr) and isinstance(e.value, ast.Call) and u(e.value.func) == "assert_never" for e in p.effects)
        if kinds:
            from ..paths import _isinstance_parts
            handled |= {x.split(".")[-1] for x in _isinstance_parts(kinds[-1])[1]}
            if "ValueKind" in u(kinds[-1].args[1]) and good:
                ok_val = unold(kwarg(edges[0].value, "label", 2)) in (f"str({K}.ty)", f"f'{{{K}.ty}}'")
        elif not never:
            no_exit = False
        if p.kind not in ("fall", "continue"):
            no_exit = False
    ctx.check(ok, "C20.R3", "_viz_link: exactly one edge statement from out-port to in-port", m.path, vl.lineno,
              "every kind must fall through to the single graph.edge(<source port name>, <target port name>, label=...)", vl)
    tys_m = prog.module("hugr.tys")
    kind = tys_m.assigns.get("Kind")
    members = set()

    def flat(e):
        if isinstance(e, ast.BinOp):
            flat(e.left)
            flat(e.right)
        else:
            members.add(u(e))
    if kind is not None:
        flat(kind)
    ctx.check(handled == members and bool(members), "C20.R3", "_viz_link: kind match exhaustive", m.path, vl.lineno,
              "every member of tys.Kind needs an arm (an unhandled kind would leave `color` unbound or hit assert_never)", vl, expected=str(sorted(members)), found=str(sorted(handled)))
    ctx.check(ok_val, "C20.R3", "_viz_link: value edges labelled by their type", m.path, vl.lineno, "", vl)
    ctx.check(no_exit, "C20.R3", "_viz_link: no arm skips the edge", m.path, vl.lineno, "", vl)
    # ---- R4: effect analysis over every method of the renderer
    bad = []
    for name, fn in dr.methods.items():
        # locals bound to values obtained from the hugr (children lists, node data, metadata dicts, ops) are hugr state too
        derived = {"hugr", "node", "op", "meta", "src_port", "tgt_port", "kind"}
        for n in ast.walk(fn):
            tgt, v = None, None
            if isinstance(n, ast.Assign) and len(n.targets) == 1 and isinstance(n.targets[0], ast.Name):
                tgt, v = n.targets[0].id, n.value
            elif isinstance(n, ast.NamedExpr):
                tgt, v = n.target.id, n.value
            if tgt is not None and v is not None and (u(v).startswith("hugr.") or u(v).startswith("hugr[")) and not isinstance(v, ast.ListComp):
                if not (isinstance(v, ast.Call) and call_name(v) in ("num_in_ports", "num_out_ports", "port_kind", "links")):
                    derived.add(tgt)
        for n in ast.walk(fn):
            if isinstance(n, ast.Call) and isinstance(n.func, ast.Attribute) and isinstance(n.func.value, ast.Name) and n.func.value.id in derived \
                    and n.func.attr in (LIST_MUT | {"update", "setdefault", "pop", "popitem", "clear", "sort", "reverse"}):
                bad.append(n)
        for n in ast.walk(fn):
            if isinstance(n, (ast.Assign, ast.AugAssign, ast.Delete)):
                tgs = n.targets if isinstance(n, (ast.Assign, ast.Delete)) else [n.target]
                for t in tgs:
                    root = t
                    while isinstance(root, (ast.Attribute, ast.Subscript)):
                        root = root.value
                    if isinstance(t, (ast.Attribute, ast.Subscript)) and isinstance(root, ast.Name) and root.id in ("hugr", "node", "op", "meta", "src_port", "tgt_port", "kind"):
                        bad.append(n)
                    if isinstance(t, (ast.Attribute, ast.Subscript)) and isinstance(root, ast.Call) and "hugr" in u(root):
                        bad.append(n)
            if isinstance(n, ast.Call) and isinstance(n.func, ast.Attribute) and n.func.attr in (LIST_MUT | BIMAP_MUT | HUGR_MUT | {"update", "setdefault", "pop", "popitem", "clear"}):
                root = n.func.value
                txt = u(root)
                if txt.startswith("hugr") or txt in ("meta", "op", "node") or txt.startswith("hugr["):
                    bad.append(n)
    ctx.check(not bad, "C20.R4", "DotRenderer: the Hugr is read-only", m.path, bad[0].lineno if bad else dr.node.lineno,
              f"rendering modifies the HUGR (`{u(bad[0])[:80] if bad else ''}`)", bad[0] if bad else None, detail=f"{len(dr.methods)} renderer methods, no store/mutator on hugr-derived values")
    # ---- R5: config uses
    uses = [n for n in ast.walk(dr.node) if isinstance(n, ast.Attribute) and u(n).startswith("self.config")]
    allowed = 0
    stray = []
    for n in uses:
        s = u(n)
        if s.startswith("self.config.palette.") or s == "self.config.palette" or s == "self.config.qualify_op_name":
            allowed += 1
        elif s == "self.config":
            continue
        else:
            stray.append(n)
    ctx.check(not stray, "C20.R5", "config reaches only palette colours and qualify_op_name", m.path, stray[0].lineno if stray else dr.node.lineno,
              "rendering must be independent of the configuration except for colours and the extension prefix of operation names", stray[0] if stray else None,
              detail=f"{allowed} uses")
    # the configuration steers control flow in one place only: qualify_op_name, asked for extension ops when the display name is chosen
    ok = True
    pal_struct = []
    seen_q = False
    for name in dr.methods:
        try:
            qs = ctx.paths(f"{R}.DotRenderer.{name}", bound=4096)
        except Exception:
            qs = []
        for q_ in qs:
            for t, k in q_.tests:
                txt = u(t)
                if "self.config" not in txt:
                    continue
                if "palette" in txt:
                    pal_struct.append(t)
                elif txt == "self.config.qualify_op_name" and any(u(t2).startswith("isinstance(") and "AsExtOp" in u(t2) and k2 for t2, k2 in q_.tests):
                    seen_q = True
                else:
                    ok = False
    ok = ok and seen_q
    ctx.check(ok and not pal_struct, "C20.R5", "qualify_op_name only selects the display name; palette never steers control flow", m.path, vn.lineno, "", vn)
    from .. import lints
    lints.arm(ctx)



# ---------------------------------------------------------------------------------------
F = "hugr-py/src/hugr/hugr/render.py"
MUTANTS = [
    dict(name="leaf-drawn-twice", file=F, expect="C20.R1", old="            graph.node(f\"{node.idx}\", label=f\"<{html_label}>\", shape=\"plain\")", new="            graph.node(f\"{node.idx}\", label=f\"<{html_label}>\", shape=\"plain\")\n            graph.node(f\"{node.idx}\", label=f\"<{html_label}>\", shape=\"plain\")"),
    dict(name="parent-not-drawn", file=F, expect="C20.R1", old="                sub.node(f\"{node.idx}\", shape=\"plain\", label=f\"<{html_label}>\")\n", new=""),
    dict(name="node-named-by-op", file=F, expect="C20.R1", old="            graph.node(f\"{node.idx}\", label=f\"<{html_label}>\", shape=\"plain\")", new="            graph.node(op_name, label=f\"<{html_label}>\", shape=\"plain\")"),
    dict(name="first-child-only", file=F, expect="C20.R1", old="                for child in hugr.children(node):\n                    self._viz_node(child, hugr, sub)", new="                for child in hugr.children(node)[:1]:\n                    self._viz_node(child, hugr, sub)"),
    dict(name="children-outside-cluster", file=F, expect="C20.R1", old="                    self._viz_node(child, hugr, sub)", new="                    self._viz_node(child, hugr, graph)"),
    dict(name="out-ports-from-in-count", file=F, expect="C20.R2", old="        out_ports = [str(i) for i in range(hugr.num_out_ports(node))]", new="        out_ports = [str(i) for i in range(hugr.num_in_ports(node))]"),
    dict(name="ports-one-based", file=F, expect="C20.R2", old="        in_ports = [str(i) for i in range(hugr.num_in_ports(node))]", new="        in_ports = [str(i + 1) for i in range(hugr.num_in_ports(node))]"),
    dict(name="same-prefix", file=F, expect="C20.R2", old="    _OUTPUT_PREFIX = \"out.\"", new="    _OUTPUT_PREFIX = \"in.\""),
    dict(name="endpoint-uses-wrong-prefix", file=F, expect="C20.R3", old="        return f\"{p.node.idx}:{self._OUTPUT_PREFIX}{p.offset}\"", new="        return f\"{p.node.idx}:{self._INPUT_PREFIX}{p.offset}\""),
    dict(name="order-links-not-drawn", file=F, expect="C20.R3", old="        for src_port, tgt_port in hugr.links():\n            kind = hugr.port_kind(src_port)", new="        for src_port, tgt_port in hugr.links():\n            if src_port.offset < 0:\n                continue\n            kind = hugr.port_kind(src_port)"),
    dict(name="edge-reversed", file=F, expect="C20.R3", old="            self._out_port_name(src_port),\n            self._in_port_name(tgt_port),", new="            self._in_port_name(tgt_port),\n            self._out_port_name(src_port),"),
    dict(name="const-edges-skipped", file=F, expect="C20.R3", old="            case ConstKind() | FunctionKind():\n                color = self.config.palette.const", new="            case ConstKind() | FunctionKind():\n                return"),
    dict(name="value-label-dropped", file=F, expect="C20.R3", old="                label = str(ty)\n", new="                label = \"\"\n"),
    dict(name="cf-kind-unhandled", file=F, expect="C20.R3", old="            case CFKind():\n                color = self.config.palette.dark\n", new=""),
    dict(name="render-clears-metadata", file=F, expect="C20.R4", old="        meta = hugr[node].metadata\n", new="        meta = hugr[node].metadata\n        meta.pop(\"name\", None)\n"),
    dict(name="config-controls-structure", file=F, expect="C20.R5", old="        if hugr.children(node):\n            with graph.subgraph", new="        if hugr.children(node) and self.config.qualify_op_name:\n            with graph.subgraph"),
]
TWINS = []


def thorough(ctx):
    from ..selftest import run_battery
    return run_battery(ctx, MUTANTS, TWINS)
