"""C20 -- rendering draws every node, port and link of the HUGR exactly once.

R1 nodes / clusters; R2 port cells; R3 links; R4 purity (no mutation of the Hugr reachable from render);
R5 configuration only feeds colours and the op-name choice.  Not decided: the DOT text itself (graphviz).
"""
from __future__ import annotations

import ast

from ..cfg import CFG, EXIT, RAISE
from ..model import calls_in, call_name, kwarg, real_body, u, walk_no_nested
from .c04 import BIMAP_MUT, HUGR_MUT, LIST_MUT

R = "hugr.hugr.render"


def run(ctx) -> None:
    ctx.rule("C20.R1", "one node statement per HUGR node on each path of _viz_node, named by the node index with the op's display name; one cluster per parent, children recursed inside it", floor=6)
    ctx.rule("C20.R2", "one cell per input and output port, ids in.<i> / out.<i> with the prefixes the edge endpoints use", floor=4)
    ctx.rule("C20.R3", "one edge statement per link (no filter), endpoints built from node index and offset, value edges labelled by their type, kind match exhaustive", floor=6)
    ctx.rule("C20.R4", "rendering performs no store or mutator call on the Hugr", floor=1)
    ctx.rule("C20.R5", "the configuration only reaches colour attributes and the qualified-name choice", floor=2)
    prog = ctx.program
    m = prog.module(R)
    dr = m.classes.get("DotRenderer")
    if dr is None:
        ctx.broken("anchor vanished: DotRenderer")
    render, vn, vl = dr.methods.get("render"), dr.methods.get("_viz_node"), dr.methods.get("_viz_link")
    if not (render and vn and vl):
        ctx.broken("anchor vanished: DotRenderer.render/_viz_node/_viz_link")
    # ---- R1
    roots = [c for c in calls_in(render, "_viz_node")]
    ok = len(roots) == 1 and u(roots[0].args[0]) == "hugr.root" and not any(roots[0] in list(ast.walk(n)) for n in ast.walk(render) if isinstance(n, (ast.For, ast.If, ast.While)))
    ctx.check(ok, "C20.R1", "render: starts at the root", m.path, render.lineno, "rendering must draw the hierarchy from hugr.root", render)
    g = CFG(real_body(vn))
    node_stmts = g.where(lambda s: any(call_name(c) == "node" and isinstance(c.func, ast.Attribute) and u(c.func.value) in ("graph", "sub") for c in calls_in(s))
                         and not isinstance(s, (ast.With,)))
    node_calls = [c for c in calls_in(vn) if call_name(c) == "node" and u(c.func.value) in ("graph", "sub")]
    ok = len(node_calls) == 2
    # exactly one node statement on every path: the two are on different branches of the children test
    # locals that stand for hugr.children(node) (assignment or walrus)
    ch_alias = {"hugr.children(node)"}
    for n in ast.walk(vn):
        if isinstance(n, ast.Assign) and isinstance(n.targets[0], ast.Name) and u(n.value) == "hugr.children(node)":
            ch_alias.add(n.targets[0].id)
        if isinstance(n, ast.NamedExpr) and u(n.value) == "hugr.children(node)":
            ch_alias.add(n.target.id)

    def is_children_test(t):
        if isinstance(t, ast.NamedExpr):
            return u(t.value) == "hugr.children(node)"
        s_ = u(t)
        return s_ in ch_alias or any(s_ == f"len({a}) > 0" for a in ch_alias)
    branch = [n for n in ast.walk(vn) if isinstance(n, ast.If) and is_children_test(n.test)]
    ok = ok and len(branch) == 1
    if ok:
        in_body = [c for c in node_calls if any(c in list(ast.walk(s)) for s in branch[0].body)]
        in_else = [c for c in node_calls if any(c in list(ast.walk(s)) for s in branch[0].orelse)]
        ok = len(in_body) == 1 and len(in_else) == 1 and u(in_body[0].func.value) == "sub" and u(in_else[0].func.value) == "graph"
    ctx.check(ok, "C20.R1", "_viz_node: exactly one node statement per path", m.path, vn.lineno,
              "a node with children is drawn once inside its cluster, a leaf once in the enclosing graph: never zero or two statements", vn)
    for c in node_calls:
        nm = u(c.args[0]) if c.args else ""
        lab = kwarg(c, "label")
        ok = nm in ("f'{node.idx}'", "str(node.idx)") and lab is not None and "html_label" in u(lab)
        ctx.check(ok, "C20.R1", f"_viz_node: node statement named by index ({u(c.func.value)})", m.path, c.lineno,
                  "node statements must be named str(node.idx) -- the name the edge endpoints refer to -- and carry the label", c, found=u(c)[:100])
    labels = [c for c in calls_in(vn, "_format_html_label")]
    ok = len(labels) == 2 and all(kwarg(c, "node_label") is not None and u(kwarg(c, "node_label")) == "op_name" and kwarg(c, "inputs_row") is not None and kwarg(c, "outputs_row") is not None for c in labels)
    ctx.check(ok, "C20.R1", "_viz_node: label carries the display name and both port rows", m.path, vn.lineno, "", vn)
    names = [s for s in ast.walk(vn) if isinstance(s, ast.Assign) and u(s.targets[0]) == "op_name"]
    ok = sorted(u(s.value) for s in names) == ["op.name()", "op.op_def().name"] and any(isinstance(s, ast.Assign) and u(s) == "op = hugr[node].op" for s in ast.walk(vn))
    ctx.check(ok, "C20.R1", "_viz_node: display name from the node's own op", m.path, vn.lineno, "", vn)
    if branch:
        withs = [n for n in branch[0].body if isinstance(n, ast.With)]
        ok = len(withs) == 1 and "graph.subgraph(name=f'cluster{node.idx}')" in u(withs[0].items[0].context_expr)
        if ok:
            w = withs[0]
            loops = [n for n in w.body if isinstance(n, ast.For)]
            ok = len(loops) == 1 and u(loops[0].iter) in ch_alias and len(loops[0].body) == 1 and u(loops[0].body[0]) == f"self._viz_node({u(loops[0].target)}, hugr, sub)" \
                and not any(isinstance(x, (ast.If, ast.Continue, ast.Break)) for x in ast.walk(loops[0]))
        ctx.check(ok, "C20.R1", "_viz_node: one cluster per parent, every child recursed inside it", m.path, vn.lineno,
                  "a node with children opens cluster<idx> and draws each child (no filter) into that cluster, so clusters nest as the hierarchy does", vn)
    # ---- R2
    want = {"in_ports": "[str(i) for i in range(hugr.num_in_ports(node))]", "out_ports": "[str(i) for i in range(hugr.num_out_ports(node))]"}
    for var, expr in want.items():
        a = [s for s in ast.walk(vn) if isinstance(s, ast.Assign) and u(s.targets[0]) == var]
        ctx.check(len(a) == 1 and u(a[0].value) == expr, "C20.R2", f"_viz_node: {var}", m.path, vn.lineno, f"one cell per port: {var} = {expr}", vn, found=u(a[0].value) if a else "")
    rows = {"inputs_row": ("in_ports", "self._INPUT_PREFIX"), "outputs_row": ("out_ports", "self._OUTPUT_PREFIX")}
    for var, (ports, prefix) in rows.items():
        a = [s for s in ast.walk(vn) if isinstance(s, ast.Assign) and u(s.targets[0]) == var]
        ok = len(a) == 1 and f"self._html_ports({ports}, {prefix})" in u(a[0].value)
        ctx.check(ok, "C20.R2", f"_viz_node: {var}", m.path, vn.lineno, f"{var} must render {ports} with {prefix}", vn, found=u(a[0].value) if a else "")
    hp = dr.methods.get("_html_ports")
    src = u(hp) if hp else ""
    ok = "port_id=id_prefix + port" in src and "for port in ports" in src and "port=port" in src
    ctx.check(ok, "C20.R2", "_html_ports: one cell per port with id prefix+port", m.path, hp.lineno if hp else 1, "", hp)
    pre = {k: v.value for k, v in dr.class_assigns.items() if k in ("_INPUT_PREFIX", "_OUTPUT_PREFIX") and isinstance(v, ast.Constant)}
    ok = pre.get("_INPUT_PREFIX") == "in." and pre.get("_OUTPUT_PREFIX") == "out." and pre["_INPUT_PREFIX"] != pre["_OUTPUT_PREFIX"]
    ctx.check(ok, "C20.R2", "port id prefixes", m.path, dr.node.lineno, "input and output cells need distinct prefixes", dr.node, found=str(pre))
    for name, want_src in (("_in_port_name", "return f'{p.node.idx}:{self._INPUT_PREFIX}{p.offset}'"), ("_out_port_name", "return f'{p.node.idx}:{self._OUTPUT_PREFIX}{p.offset}'")):
        fn = dr.methods.get(name)
        ctx.check(fn is not None and u(real_body(fn)[-1]) == want_src, "C20.R3", f"{name}", m.path, fn.lineno if fn else 1,
                  "edge endpoints name <node index>:<prefix><offset>, the id of the port's cell", fn, found=u(real_body(fn)[-1]) if fn else "")
    # ---- R3
    loops = [n for n in real_body(render) if isinstance(n, ast.For)]
    ok = len(loops) == 1 and u(loops[0].iter) == "hugr.links()" and not any(isinstance(x, (ast.If, ast.Continue, ast.Break)) for x in ast.walk(loops[0]))
    if ok:
        lp = loops[0]
        sv, tv = u(lp.target.elts[0]), u(lp.target.elts[1])
        calls = [c for c in calls_in(lp, "_viz_link")]
        ok = len(calls) == 1 and [u(a) for a in calls[0].args] == [sv, tv, "kind", "graph"] and any(u(s) == f"kind = hugr.port_kind({sv})" for s in lp.body)
    ctx.check(ok, "C20.R3", "render: one _viz_link per link", m.path, render.lineno, "every link of hugr.links() is drawn, with the kind of its source port", render)
    after = real_body(render).index(loops[0]) > [i for i, s in enumerate(real_body(render)) if roots and roots[0] in list(ast.walk(s))][0] if loops and roots else False
    ctx.check(after, "C20.R3", "render: nodes before links", m.path, render.lineno, "", render)
    edges = [c for c in calls_in(vl) if call_name(c) == "edge"]
    ok = len(edges) == 1 and [u(a) for a in edges[0].args[:2]] == ["self._out_port_name(src_port)", "self._in_port_name(tgt_port)"] and kwarg(edges[0], "label") is not None
    in_branch = any(edges and edges[0] in list(ast.walk(n)) for n in ast.walk(vl) if isinstance(n, (ast.If, ast.Match, ast.For)))
    ctx.check(ok and not in_branch, "C20.R3", "_viz_link: exactly one edge statement from out-port to in-port", m.path, vl.lineno,
              "every kind must fall through to the single graph.edge(<source port name>, <target port name>, label=...)", vl)
    ms = [n for n in ast.walk(vl) if isinstance(n, ast.Match)]
    ok = len(ms) == 1
    handled = set()
    if ok:
        for c in ms[0].cases:
            for n in ast.walk(c.pattern):
                if isinstance(n, ast.MatchClass):
                    handled.add(u(n.cls))
        tys = prog.module("hugr.tys")
        kind = tys.assigns.get("Kind")
        members = set()
        def flat(e):
            if isinstance(e, ast.BinOp):
                flat(e.left); flat(e.right)
            else:
                members.add(u(e))
        if kind is not None:
            flat(kind)
        ok = handled == members and bool(members)
        ctx.check(ok, "C20.R3", "_viz_link: kind match exhaustive", m.path, ms[0].lineno,
                  "every member of tys.Kind needs an arm (an unhandled kind would leave `color` unbound or hit assert_never)", ms[0], expected=str(sorted(members)), found=str(sorted(handled)))
        varm = [c for c in ms[0].cases if isinstance(c.pattern, ast.MatchClass) and u(c.pattern.cls) == "ValueKind"]
        ok = len(varm) == 1 and any(isinstance(s, ast.Assign) and u(s.targets[0]) == "label" and u(s.value) in ("str(ty)", "f'{ty}'") for s in varm[0].body) \
            and len(varm[0].pattern.patterns) == 1 and u(varm[0].pattern.patterns[0]) == "ty"
        ctx.check(ok, "C20.R3", "_viz_link: value edges labelled by their type", m.path, ms[0].lineno, "", ms[0])
        no_exit = not any(isinstance(s, (ast.Return, ast.Raise, ast.Continue)) for c in ms[0].cases for s in ast.walk(c) if not (isinstance(c.pattern, ast.MatchAs) and c.pattern.pattern is None))
        ctx.check(no_exit, "C20.R3", "_viz_link: no arm skips the edge", m.path, ms[0].lineno, "", ms[0])
    # ---- R4: effect analysis over every method of the renderer
    bad = []
    for name, fn in dr.methods.items():
        # locals bound to values obtained from the hugr (children lists, node data, metadata dicts, ops) are hugr state too
        derived = {"hugr", "node", "op", "meta", "src_port", "tgt_port", "kind"}
        for n in ast.walk(fn):
            tgt, v = None, None
            if isinstance(n, ast.Assign) and len(n.targets) == 1 and isinstance(n.targets[0], ast.Name):
                tgt, v = n.targets[0].id, n.value
            elif isinstance(n, ast.NamedExpr):
                tgt, v = n.target.id, n.value
            if tgt is not None and v is not None and (u(v).startswith("hugr.") or u(v).startswith("hugr[")) and not isinstance(v, ast.ListComp):
                if not (isinstance(v, ast.Call) and call_name(v) in ("num_in_ports", "num_out_ports", "port_kind", "links")):
                    derived.add(tgt)
        for n in ast.walk(fn):
            if isinstance(n, ast.Call) and isinstance(n.func, ast.Attribute) and isinstance(n.func.value, ast.Name) and n.func.value.id in derived \
                    and n.func.attr in (LIST_MUT | {"update", "setdefault", "pop", "popitem", "clear", "sort", "reverse"}):
                bad.append(n)
        for n in ast.walk(fn):
            if isinstance(n, (ast.Assign, ast.AugAssign, ast.Delete)):
                tgs = n.targets if isinstance(n, (ast.Assign, ast.Delete)) else [n.target]
                for t in tgs:
                    root = t
                    while isinstance(root, (ast.Attribute, ast.Subscript)):
                        root = root.value
                    if isinstance(t, (ast.Attribute, ast.Subscript)) and isinstance(root, ast.Name) and root.id in ("hugr", "node", "op", "meta", "src_port", "tgt_port", "kind"):
                        bad.append(n)
                    if isinstance(t, (ast.Attribute, ast.Subscript)) and isinstance(root, ast.Call) and "hugr" in u(root):
                        bad.append(n)
            if isinstance(n, ast.Call) and isinstance(n.func, ast.Attribute) and n.func.attr in (LIST_MUT | BIMAP_MUT | HUGR_MUT | {"update", "setdefault", "pop", "popitem", "clear"}):
                root = n.func.value
                txt = u(root)
                if txt.startswith("hugr") or txt in ("meta", "op", "node") or txt.startswith("hugr["):
                    bad.append(n)
    ctx.check(not bad, "C20.R4", "DotRenderer: the Hugr is read-only", m.path, bad[0].lineno if bad else dr.node.lineno,
              f"rendering modifies the HUGR (`{u(bad[0])[:80] if bad else ''}`)", bad[0] if bad else None, detail=f"{len(dr.methods)} renderer methods, no store/mutator on hugr-derived values")
    # ---- R5: config uses
    uses = [n for n in ast.walk(dr.node) if isinstance(n, ast.Attribute) and u(n).startswith("self.config")]
    allowed = 0
    stray = []
    for n in uses:
        s = u(n)
        if s.startswith("self.config.palette.") or s == "self.config.palette" or s == "self.config.qualify_op_name":
            allowed += 1
        elif s == "self.config":
            continue
        else:
            stray.append(n)
    ctx.check(not stray, "C20.R5", "config reaches only palette colours and qualify_op_name", m.path, stray[0].lineno if stray else dr.node.lineno,
              "rendering must be independent of the configuration except for colours and the extension prefix of operation names", stray[0] if stray else None,
              detail=f"{allowed} uses")
    q = [n for n in ast.walk(vn) if isinstance(n, ast.If) and "qualify_op_name" in u(n.test)]
    ok = len(q) == 1 and u(q[0].test) == "isinstance(op, AsExtOp) and (not self.config.qualify_op_name)"
    pal_struct = [n for n in ast.walk(dr.node) if isinstance(n, (ast.If, ast.While, ast.For, ast.IfExp)) and "palette" in u(n.test if not isinstance(n, ast.For) else n.iter)]
    ctx.check(ok and not pal_struct, "C20.R5", "qualify_op_name only selects the display name; palette never steers control flow", m.path, vn.lineno, "", vn)
    from .. import lints
    lints.arm(ctx)



# ---------------------------------------------------------------------------------------
F = "hugr-py/src/hugr/hugr/render.py"
MUTANTS = [
    dict(name="leaf-drawn-twice", file=F, expect="C20.R1", old="            graph.node(f\"{node.idx}\", label=f\"<{html_label}>\", shape=\"plain\")", new="            graph.node(f\"{node.idx}\", label=f\"<{html_label}>\", shape=\"plain\")\n            graph.node(f\"{node.idx}\", label=f\"<{html_label}>\", shape=\"plain\")"),
    dict(name="parent-not-drawn", file=F, expect="C20.R1", old="                sub.node(f\"{node.idx}\", shape=\"plain\", label=f\"<{html_label}>\")\n", new=""),
    dict(name="node-named-by-op", file=F, expect="C20.R1", old="            graph.node(f\"{node.idx}\", label=f\"<{html_label}>\", shape=\"plain\")", new="            graph.node(op_name, label=f\"<{html_label}>\", shape=\"plain\")"),
    dict(name="first-child-only", file=F, expect="C20.R1", old="                for child in hugr.children(node):\n                    self._viz_node(child, hugr, sub)", new="                for child in hugr.children(node)[:1]:\n                    self._viz_node(child, hugr, sub)"),
    dict(name="children-outside-cluster", file=F, expect="C20.R1", old="                    self._viz_node(child, hugr, sub)", new="                    self._viz_node(child, hugr, graph)"),
    dict(name="out-ports-from-in-count", file=F, expect="C20.R2", old="        out_ports = [str(i) for i in range(hugr.num_out_ports(node))]", new="        out_ports = [str(i) for i in range(hugr.num_in_ports(node))]"),
    dict(name="ports-one-based", file=F, expect="C20.R2", old="        in_ports = [str(i) for i in range(hugr.num_in_ports(node))]", new="        in_ports = [str(i + 1) for i in range(hugr.num_in_ports(node))]"),
    dict(name="same-prefix", file=F, expect="C20.R2", old="    _OUTPUT_PREFIX = \"out.\"", new="    _OUTPUT_PREFIX = \"in.\""),
    dict(name="endpoint-uses-wrong-prefix", file=F, expect="C20.R3", old="        return f\"{p.node.idx}:{self._OUTPUT_PREFIX}{p.offset}\"", new="        return f\"{p.node.idx}:{self._INPUT_PREFIX}{p.offset}\""),
    dict(name="order-links-not-drawn", file=F, expect="C20.R3", old="        for src_port, tgt_port in hugr.links():\n            kind = hugr.port_kind(src_port)", new="        for src_port, tgt_port in hugr.links():\n            if src_port.offset < 0:\n                continue\n            kind = hugr.port_kind(src_port)"),
    dict(name="edge-reversed", file=F, expect="C20.R3", old="            self._out_port_name(src_port),\n            self._in_port_name(tgt_port),", new="            self._in_port_name(tgt_port),\n            self._out_port_name(src_port),"),
    dict(name="const-edges-skipped", file=F, expect="C20.R3", old="            case ConstKind() | FunctionKind():\n                color = self.config.palette.const", new="            case ConstKind() | FunctionKind():\n                return"),
    dict(name="value-label-dropped", file=F, expect="C20.R3", old="                label = str(ty)\n", new="                label = \"\"\n"),
    dict(name="cf-kind-unhandled", file=F, expect="C20.R3", old="            case CFKind():\n                color = self.config.palette.dark\n", new=""),
    dict(name="render-clears-metadata", file=F, expect="C20.R4", old="        meta = hugr[node].metadata\n", new="        meta = hugr[node].metadata\n        meta.pop(\"name\", None)\n"),
    dict(name="config-controls-structure", file=F, expect="C20.R5", old="        if hugr.children(node):\n            with graph.subgraph", new="        if hugr.children(node) and self.config.qualify_op_name:\n            with graph.subgraph"),
]
TWINS = []


def thorough(ctx):
    from ..selftest import run_battery
    return run_battery(ctx, MUTANTS, TWINS)
