"""C15 -- index-based (tracked) wiring is equivalent to explicit wiring.

R1 overrides forward every parameter their base forwards; R2 same construction path as Dfg.add with integer
arguments replaced by the tracked wires, in order, before the node exists; R3 rebinding after the node exists;
R4 index discipline of `tracked`.
"""
from __future__ import annotations

import ast

from ..cfg import CFG, EXIT, RAISE
from ..model import calls_in, call_name, is_stub, kwarg, real_body, u, walk_no_nested
from ..nf import NF, Env, Opaque, show, sym

TD = "hugr.build.tracked_dfg.TrackedDfg"
LIST_SHRINK = {"pop", "remove", "insert", "clear", "sort", "reverse", "extend", "__delitem__"}


def r1_forwarding(ctx) -> None:
    """every override in hugr.build reads each parameter that the overridden implementation reads"""
    prog = ctx.program
    n = 0
    for mn, m in prog.modules.items():
        if not mn.startswith("hugr.build"):
            continue
        for c in m.classes.values():
            for name, fn in c.methods.items():
                if name.startswith("__") and name != "__init__" or is_stub(fn):
                    continue
                base_fn = None
                for k in c.mro[1:]:
                    if name in k.methods and not is_stub(k.methods[name]):
                        base_fn = (k, k.methods[name])
                        break
                if base_fn is None or name == "__init__":
                    continue
                n += 1
                bk, bf = base_fn
                params = [a.arg for a in fn.args.args[1:] + fn.args.kwonlyargs] + ([fn.args.vararg.arg] if fn.args.vararg else [])
                bparams = [a.arg for a in bf.args.args[1:] + bf.args.kwonlyargs] + ([bf.args.vararg.arg] if bf.args.vararg else [])
                used_in_base = {p for p in bparams if any(isinstance(x, ast.Name) and x.id == p and isinstance(x.ctx, ast.Load) for x in ast.walk(bf))}
                used_here = {p for p in params if any(isinstance(x, ast.Name) and x.id == p and isinstance(x.ctx, ast.Load) for x in ast.walk(fn))}
                # positional correspondence for differently named parameters
                dropped = []
                for i, p in enumerate(params):
                    bp = p if p in bparams else (bparams[i] if i < len(bparams) else None)
                    if bp in used_in_base and p not in used_here:
                        dropped.append(p)
                ctx.check(not dropped, "C15.R1", f"{c.qualname}.{name}", m.path, fn.lineno,
                          f"{c.name}.{name} accepts {dropped} but never uses it, while the implementation it overrides ({bk.name}.{name}) does: "
                          "what the caller passes is silently dropped", fn, detail=f"overrides {bk.name}.{name}; parameters {sorted(used_here)} used")
    ctx.stats["C15.R1 overrides inspected"] = n


def run(ctx) -> None:
    ctx.rule("C15.R1", "every override in hugr.build uses each parameter that the implementation it overrides uses", floor=6)
    ctx.rule("C15.R2", "TrackedDfg.add builds the node by add_op(com.op, *wires, metadata=metadata) with ints replaced by tracked wires in order", floor=3)
    ctx.rule("C15.R3", "after the node exists each integer argument's index is rebound to the new node's output at the argument's position", floor=2)
    ctx.rule("C15.R4", "tracked is an append-only list: untrack sets None, no removal; outputs filter None in index order; bad indices raise IndexError", floor=7)
    r1_forwarding(ctx)
    tracked_add_rules(ctx)
    tracked_index_rules(ctx)
    from .. import lints
    lints.arm(ctx)


def tracked_add_rules(ctx, R2="C15.R2", R3="C15.R3") -> None:
    prog = ctx.program
    td = prog.cls(TD)
    file = td.module.path
    nf = NF(prog)
    # ---- R2
    add = td.methods.get("add")
    base_add = prog.cls("hugr.build.dfg.DfBase").methods.get("add")
    if add is None or base_add is None:
        ctx.broken("anchor vanished: TrackedDfg.add / DfBase.add")
    ops_calls = calls_in(add, "add_op")
    base_calls = calls_in(base_add, "add_op")
    if len(ops_calls) != 1 or len(base_calls) != 1:
        ctx.broken("add: expected exactly one add_op call in TrackedDfg.add and DfBase.add")
    call, bcall = ops_calls[0], base_calls[0]
    com = add.args.args[1].arg
    env = Env(td.module, td, {"self": sym("self"), com: sym(com), "metadata": sym("metadata")}, {sym("self"): td})
    for st in real_body(add):
        if isinstance(st, ast.Assign) and isinstance(st.targets[0], ast.Name) and st is not None:
            if call in list(ast.walk(st)):
                break
            env.vars[st.targets[0].id] = nf.ev(st.value, env)
    a0 = nf.ev(call.args[0], env) if call.args else None
    rest = [nf.ev(a.value if isinstance(a, ast.Starred) else a, env) for a in call.args[1:]]
    starred = [isinstance(a, ast.Starred) for a in call.args[1:]]
    want_wires = nf.ev(ast.parse(f"(self.tracked_wire(inc) if isinstance(inc, int) else inc for inc in {com}.incoming)", mode="eval").body, env)
    ok = a0 == ("attr", sym(com), "op") and len(rest) == 1 and starred == [True] and rest[0] == want_wires
    ctx.check(ok, R2, "TrackedDfg.add: node construction", file, call.lineno,
              "the node must be created by add_op(com.op, *wires) where wires are com.incoming with each int replaced by the wire currently tracked at it, in order", call,
              expected=f"add_op({com}.op, *{show(want_wires)})", found=f"add_op({show(a0) if a0 else ''}, " + ", ".join(show(r) for r in rest) + ")")
    # keyword arguments forwarded like the base does
    bkw = {k.arg: u(k.value) for k in bcall.keywords}
    kw = {k.arg: u(k.value) for k in call.keywords}
    ctx.check(kw == bkw, R2, "TrackedDfg.add: same keyword arguments as Dfg.add", file, call.lineno,
              f"Dfg.add forwards {bkw} to add_op; the tracked override must forward the same (metadata given for the node is otherwise lost)", call,
              expected=str(bkw), found=str(kw))
    tw = td.methods.get("_to_wires")
    if tw is not None:
        t, _ = nf.method_nf(td, "_to_wires")
        want, _ = nf.expr_nf("(self.tracked_wire(inc) if isinstance(inc, int) else inc for inc in in_wires)", td, extra={"in_wires": sym("in_wires")})
        ctx.check(t == want, R2, "TrackedDfg._to_wires", file, tw.lineno, "ints denote the wire tracked at that index, wires denote themselves, order preserved", tw,
                  expected=show(want), found=show(t))
    # ---- R3
    loops = [n for n in real_body(add) if isinstance(n, ast.For)]
    ok = len(loops) == 1 and u(loops[0].iter) == f"enumerate({com}.incoming)" and isinstance(loops[0].target, ast.Tuple)
    if ok:
        lp = loops[0]
        pv, wv = u(lp.target.elts[0]), u(lp.target.elts[1])
        g = CFG(lp.body, loop_body=True)
        stores = g.where(lambda s: isinstance(s, ast.Assign) and u(s.targets[0]).startswith("self.tracked["))
        ok = len(stores) == 1
        if ok:
            st = g.stmt[stores[0]]
            idx = u(st.targets[0].slice)
            # index variable is the int argument itself
            idx_src = idx
            for s in ast.walk(lp):
                if isinstance(s, ast.Assign) and isinstance(s.targets[0], ast.Name) and s.targets[0].id == idx:
                    idx_src = u(s.value)
            val_ok = u(st.value) == f"n.out({pv})" or u(st.value) == f"n[{pv}]"
            # executed exactly when isinstance(wire, int)
            tests = [n for n in g.dominators()[stores[0]] if g.kind.get(n) == "test"]
            guard_ok = any(u(g.stmt[t]) == f"isinstance({wv}, int)" for t in tests)
            skip_ok = EXIT in g.reachable(0, avoid={stores[0]})     # non-ints skip the store
            ok = idx_src == wv and val_ok and guard_ok and skip_ok
        ctx.check(ok, R3, "TrackedDfg.add: rebinding", file, lp.lineno,
                  "for each position p whose argument is an int i, tracked[i] must become the new node's output p; other arguments are skipped", lp)
        nodevar_assign = [s for s in real_body(add) if isinstance(s, ast.Assign) and call in list(ast.walk(s))]
        after = bool(nodevar_assign) and real_body(add).index(nodevar_assign[0]) < real_body(add).index(lp)
        ctx.check(after, R3, "TrackedDfg.add: rebinding after creation", file, lp.lineno, "indices are rebound only after the node has been wired with the old wires", lp)
    else:
        ctx.fail(R3, "TrackedDfg.add: rebinding", file, add.lineno, "no rebinding loop over enumerate(com.incoming)", add)
    rets = [r for r in ast.walk(add) if isinstance(r, ast.Return)]
    ctx.check(len(rets) == 1 and u(rets[0].value) == "n", R3, "TrackedDfg.add: returns the node", file, add.lineno, "", add)


def tracked_index_rules(ctx) -> None:
    prog = ctx.program
    td = prog.cls(TD)
    file = td.module.path
    nf = NF(prog)
    # ---- R4
    writers = {}
    for name, fn in td.methods.items():
        for n in ast.walk(fn):
            w = None
            if isinstance(n, ast.Assign):
                for t in n.targets:
                    if u(t) == "self.tracked":
                        w = "rebind"
                    if isinstance(t, ast.Subscript) and u(t.value) == "self.tracked":
                        w = f"store:{u(n.value)}" if name == "untrack_wire" else "store"
            if isinstance(n, ast.Delete) and any("self.tracked" in u(t) for t in n.targets):
                w = "delete"
            if isinstance(n, ast.Call) and isinstance(n.func, ast.Attribute) and u(n.func.value) == "self.tracked" and n.func.attr in LIST_SHRINK | {"append"}:
                w = n.func.attr
            if w:
                writers.setdefault(name, []).append((w, n))
    allowed = {"__init__": {"rebind"}, "track_wire": {"append"}, "untrack_wire": {"store:None"}, "add": {"store"}}
    for name, ws in writers.items():
        kinds = {w for w, _ in ws}
        ok = name in allowed and kinds <= allowed[name]
        ctx.check(ok, "C15.R4", f"TrackedDfg.{name}: writes tracked", file, ws[0][1].lineno,
                  f"{name} changes `tracked` by {sorted(kinds)}: indices must stay stable -- only append (track), tracked[i] = None (untrack) and "
                  "tracked[i] = wire (add) are allowed", ws[0][1], detail=str(sorted(kinds)))
    for mn, m in prog.modules.items():
        for n in ast.walk(m.tree):
            if isinstance(n, ast.Attribute) and n.attr == "tracked" and isinstance(n.ctx, (ast.Store, ast.Del)) and mn != "hugr.build.tracked_dfg":
                ctx.fail("C15.R4", f"{mn}: writes tracked", m.path, n.lineno, "tracked is written outside TrackedDfg", n)
    twm = td.methods.get("tracked_wire")
    g = CFG(real_body(twm))
    raises = [n for n, s in g.stmt.items() if isinstance(s, ast.Raise) and "IndexError" in u(s)]
    rets = [n for n, s in g.stmt.items() if isinstance(s, ast.Return)]
    ok = len(raises) == 1 and len(rets) == 1
    if ok:
        tests = [n for n in g.dominators()[raises[0]] if g.kind.get(n) == "test"]
        ok = any(u(g.stmt[t]) == "tracked is None" for t in tests) and rets[0] not in g.reachable(0, avoid=set(tests))
        handlers = [s for s in ast.walk(twm) if isinstance(s, ast.ExceptHandler)]
        ok = ok and len(handlers) == 1 and u(handlers[0].type) == "IndexError" and any(u(x) == "tracked = None" for x in handlers[0].body)
        ok = ok and any(isinstance(s, ast.Assign) and u(s) == f"tracked = self.tracked[{twm.args.args[1].arg}]" for s in ast.walk(twm))
    ctx.check(ok, "C15.R4", "TrackedDfg.tracked_wire", file, twm.lineno,
              "tracked_wire(i) returns tracked[i] and raises IndexError when the index is out of range or no longer tracked", twm)
    ut = td.methods.get("untrack_wire")
    rb = real_body(ut)
    p = ut.args.args[1].arg
    ok = [u(s) for s in rb] == [f"w = self.tracked_wire({p})", f"self.tracked[{p}] = None", "return w"]
    ctx.check(ok, "C15.R4", "TrackedDfg.untrack_wire", file, ut.lineno, "untracking checks the index, frees it for good (None) and returns the wire", ut)
    tk = td.methods.get("track_wire")
    rb = real_body(tk)
    ok = [u(s) for s in rb] == [f"self.tracked.append({tk.args.args[1].arg})", "return len(self.tracked) - 1"]
    ctx.check(ok, "C15.R4", "TrackedDfg.track_wire", file, tk.lineno, "tracking appends and returns the new (last) index", tk)
    so = td.methods.get("set_tracked_outputs")
    ok = so is not None and u(real_body(so)[-1]) in ("self.set_outputs(*(w for w in self.tracked if w is not None))", "self.set_outputs(*[w for w in self.tracked if w is not None])")
    ctx.check(ok, "C15.R4", "TrackedDfg.set_tracked_outputs", file, so.lineno if so else 1, "outputs set from tracked indices are the still-tracked wires in index order", so)
    si = td.methods.get("set_indexed_outputs")
    ok = si is not None and u(real_body(si)[-1]) == f"self.set_outputs(*self._to_wires({si.args.vararg.arg}))"
    ctx.check(ok, "C15.R4", "TrackedDfg.set_indexed_outputs", file, si.lineno if si else 1, "indexed outputs resolve ints through the tracked wires", si)
    init = td.methods.get("__init__")
    ok = init is not None and any(u(s) == "self.tracked = list(self.inputs()) if track_inputs else []" for s in real_body(init))
    ctx.check(ok, "C15.R4", "TrackedDfg.__init__", file, init.lineno if init else 1, "tracking starts empty or with the inputs in order", init)
    for name, want_src in (("track_wires", "return [self.track_wire(w) for w in wires]"), ("track_inputs", "return self.track_wires(self.inputs())")):
        m = td.methods.get(name)
        ctx.check(m is not None and u(real_body(m)[-1]) == want_src, "C15.R4", f"TrackedDfg.{name}", file, m.lineno if m else 1, "", m)





# ---------------------------------------------------------------------------------------
T = "hugr-py/src/hugr/build/tracked_dfg.py"
CL = "hugr-py/src/hugr/build/cond_loop.py"
MUTANTS = [
    dict(name="metadata-dropped", file=T, expect=["C15.R1", "C15.R2"], old="        n = self.add_op(com.op, *wires, metadata=metadata)", new="        n = self.add_op(com.op, *wires)"),
    dict(name="rebind-wrong-port", file=T, expect="C15.R3", old="            self.tracked[tracked_idx] = n.out(port_offset)", new="            self.tracked[tracked_idx] = n.out(0)"),
    dict(name="rebind-position-index", file=T, expect="C15.R3", old="            self.tracked[tracked_idx] = n.out(port_offset)", new="            self.tracked[port_offset] = n.out(port_offset)"),
    dict(name="rebind-before-create", file=T, expect=["C15.R3", "C15.R2"], old="        wires = self._to_wires(com.incoming)\n        n = self.add_op(com.op, *wires, metadata=metadata)\n",
         new="        n = self.add_op(com.op, metadata=metadata)\n"),
    dict(name="wires-reversed", file=T, expect="C15.R2", old="        wires = self._to_wires(com.incoming)", new="        wires = self._to_wires(reversed(com.incoming))"),
    dict(name="to-wires-positional", file=T, expect="C15.R2", old="            self.tracked_wire(inc) if isinstance(inc, int) else inc for inc in in_wires", new="            self.tracked[inc] if isinstance(inc, int) else inc for inc in in_wires  # type: ignore[misc]"),
    dict(name="untrack-pops", file=T, expect="C15.R4", old="        self.tracked[index] = None\n        return w", new="        self.tracked.pop(index)\n        return w"),
    dict(name="untrack-unchecked", file=T, expect="C15.R4", old="        w = self.tracked_wire(index)\n        self.tracked[index] = None", new="        w = self.tracked[index]\n        self.tracked[index] = None"),
    dict(name="tracked-wire-none-ok", file=T, expect="C15.R4", old="        if tracked is None:\n            msg = f\"Index {index} not a tracked wire.\"\n            raise IndexError(msg)\n", new=""),
    dict(name="track-returns-len", file=T, expect="C15.R4", old="        return len(self.tracked) - 1", new="        return len(self.tracked)"),
    dict(name="outputs-keep-none", file=T, expect="C15.R4", old="        self.set_outputs(*(w for w in self.tracked if w is not None))", new="        self.set_outputs(*(w for w in self.tracked if w))"),
    dict(name="outputs-reversed", file=T, expect="C15.R4", old="        self.set_outputs(*(w for w in self.tracked if w is not None))", new="        self.set_outputs(*(w for w in reversed(self.tracked) if w is not None))"),
]
TWINS = [
    dict(name="twin-listcomp-wires", file=T, old="        return (\n            self.tracked_wire(inc) if isinstance(inc, int) else inc for inc in in_wires\n        )",
         new="        return [self.tracked_wire(inc) if isinstance(inc, int) else inc for inc in in_wires]"),
    dict(name="twin-rebind-if", file=T, old="            if isinstance(com_wire, int):\n                tracked_idx = com_wire\n            else:\n                continue\n            # update tracked wires to matching port outputs of new node\n            self.tracked[tracked_idx] = n.out(port_offset)",
         new="            if isinstance(com_wire, int):\n                self.tracked[com_wire] = n.out(port_offset)"),
]


def thorough(ctx):
    from ..selftest import run_battery
    return run_battery(ctx, MUTANTS, TWINS)
