"""C15 -- index-based (tracked) wiring is equivalent to explicit wiring.

R1 overrides forward every parameter their base forwards; R2 same construction path as Dfg.add with integer
arguments replaced by the tracked wires, in order, before the node exists; R3 rebinding after the node exists;
R4 index discipline of `tracked`.
"""
from __future__ import annotations

import ast

from ..cfg import CFG, EXIT, RAISE
from ..model import calls_in, call_name, is_stub, kwarg, real_body, u, walk_no_nested
from ..nf import NF, Env, Opaque, show, sym
from ..paths import summaries
from ..rulekit import need
from ..tmpl import T, tmatch

TD = "hugr.build.tracked_dfg.TrackedDfg"
LIST_SHRINK = {"pop", "remove", "insert", "clear", "sort", "reverse", "extend", "__delitem__"}


def r1_forwarding(ctx) -> None:
    """every override in hugr.build reads each parameter that the overridden implementation reads"""
    prog = ctx.program
    n = 0
    for mn, m in prog.modules.items():
        if not mn.startswith("hugr.build"):
            continue
        for c in m.classes.values():
            for name, fn in c.methods.items():
                if name.startswith("__") and name != "__init__" or is_stub(fn):
                    continue
                base_fn = None
                for k in c.mro[1:]:
                    if name in k.methods and not is_stub(k.methods[name]):
                        base_fn = (k, k.methods[name])
                        break
                if base_fn is None or name == "__init__":
                    continue
                n += 1
                bk, bf = base_fn
                params = [a.arg for a in fn.args.args[1:] + fn.args.kwonlyargs] + ([fn.args.vararg.arg] if fn.args.vararg else [])
                bparams = [a.arg for a in bf.args.args[1:] + bf.args.kwonlyargs] + ([bf.args.vararg.arg] if bf.args.vararg else [])
                used_in_base = {p for p in bparams if any(isinstance(x, ast.Name) and x.id == p and isinstance(x.ctx, ast.Load) for x in ast.walk(bf))}
                used_here = {p for p in params if any(isinstance(x, ast.Name) and x.id == p and isinstance(x.ctx, ast.Load) for x in ast.walk(fn))}
                # positional correspondence for differently named parameters
                dropped = []
                for i, p in enumerate(params):
                    bp = p if p in bparams else (bparams[i] if i < len(bparams) else None)
                    if bp in used_in_base and p not in used_here:
                        dropped.append(p)
                ctx.check(not dropped, "C15.R1", f"{c.qualname}.{name}", m.path, fn.lineno,
                          f"{c.name}.{name} accepts {dropped} but never uses it, while the implementation it overrides ({bk.name}.{name}) does: "
                          "what the caller passes is silently dropped", fn, detail=f"overrides {bk.name}.{name}; parameters {sorted(used_here)} used")
    ctx.stats["C15.R1 overrides inspected"] = n


def run(ctx) -> None:
    ctx.rule("C15.R1", "every override in hugr.build uses each parameter that the implementation it overrides uses", floor=2)
    ctx.rule("C15.R2", "TrackedDfg.add builds the node by add_op(com.op, *wires, metadata=metadata) with ints replaced by tracked wires in order", floor=2)
    ctx.rule("C15.R3", "after the node exists each integer argument's index is rebound to the new node's output at the argument's position", floor=2)
    ctx.rule("C15.R4", "tracked is an append-only list: untrack sets None, no removal; outputs filter None in index order; bad indices raise IndexError", floor=7)
    r1_forwarding(ctx)
    tracked_add_rules(ctx)
    tracked_index_rules(ctx)
    from .. import lints
    lints.arm(ctx)


class _IntArms(ast.NodeTransformer):
    """`A if isinstance(x, int) else B` -> B   (where no x is an int)"""
    def visit_IfExp(self, node):
        self.generic_visit(node)
        t = node.test
        if isinstance(t, ast.Call) and u(t.func) == "isinstance" and len(t.args) == 2 and u(t.args[1]) == "int":
            return node.orelse
        return node


def _under_no_ints(fn, call, com: str) -> bool:
    """is `call` on the branch of `if any(isinstance(c, int) for c in com.incoming)` where the test failed"""
    def has(stmts):
        return any(call is n for s_ in stmts for n in ast.walk(s_))

    def rec(stmts, no_ints):
        for s_ in stmts:
            if isinstance(s_, ast.If):
                t, neg = s_.test, False
                while isinstance(t, ast.UnaryOp) and isinstance(t.op, ast.Not):
                    t, neg = t.operand, not neg
                e = tmatch(t, T("any((isinstance(L_v, int) for L_v in E_com.incoming))"))
                is_test = e is not None and e["E_com"] == com
                if has(s_.body):
                    return rec(s_.body, no_ints or (is_test and neg))
                if has(s_.orelse):
                    return rec(s_.orelse, no_ints or (is_test and not neg))
            elif has([s_]):
                return no_ints
        return no_ints
    return rec(fn.body, False)


def tracked_add_rules(ctx, R2="C15.R2", R3="C15.R3") -> None:
    """stated over the canonical body of TrackedDfg.add (hv/canon.py) and the summaries of its rebinding loop"""
    prog = ctx.program
    td = prog.cls(TD)
    file = td.module.path
    nf = NF(prog)
    # ---- R2
    add_o, _, _ = ctx.locate(f"{TD}.add")
    add = ctx.cfn(f"{TD}.add", supers=True, inline=("_to_wires",))      # as TrackedDfg runs it: an inherited skeleton with the resolution hook overridden is seen through
    base_add = ctx.cfn("hugr.build.dfg.DfBase.add")
    ops_calls = calls_in(add, "add_op")
    base_calls = calls_in(base_add, "add_op")
    if len(base_calls) != 1:
        ctx.broken("add: expected exactly one add_op call in DfBase.add")
    if not ops_calls:
        ctx.fail(R2, "TrackedDfg.add: node construction", file, add_o.lineno,
                 "TrackedDfg.add does not create the node through add_op(com.op, *wires, metadata=metadata), the one construction path it shares with "
                 "Dfg.add (arguments resolved before the node exists): created any other way, a failing index lookup leaves a half-wired node behind "
                 "and the port count / wiring of the node may differ from the explicit builder's", add_o)
        return
    bcall = base_calls[0]
    com = add.args.args[1].arg
    env = Env(td.module, td, {"self": sym("self"), com: sym(com), "metadata": sym("metadata")}, {sym("self"): td})
    bkw = {k.arg: u(k.value) for k in bcall.keywords}
    for call in ops_calls:
        # (a call on the branch where no argument is an index: `X if isinstance(c, int) else c` is c there, on both sides)
        no_ints = _under_no_ints(add, call, com)

        def arms(e):
            return _IntArms().visit(ast.fix_missing_locations(e)) if no_ints else e
        try:
            a0 = nf.ev(call.args[0], env) if call.args else None
            rest = [nf.ev(arms(a.value if isinstance(a, ast.Starred) else a), env) for a in call.args[1:]]
        except Opaque as e:
            a0, rest = None, []
            ctx.note(f"C15.R2: add_op arguments not normalisable: {e}")
        starred = [isinstance(a, ast.Starred) for a in call.args[1:]]
        want_wires = nf.ev(arms(ast.parse(f"(self.tracked_wire(inc) if isinstance(inc, int) else inc for inc in {com}.incoming)", mode="eval").body), env)
        ok = a0 == ("attr", sym(com), "op") and len(rest) == 1 and starred == [True] and rest[0] == want_wires
        ctx.check(ok, R2, "TrackedDfg.add: node construction", file, call.lineno,
                  "the node must be created by add_op(com.op, *wires) where wires are com.incoming with each int replaced by the wire currently tracked at it, in order", call,
                  expected=f"add_op({com}.op, *{show(want_wires)})", found=f"add_op({show(a0) if a0 else ''}, " + ", ".join(show(r) for r in rest) + ")")
        # keyword arguments forwarded like the base does
        kw = {k.arg: u(k.value) for k in call.keywords}
        ctx.check(kw == bkw, R2, "TrackedDfg.add: same keyword arguments as Dfg.add", file, call.lineno,
                  f"Dfg.add forwards {bkw} to add_op; the tracked override must forward the same (metadata given for the node is otherwise lost)", call,
                  expected=str(bkw), found=str(kw))
    call = ops_calls[0]
    tw = td.methods.get("_to_wires")
    if tw is not None:
        pname = tw.args.args[1].arg
        try:
            # the value of the single returning path of the canonical body (helpers seen through, idioms normalised)
            rets = [q for q in ctx.paths(f"{TD}._to_wires") if q.kind == "return"]
            if len(rets) != 1 or rets[0].tests:
                raise Opaque("more than one way to return")
            t, _ = nf.expr_nf(rets[0].value_text(), td, extra={pname: sym(pname)})
        except Opaque as e:
            ctx.broken(f"TrackedDfg._to_wires not normalisable: {e}")
        want, _ = nf.expr_nf(f"(self.tracked_wire(inc) if isinstance(inc, int) else inc for inc in {pname})", td, extra={pname: sym(pname)})
        ctx.check(t == want, R2, "TrackedDfg._to_wires", file, tw.lineno, "ints denote the wire tracked at that index, wires denote themselves, order preserved", tw,
                  expected=show(want), found=show(t))
    # ---- R3
    node_defs = [s_ for s_ in add.body if isinstance(s_, (ast.Assign, ast.AnnAssign)) and call in list(ast.walk(s_))]
    nodevar = None
    if node_defs:
        tg = node_defs[0].targets[0] if isinstance(node_defs[0], ast.Assign) else node_defs[0].target
        nodevar = tg.id if isinstance(tg, ast.Name) else None
    loops = [n for n in add.body if isinstance(n, ast.For)]
    ok = len(loops) == 1 and nodevar is not None and u(loops[0].iter) == f"enumerate({com}.incoming)" and isinstance(loops[0].target, ast.Tuple) \
        and len(loops[0].target.elts) == 2 and all(isinstance(e, ast.Name) for e in loops[0].target.elts)
    if ok:
        lp = loops[0]
        pv, wv = u(lp.target.elts[0]), u(lp.target.elts[1])
        why = ""
        good = True
        seen_int = False
        for p in summaries(lp.body):
            is_int = p.has_test(f"isinstance({wv}, int)")
            taken = [k for t, k in p.tests if u(t) == f"isinstance({wv}, int)"]
            stores = [e for e in p.effects if isinstance(e, (ast.Assign, ast.AugAssign, ast.Delete)) and "self.tracked" in u(e)] + \
                     [e for e in p.effects if isinstance(e, ast.Expr) and "self.tracked." in u(e)]
            if taken and taken[0]:
                seen_int = True
                # (not `node[pv]`: Node.__getitem__ checks the offset against the node's known output count and raises IndexError for an
                #  argument position beyond it -- And(0, 1) has one output --, where explicit wiring never asks for that port)
                okp = len(stores) == 1 and tmatch(stores[0], T(f"self.tracked[{wv}] = {nodevar}.out({pv})")) is not None
                if not okp:
                    good, why = False, "on the path for an int argument: " + " | ".join(u(e) for e in stores)
            else:
                if stores or is_int is None and not taken:
                    if stores:
                        good, why = False, "a tracked index is rewritten for a non-int argument: " + " | ".join(u(e) for e in stores)
        ctx.check(good and seen_int, R3, "TrackedDfg.add: rebinding", file, lp.lineno,
                  "for each position p whose argument is an int i, tracked[i] must become the new node's output p; other arguments are skipped. " + why, lp)
        after = add.body.index(node_defs[0]) < add.body.index(lp)
        ctx.check(after, R3, "TrackedDfg.add: rebinding after creation", file, lp.lineno, "indices are rebound only after the node has been wired with the old wires", lp)
    else:
        ctx.fail(R3, "TrackedDfg.add: rebinding", file, add_o.lineno, "no rebinding loop over enumerate(com.incoming) after the node is created", add_o)
    rets = [r for r in ast.walk(add) if isinstance(r, ast.Return)]
    ctx.check(len(rets) == 1 and nodevar is not None and u(rets[0].value) == nodevar, R3, "TrackedDfg.add: returns the node", file, add_o.lineno, "", add_o)


def tracked_index_rules(ctx) -> None:
    prog = ctx.program
    td = prog.cls(TD)
    file = td.module.path
    R = "C15.R4"
    # ---- who writes `tracked`, and how (on canonical bodies, so helpers extracted from a method are seen in it)
    writers = {}
    for name in td.methods:
        if ctx.canon.unknown_helper(td, name):
            continue            # seen through at its call sites
        fn = ctx.cfn(f"{TD}.{name}")
        for n in ast.walk(fn):
            w = None
            if isinstance(n, ast.Assign):
                for t in n.targets:
                    if u(t) == "self.tracked":
                        w = "rebind"
                    if isinstance(t, ast.Subscript) and u(t.value) == "self.tracked":
                        w = f"store:{u(n.value)}" if name == "untrack_wire" else "store"
            if isinstance(n, ast.AugAssign) and "self.tracked" in u(n.target):
                w = "augassign"
            if isinstance(n, ast.Delete) and any("self.tracked" in u(t) for t in n.targets):
                w = "delete"
            if isinstance(n, ast.Call) and isinstance(n.func, ast.Attribute) and u(n.func.value) == "self.tracked" and n.func.attr in LIST_SHRINK | {"append"}:
                w = n.func.attr
            if w:
                writers.setdefault(name, []).append((w, n))
    # (the constructor builds the initial list: no index has been handed out yet, growing it there is part of the initialisation, whose
    #  result is judged below)
    allowed = {"__init__": {"rebind", "append", "extend", "augassign"}, "track_wire": {"append"}, "untrack_wire": {"store:None"}, "add": {"store"}}
    for name, ws in writers.items():
        kinds = {w for w, _ in ws}
        ok = name in allowed and kinds <= allowed[name]
        ctx.check(ok, R, f"TrackedDfg.{name}: writes tracked", file, ws[0][1].lineno,
                  f"{name} changes `tracked` by {sorted(kinds)}: indices must stay stable -- only append (track), tracked[i] = None (untrack) and "
                  "tracked[i] = wire (add) are allowed", ws[0][1], detail=str(sorted(kinds)))
    for mn, m in prog.modules.items():
        for n in ast.walk(m.tree):
            if isinstance(n, ast.Attribute) and n.attr == "tracked" and isinstance(n.ctx, (ast.Store, ast.Del)) and mn != "hugr.build.tracked_dfg":
                ctx.fail(R, f"{mn}: writes tracked", m.path, n.lineno, "tracked is written outside TrackedDfg", n)

    def fn_of(name):
        f, _, _ = ctx.locate(f"{TD}.{name}")
        return f
    # tracked_wire(i): returns tracked[i] only when it is not None; every other outcome is an IndexError
    twm = fn_of("tracked_wire")
    i = twm.args.args[1].arg
    ps = ctx.paths(f"{TD}.tracked_wire")
    rets = [p for p in ps if p.kind == "return"]
    others = [p for p in ps if p.kind != "return"]
    ok = bool(rets) and all(p.value_text() == f"self.tracked[{i}]" and p.has_test(f"self.tracked[{i}] is not None", True) is not None for p in rets) \
        and all(p.kind == "raise" and p.value is not None and u(p.value).startswith("IndexError") for p in others) \
        and any(p.has_test(f"self.tracked[{i}] is not None", False) is not None for p in others)
    ctx.check(ok, R, "TrackedDfg.tracked_wire", file, twm.lineno,
              "tracked_wire(i) returns tracked[i] and raises IndexError when the index is out of range or no longer tracked", twm,
              found="; ".join(p.describe() for p in ps)[:300])
    ut = fn_of("untrack_wire")
    i = ut.args.args[1].arg
    ps = ctx.paths(f"{TD}.untrack_wire")
    ok = bool(ps)
    for p in ps:
        if p.kind == "raise":
            continue
        chk = p.find_effect(f"self.tracked_wire({i})")
        st = p.find_effect(f"self.tracked[{i}] = None")
        ok = ok and p.kind == "return" and bool(chk) and len(st) == 1 and chk[0][0] < st[0][0] and p.value_text() == f"self.tracked_wire({i})"
    ctx.check(ok, R, "TrackedDfg.untrack_wire", file, ut.lineno, "untracking checks the index, frees it for good (None) and returns the wire", ut,
              found="; ".join(p.describe() + " :: " + " | ".join(p.effect_texts()) for p in ps)[:300])
    tk = fn_of("track_wire")
    w = tk.args.args[1].arg
    ps = ctx.paths(f"{TD}.track_wire")
    ok = bool(ps) and all(p.kind == "return" and len(p.find_effect(f"self.tracked.append({w})")) == 1 and len(p.effects) == 1
                          and p.value_text() in ("len(self.tracked) - 1", "old_(len(self.tracked))") for p in ps)
    ctx.check(ok, R, "TrackedDfg.track_wire", file, tk.lineno, "tracking appends and returns the new (last) index", tk,
              found="; ".join(p.describe() + " :: " + " | ".join(p.effect_texts()) for p in ps)[:300])
    # (second spelling: through set_indexed_outputs with the indices of the live slots; by the rules on set_indexed_outputs, _to_wires and
    #  tracked_wire in this same check, an index i of a slot that is not None resolves to tracked[i])
    # (these short methods ARE the statement named: outputs are set unconditionally -- also when there are none, the Output node and the
    #  parent still get their (empty) row -- and from the arguments as given)
    from ..rulekit import need_exact
    need_exact(ctx, R, f"{TD}.set_tracked_outputs", "TrackedDfg.set_tracked_outputs",
               [["self.set_outputs(*(c0 for c0 in self.tracked if c0 is not None))"],
                ["self.set_indexed_outputs(*(c0 for c0, c1 in enumerate(self.tracked) if c1 is not None))"]],
               "outputs set from tracked indices are the still-tracked wires in index order")
    # (the resolution helper, whatever it is called and whichever class provides it, is seen through)
    need_exact(ctx, R, f"{TD}.set_indexed_outputs", "TrackedDfg.set_indexed_outputs",
               [["self.set_outputs(*(self.tracked_wire(c0) if isinstance(c0, int) else c0 for c0 in L_in))"]], "indexed outputs resolve ints through the tracked wires",
               inline=("_to_wires",), supers=True)
    init = fn_of("__init__")
    ps = [p for p in ctx.paths(f"{TD}.__init__") if p.kind != "raise"]
    ok = bool(ps)
    for p in ps:
        from ..rulekit import final_list_value
        fv = final_list_value(p, "self.tracked")         # the list the path leaves there (assignment, then appends / extends)
        t = [k for t_, k in p.tests if u(t_) == "track_inputs"]
        ok = ok and fv is not None and len(t) == 1 and u(fv) == ("[*self.inputs()]" if t[0] else "[]")
    ctx.check(ok, R, "TrackedDfg.__init__", file, init.lineno, "tracking starts empty or with the inputs in order", init,
              found="; ".join(p.describe() + " :: " + " | ".join(p.effect_texts()) for p in ps)[:300])
    need_exact(ctx, R, f"{TD}.track_wires", "TrackedDfg.track_wires", [["return [self.track_wire(c0) for c0 in L_wires]"]],
               "every wire of the iterable given is tracked, in order (a Node is itself an iterable of its output wires)")
    need_exact(ctx, R, f"{TD}.track_inputs", "TrackedDfg.track_inputs", [["return self.track_wires(self.inputs())"]])
    # commands given in one batch are applied one after the other: each one's indices are resolved against the table the previous
    # commands left (whichever class of the hierarchy provides `extend`)
    need(ctx, "C15.R3", f"{TD}.extend", "TrackedDfg.extend: one add per command, in order", ["return [self.add(c0) for c0 in L_coms]"],
         "extend(c1, c2, ..) must be add(c1); add(c2); ..: resolving the indices of later commands before the earlier ones were added feeds "
         "them from stale wires", supers=True)


# ---------------------------------------------------------------------------------------
TF = "hugr-py/src/hugr/build/tracked_dfg.py"
CL = "hugr-py/src/hugr/build/cond_loop.py"
MUTANTS = [
    dict(name="outputs-only-when-some", file=TF, expect="C15.R4", old="        self.set_outputs(*self._to_wires(in_wires))",
         new="        if in_wires:\n            self.set_outputs(*self._to_wires(in_wires))"),
    dict(name="single-wire-wrapped", file=TF, expect="C15.R4", old="        return [self.track_wire(w) for w in wires]",
         new="        if hasattr(wires, \"out_port\"):\n            wires = [wires]\n        return [self.track_wire(w) for w in wires]"),
    dict(name="metadata-dropped", file=TF, expect=["C15.R1", "C15.R2"], old="        n = self.add_op(com.op, *wires, metadata=metadata)", new="        n = self.add_op(com.op, *wires)"),
    dict(name="rebind-wrong-port", file=TF, expect="C15.R3", old="            self.tracked[tracked_idx] = n.out(port_offset)", new="            self.tracked[tracked_idx] = n.out(0)"),
    dict(name="rebind-position-index", file=TF, expect="C15.R3", old="            self.tracked[tracked_idx] = n.out(port_offset)", new="            self.tracked[port_offset] = n.out(port_offset)"),
    dict(name="rebind-before-create", file=TF, expect=["C15.R3", "C15.R2"], old="        wires = self._to_wires(com.incoming)\n        n = self.add_op(com.op, *wires, metadata=metadata)\n",
         new="        n = self.add_op(com.op, metadata=metadata)\n"),
    dict(name="wires-reversed", file=TF, expect="C15.R2", old="        wires = self._to_wires(com.incoming)", new="        wires = self._to_wires(reversed(com.incoming))"),
    dict(name="to-wires-positional", file=TF, expect="C15.R2", old="            self.tracked_wire(inc) if isinstance(inc, int) else inc for inc in in_wires", new="            self.tracked[inc] if isinstance(inc, int) else inc for inc in in_wires  # type: ignore[misc]"),
    dict(name="untrack-pops", file=TF, expect="C15.R4", old="        self.tracked[index] = None\n        return w", new="        self.tracked.pop(index)\n        return w"),
    dict(name="untrack-unchecked", file=TF, expect="C15.R4", old="        w = self.tracked_wire(index)\n        self.tracked[index] = None", new="        w = self.tracked[index]\n        self.tracked[index] = None"),
    dict(name="tracked-wire-none-ok", file=TF, expect="C15.R4", old="        if tracked is None:\n            msg = f\"Index {index} not a tracked wire.\"\n            raise IndexError(msg)\n", new=""),
    dict(name="track-returns-len", file=TF, expect="C15.R4", old="        return len(self.tracked) - 1", new="        return len(self.tracked)"),
    dict(name="outputs-keep-none", file=TF, expect="C15.R4", old="        self.set_outputs(*(w for w in self.tracked if w is not None))", new="        self.set_outputs(*(w for w in self.tracked if w))"),
    dict(name="outputs-reversed", file=TF, expect="C15.R4", old="        self.set_outputs(*(w for w in self.tracked if w is not None))", new="        self.set_outputs(*(w for w in reversed(self.tracked) if w is not None))"),
]
TWINS = [
    dict(name="twin-listcomp-wires", file=TF, old="        return (\n            self.tracked_wire(inc) if isinstance(inc, int) else inc for inc in in_wires\n        )",
         new="        return [self.tracked_wire(inc) if isinstance(inc, int) else inc for inc in in_wires]"),
    dict(name="twin-rebind-if", file=TF, old="            if isinstance(com_wire, int):\n                tracked_idx = com_wire\n            else:\n                continue\n            # update tracked wires to matching port outputs of new node\n            self.tracked[tracked_idx] = n.out(port_offset)",
         new="            if isinstance(com_wire, int):\n                self.tracked[com_wire] = n.out(port_offset)"),
]


def thorough(ctx):
    from ..selftest import run_battery
    return run_battery(ctx, MUTANTS, TWINS)
