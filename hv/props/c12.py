"""C12 -- the model export is well scoped and faithful to the HUGR.

R1 symbol provenance of mangled names; R2 order hints reach their region; R3 port lists follow the signature;
R4 CFG region boundary; R5 exhaustive, unshadowed dispatch over the operation classes; R6 Python model classes
expose exactly the attributes the Rust binding reads (table scanned from hugr-model/src/v0/ast/python.rs);
R7 link naming / metadata / order-key plumbing; R8 opaque and resolved extension ops export alike.
"""
from __future__ import annotations

import ast
import re

from ..model import Class, calls_in, call_name, kwarg, real_body, u, walk_no_nested

EXP = "hugr.model.export"
PYRS = "hugr-model/src/v0/ast/python.rs"
COUNTERS = ("_num_inps", "_num_outs", "num_in_ports", "num_out_ports", "num_ports")


def _enclosing_case(fn, node):
    for n in ast.walk(fn):
        if isinstance(n, ast.match_case) and any(node is x for x in ast.walk(n)):
            yield n


def r1_symbol_provenance(ctx, m, me) -> None:
    """path summaries of every exporter method: wherever a symbol is mangled, the name is read from the operation of the very
    node it is mangled with (all locals and match captures are substituted by their definitions)"""
    from ..rulekit import unold
    from ..tmpl import T, tfind
    sites = 0
    for name, fn in me.methods.items():
        if ctx.canon.unknown_helper(me, name):
            continue        # a private helper the tables do not know: seen through (with its arguments) at every call site
        try:
            ps = ctx.paths(f"{EXP}.ModelExport.{name}", bound=8192)
        except Exception as e:      # too many paths: fall back to the canonical body
            ps = []
        seen = set()
        for p in ps:
            for x in list(p.effects) + ([p.value] if p.value is not None else []):
                for c, e in tfind(x, T("_mangle_name(E_n, E_name)")):
                    n_, nm_ = unold(e["E_n"]), unold(e["E_name"])
                    # (one site per operation kind: statements seen through a helper all carry the call's line)
                    arm = tuple(u(t.args[1]) for t, k in p.tests if k and isinstance(t, ast.Call) and u(t.func) == "isinstance" and len(t.args) == 2)
                    key = (n_, nm_, getattr(c, "lineno", 0), arm[-1:] )
                    if key in seen:
                        continue
                    seen.add(key)
                    sites += 1
                    ok = nm_ in (f"self.hugr[{n_}].op.f_name", f"self.hugr[{n_}].op.name", f"self.hugr[{n_}].op.alias" if False else "")
                    ctx.check(ok, "C12.R1", f"ModelExport.{name}: symbol names the defining node", m.path, getattr(c, "lineno", fn.lineno),
                              f"the name `{nm_[:80]}` is mangled with node `{n_[:80]}` but is not read from that node's operation: the symbol a call / load "
                              "refers to is then not the symbol of any definition or declaration in the module", fn,
                              expected=f"_mangle_name(N, self.hugr[N].op.f_name)", found=f"_mangle_name({n_[:60]}, {nm_[:60]})", detail="name and node from the same operation")
            # a symbol kept in a table is keyed by the node it was mangled with: names are not unique in a module
            for x in p.effects:
                if isinstance(x, ast.Assign) and len(x.targets) == 1 and isinstance(x.targets[0], ast.Subscript):
                    for c, e in tfind(x.value, T("_mangle_name(E_n, E_name)")):
                        n_, k_ = unold(e["E_n"]), unold(x.targets[0].slice)
                        key = ("memo", n_, k_)
                        if key in seen:
                            continue
                        seen.add(key)
                        ctx.check(k_ in (n_, f"{n_}.idx"), "C12.R1", f"ModelExport.{name}: symbol table keyed by the defining node", m.path,
                                  getattr(x, "lineno", fn.lineno),
                                  f"the symbol mangled with node `{n_[:80]}` is filed under `{k_[:80]}`: two definitions with the same name but different "
                                  "nodes would share one symbol, so calls to the second resolve to the first", fn,
                                  expected=f"<table>[{n_[:60]}]", found=f"<table>[{k_[:60]}]")
    ctx.stats["C12.R1 mangle sites"] = sites
    # the symbol a function node is exported under is the one calls and loads of it apply: both sides go through _mangle_name
    en = me.methods.get("export_node")
    if en is not None:
        node_p = en.args.args[1].arg
        want = f"_mangle_name({node_p}, self.hugr[{node_p}].op.f_name)"
        arms_seen = set()
        for p in ctx.paths(f"{EXP}.ModelExport.export_node", bound=8192):
            arm = [u(t.args[1]).split(".")[-1] for t, k in p.tests if k and isinstance(t, ast.Call) and u(t.func) == "isinstance" and len(t.args) == 2]
            if not arm or arm[-1] not in ("FuncDefn", "FuncDecl") or arm[-1] in arms_seen:
                continue
            syms = [e for x in list(p.effects) + ([p.value] if p.value is not None else []) for _, e in tfind(x, T("self.export_symbol(E_name, ANY_, ANY_)"))]
            if not syms:
                continue
            arms_seen.add(arm[-1])
            got = unold(syms[0]["E_name"])
            ctx.check(got == want, "C12.R1", f"ModelExport.export_node: {arm[-1]} exported under its mangled name", m.path, en.lineno,
                      f"a {arm[-1]} node's symbol must be exported under `{want}` -- the name find_func_input gives to calls and loads of it; "
                      "under any other name those apply a symbol that is not in the module", en, expected=want, found=got[:120])


def r2_order_hints(ctx, m, me) -> None:
    from ..rulekit import arg_of
    from ..tmpl import T, tfind
    fn_o = me.methods.get("export_region_dfg")
    if fn_o is None:
        ctx.broken("anchor vanished: ModelExport.export_region_dfg")
    fn = ctx.cfn(f"{EXP}.ModelExport.export_region_dfg")
    hint = "model.Apply('core.order_hint.order', [model.Literal(L_child.idx), model.Literal(c0.idx)])"
    hits = tfind(fn, T(f"L_acc += [{hint} for c0 in self.hugr.outgoing_order_links(L_child) if not isinstance(self.hugr[c0].op, Output)]")) or \
        tfind(fn, T(f"L_acc.extend([{hint} for c0 in self.hugr.outgoing_order_links(L_child) if not isinstance(self.hugr[c0].op, Output)])")) or \
        tfind(fn, T(f"L_acc.extend(({hint} for c0 in self.hugr.outgoing_order_links(L_child) if not isinstance(self.hugr[c0].op, Output)))"))
    any_hint = [n for n in ast.walk(fn) if isinstance(n, ast.Constant) and n.value == "core.order_hint.order"]
    if not any_hint:
        ctx.fail("C12.R2", "export_region_dfg: order hints collected", m.path, fn_o.lineno, "no core.order_hint.order terms are produced for the region", fn_o)
        return
    acc = hits[0][1]["L_acc"] if hits else None
    if acc is None:
        # some other accumulation of hints: find what the hint term is added to
        for s_ in ast.walk(fn):
            if isinstance(s_, ast.AugAssign) and "core.order_hint.order" in u(s_.value):
                acc = u(s_.target)
            if isinstance(s_, ast.Expr) and isinstance(s_.value, ast.Call) and call_name(s_.value) in ("append", "extend") and "core.order_hint.order" in u(s_.value):
                acc = u(s_.value.func.value)
    regions = [c for c in calls_in(fn) if u(c.func) == "model.Region"]
    rm = arg_of(ctx, regions[0], "meta", m, me) if len(regions) == 1 else None
    ok = len(regions) == 1 and rm is not None and acc is not None and u(rm) == acc
    ctx.check(ok, "C12.R2", "export_region_dfg: order hints reach the region", m.path, regions[0].lineno if regions else fn_o.lineno,
              f"the list `{acc}` collects the core.order_hint.order terms but never reaches model.Region(meta=...): every state-order edge between "
              "siblings is lost in the export", regions[0] if regions else fn_o, expected=f"meta={acc}", found=u(rm) if rm is not None else "")
    # the hinted child is the child being exported in the loop over the region's children
    ok = bool(hits)
    if ok:
        ch = hits[0][1]["L_child"]
        loops = [n for n in ast.walk(fn) if isinstance(n, ast.For) and hits[0][0] in list(ast.walk(n))]
        ok = bool(loops) and u(loops[0].target) == ch
    ctx.check(ok, "C12.R2", "export_region_dfg: one hint per order edge between non-boundary siblings", m.path, fn_o.lineno,
              "hints are (child key, successor key) for every outgoing order link whose target is not the Output node", fn_o)


def r3_port_lists(ctx, m, me) -> None:
    for name in ("export_node", "export_region_dfg", "export_region_cfg"):
        fn = me.methods.get(name)
        if fn is None:
            ctx.broken(f"anchor vanished: ModelExport.{name}")
        lists = [n for n in ast.walk(fn) if isinstance(n, ast.ListComp) and "self.link_name(" in u(n.elt)]
        for lc in lists:
            it = u(lc.generators[0].iter)
            tainted = [c for c in COUNTERS if c in it]
            ctx.check(not tainted, "C12.R3", f"ModelExport.{name}: ports {u(lc.elt)[:40]}", m.path, lc.lineno,
                      f"the exported port list ranges over `{it}`, the store's connection counters: they include the static port of Call/LoadConst/LoadFunc and "
                      "omit unconnected trailing outputs, so a node does not list exactly the value ports of its signature", lc,
                      expected="range over the operation's signature (value-port counts)", found=it, detail=it)
    helper = ctx.program.module(EXP).functions.get("_num_model_ports")
    en = me.methods["export_node"]
    uses_helper = helper is not None and any(call_name(c) == "_num_model_ports" for c in calls_in(en))
    if helper is None:
        return
    hp = helper.args.args[0].arg
    arms = {}
    order_ok = True
    for p in ctx.paths(f"{EXP}._num_model_ports"):
        taken = [u(t.args[1]) for t, k in p.tests if k and isinstance(t, ast.Call) and u(t.func) == "isinstance" and u(t.args[0]) == hp]
        refused = {x for t, k in p.tests if not k and isinstance(t, ast.Call) and u(t.func) == "isinstance" and u(t.args[0]) == hp for x in u(t.args[1]).split(" | ")}
        key = taken[-1] if taken else "_"
        arms[key] = p.value_text() if p.kind == "return" else f"<{p.kind}>"
        if key == "DataflowOp":
            # the generic arm only applies to ops that are neither basic blocks nor calls
            order_ok = order_ok and {"DataflowBlock", "Call"} <= refused
    want = {"DataflowBlock": f"(1, len({hp}.sum_ty.variant_rows))", "Call": f"(len({hp}.instantiation.input), len({hp}.instantiation.output))",
            "DataflowOp": f"(len({hp}.outer_signature().input), len({hp}.outer_signature().output))", "_": "(0, 0)"}
    ctx.check(uses_helper and arms == want, "C12.R3", "_num_model_ports: table", m.path, helper.lineno,
              "model nodes list the value ports of the signature (control ports for basic blocks, the instantiated signature for calls, none for non-dataflow ops)",
              helper, expected=str(want), found=str(arms))
    ctx.check(order_ok and "DataflowOp" in arms, "C12.R3",
              "_num_model_ports: specific arms before DataflowOp", m.path, helper.lineno, "", helper)
    from ..paths import summaries
    from ..rulekit import arg_of
    rd_o = me.methods["export_region_dfg"]
    rd = ctx.cfn(f"{EXP}.ModelExport.export_region_dfg", subst=False)
    regions = [c for c in calls_in(rd) if u(c.func) == "model.Region"]
    ok = len(regions) == 1
    if ok:
        sv, tv = arg_of(ctx, regions[0], "sources", m, me), arg_of(ctx, regions[0], "targets", m, me)
        loops = [n for n in rd.body if isinstance(n, ast.For) and u(n.iter).endswith(".children")]
        ok = sv is not None and tv is not None and isinstance(sv, ast.Name) and isinstance(tv, ast.Name) and len(loops) == 1 and isinstance(loops[0].target, ast.Name)
    if ok:
        ch = loops[0].target.id
        pre = [s_ for s_ in rd.body[: rd.body.index(loops[0])] if isinstance(s_, (ast.Assign, ast.AnnAssign)) and u(s_.targets[0] if isinstance(s_, ast.Assign) else s_.target) not in (sv.id, tv.id)]
        seen = set()
        for p in summaries(pre + loops[0].body):
            cls = [u(t.args[1]) for t, k in p.tests if k and isinstance(t, ast.Call) and u(t.func) == "isinstance" and u(t.args[0]) == f"self.hugr[{ch}].op"]
            if cls and cls[-1] == "Input":
                seen.add("Input")
                ok = ok and sv.id in p.env and u(p.env[sv.id]) == f"[self.link_name(OutPort({ch}, c0)) for c0 in range(len(self.hugr[{ch}].op.types))]" and tv.id not in p.env
            elif cls and cls[-1] == "Output":
                seen.add("Output")
                ok = ok and tv.id in p.env and u(p.env[tv.id]) == f"[self.link_name(InPort({ch}, c0)) for c0 in range(len(self.hugr[{ch}].op.types))]" and sv.id not in p.env
            else:
                ok = ok and sv.id not in p.env and tv.id not in p.env
        ok = ok and seen == {"Input", "Output"}
    ctx.check(ok, "C12.R3", "export_region_dfg: sources/targets from the Input/Output rows", m.path, rd_o.lineno, "", rd_o)


def export_arms(ctx, me):
    """arms of export_node from its path summaries: [(class text, refused classes before it, paths)] in dispatch order,
    plus the default paths (no class test taken).  `match`, isinstance chains and dict dispatch written as if-chains coincide."""
    from ..rulekit import unold
    en = me.methods["export_node"]
    nodep = en.args.args[1].arg
    ps = ctx.paths(f"{EXP}.ModelExport.export_node", bound=8192)
    subj = f"self.hugr[{nodep}].op"
    arms: dict[str, dict] = {}
    default = []
    for p in ps:
        taken = [(u(t.args[1]), i) for i, (t, k) in enumerate(p.tests) if k and isinstance(t, ast.Call) and u(t.func) == "isinstance" and len(t.args) == 2 and unold(t.args[0]) == subj]
        refused = [x for t, k in p.tests if not k and isinstance(t, ast.Call) and u(t.func) == "isinstance" and len(t.args) == 2 and unold(t.args[0]) == subj
                   for x in u(t.args[1]).split(" | ")]
        if not taken:
            default.append(p)
            continue
        cls = taken[0][0]
        a = arms.setdefault(cls, {"refused": refused, "paths": []})
        a["paths"].append(p)
    # a path that passes a class test but ends at the default refusal (a guarded arm that was not taken) belongs to the default
    dnodes = {id(p.node) for p in default if p.node is not None}
    for cls in list(arms):
        keep = [p for p in arms[cls]["paths"] if id(p.node) not in dnodes]
        default += [p for p in arms[cls]["paths"] if id(p.node) in dnodes]
        if keep:
            arms[cls]["paths"] = keep
        else:
            del arms[cls]
    return nodep, subj, arms, default


def _node_calls(p):
    """model.Node(..) constructions in the value a path returns"""
    if p.kind != "return" or p.value is None:
        return []
    return [c for c in ast.walk(p.value) if isinstance(c, ast.Call) and u(c.func) == "model.Node"]


def r4_cfg_boundary(ctx, m, me) -> None:
    """loop-body path summaries of export_region_cfg (canonical body)"""
    from ..paths import summaries
    from ..rulekit import arg_of
    fn_o = me.methods["export_region_cfg"]
    fn = ctx.cfn(f"{EXP}.ModelExport.export_region_cfg", subst=False)
    regs = [c for c in calls_in(fn) if u(c.func) == "model.Region"]
    loops = [n for n in fn.body if isinstance(n, ast.For) and u(n.iter).endswith(".children") and isinstance(n.target, ast.Name)]
    if len(regs) != 1 or len(loops) != 1:
        ctx.broken("export_region_cfg: region construction / child loop not found")
    sv, tv, kv = arg_of(ctx, regs[0], "sources", m, me), arg_of(ctx, regs[0], "targets", m, me), arg_of(ctx, regs[0], "kind", m, me)
    lp = loops[0]
    ch = lp.target.id
    op = f"self.hugr[{ch}].op"
    # the source link is latched by the first basic block: either an optional local (None until then, sources=[src]) or a list that
    # stays empty until then (sources=links)
    src_name = sv.elts[0].id if isinstance(sv, ast.List) and len(sv.elts) == 1 and isinstance(sv.elts[0], ast.Name) else None
    src_list = False
    if src_name is None and isinstance(sv, ast.Name):
        inits = [s_ for s_ in fn.body[: fn.body.index(lp)] if isinstance(s_, (ast.Assign, ast.AnnAssign)) and u(s_.targets[0] if isinstance(s_, ast.Assign) else s_.target) == sv.id]
        if len(inits) == 1 and isinstance(inits[0].value, ast.List) and not inits[0].value.elts:
            src_name, src_list = sv.id, True
    tgt_name = tv.id if isinstance(tv, ast.Name) else None

    def latch_state(p):
        """True: the path found the latch empty (this is the first block), False: already set, None: not asked"""
        for t, k in p.tests:
            txt = u(t)
            if not src_list and txt == f"{src_name} is not None":
                return not k
            if src_list and txt == src_name:
                return not k
            if src_list and txt in (f"len({src_name}) == 0", f"0 == len({src_name})"):
                return k
            if src_list and txt in (f"len({src_name}) > 0", f"len({src_name}) >= 1", f"len({src_name}) != 0"):
                return not k
        return None

    def latched(p):
        """the link the path stores in the latch (text), '' when it leaves the latch alone"""
        if not src_list:
            return u(p.env[src_name]) if src_name in p.env else ""
        app = p.find_effect(f"{src_name}.append(E_v)")
        if app:
            return app[0][2]["E_v"] if len(app) == 1 else "<several>"
        if src_name in p.env:
            v = p.env[src_name]
            return u(v.elts[0]) if isinstance(v, ast.List) and len(v.elts) == 1 else u(v)
        return ""
    pre = [s_ for s_ in fn.body[: fn.body.index(lp)] if isinstance(s_, (ast.Assign, ast.AnnAssign)) and u(s_.targets[0] if isinstance(s_, ast.Assign) else s_.target) not in (src_name, tgt_name)]
    bps = summaries(pre + lp.body)
    ok_src = ok_first = ok_tgt = ok_ref = bool(bps) and src_name is not None and tgt_name is not None
    seen = set()
    found_src = ""
    for p in bps:
        cls = [u(t.args[1]) for t, k in p.tests if k and isinstance(t, ast.Call) and u(t.func) == "isinstance" and u(t.args[0]) == op]
        if cls and cls[0] == "DataflowBlock":
            first = latch_state(p)
            if first is None:
                ok_first = False
            elif first:
                seen.add("entry")
                found_src = latched(p) or "<not set>"
                ok_src = ok_src and latched(p) == f"self.link_name(InPort({ch}, 0))"
            else:
                ok_first = ok_first and latched(p) == ""
        elif cls and cls[0] == "ExitBlock":
            seen.add("exit")
            ok_tgt = ok_tgt and tgt_name in p.env and u(p.env[tgt_name]) in (f"[self.link_name(InPort({ch}, 0))]", f"[self.link_name(InPort({ch}, c0)) for c0 in range(1)]")
        elif not cls:
            seen.add("other")
            ok_ref = ok_ref and p.kind == "raise"
    ctx.check(ok_src and "entry" in seen, "C12.R4", "export_region_cfg: region source", m.path, fn_o.lineno,
              "the control-flow region's source is the link on the entry block's *input* port 0 (reference: export.rs::export_cfg); using the entry's output port "
              "merges the region source with the entry's first successor edge", fn_o, expected=f"self.link_name(InPort({ch}, 0))", found=found_src)
    ctx.check(ok_first and "entry" in seen, "C12.R4", "export_region_cfg: first block is the entry", m.path, fn_o.lineno, "only the first DataflowBlock child defines the source", fn_o)
    ctx.check(ok_tgt and "exit" in seen, "C12.R4", "export_region_cfg: region targets", m.path, fn_o.lineno, "the targets are the exit block's input", fn_o)
    ok = src_name is not None and tgt_name is not None and kv is not None and "CONTROL_FLOW" in u(kv)
    ctx.check(ok, "C12.R4", "export_region_cfg: region assembled", m.path, fn_o.lineno, "", fn_o)
    ctx.check(ok_ref and "other" in seen, "C12.R4", "export_region_cfg: unexpected children refused", m.path, fn_o.lineno, "", fn_o)


def r5_dispatch(ctx, m, me) -> None:
    from ..rulekit import arg_of, unold
    from ..tmpl import T, tfind, thas
    prog = ctx.program
    ops = prog.module("hugr.ops")
    fn = me.methods["export_node"]
    nodep, subj, arms, default = export_arms(ctx, me)
    if len(arms) < 10:
        ctx.broken("export_node: dispatch over the operation classes not found")
    ok = bool(default) and all(p.kind == "raise" for p in default)
    ctx.check(ok, "C12.R5", "export_node: fall-through raises", m.path, fn.lineno, "an operation without an arm must be refused, not dropped", fn)
    handled_elsewhere = {"Input": "export_region_dfg", "Output": "export_region_dfg", "ExitBlock": "export_region_cfg", "Case": "export_region_dfg (via Conditional)",
                         "Module": "export_region_module"}
    arm_classes = {}
    for name in arms:
        for part in name.split(" | "):
            k = ops.classes.get(part.split(".")[-1])
            if k is not None:
                arm_classes[part.split(".")[-1]] = k
    for cname, c in ops.classes.items():
        if "_to_serial" not in [mm for kk in c.mro for mm in kk.methods] or "Protocol" in [u(b).split("[")[0] for b in c.node.bases] or cname in ("Op",):
            continue
        if cname.startswith("_") and cname != "_CallOrLoad":
            continue
        if cname == "_CallOrLoad" or cname in ("RegisteredOp",):
            continue
        cover = [a for a, k in arm_classes.items() if k in c.mro]
        if cname in handled_elsewhere:
            region_fn = handled_elsewhere[cname].split(" ")[0]
            rf = me.methods.get(region_fn)
            ok = rf is not None and (cname in u(rf) or cname == "Case" or cname == "Module")
            ctx.check(ok, "C12.R5", f"hugr.ops.{cname}: handled by {region_fn}", m.path, rf.lineno if rf else fn.lineno, "", rf)
            continue
        ctx.check(bool(cover), "C12.R5", f"hugr.ops.{cname}: has an export arm", m.path, fn.lineno,
                  f"operation class {cname} is matched by no arm of export_node: exporting a HUGR containing it raises 'Unknown operation'", fn,
                  detail=f"arm {cover[0]}" if cover else "")
    # shadowing: an arm whose class has a base that was already refused on every path into it can never be taken
    for name, a in arms.items():
        for part in name.split(" | "):
            kb = arm_classes.get(part.split(".")[-1])
            for r in a["refused"]:
                ka = arm_classes.get(r.split(".")[-1])
                if ka is not None and kb is not None and ka in kb.mro and ka is not kb:
                    ctx.fail("C12.R5", f"export_node: arm {part} shadowed by {r}", m.path, fn.lineno, f"the arm for {part} can never be reached because {r} (a base class) comes first", fn)
    ctx.ok("C12.R5", "export_node: no arm is shadowed", f"{len(arms)} arms")
    # the Const arm returns None (inlined into its loads) and region exporters skip None
    carm = arms.get("Const")
    ok = carm is not None and all(p.kind == "return" and p.value_text() == "None" for p in carm["paths"])
    ctx.check(ok, "C12.R5", "export_node: constants are inlined into their loads", m.path, fn.lineno, "", fn)
    for rn in ("export_region_module", "export_region_dfg", "export_region_cfg"):
        rf_o = me.methods[rn]
        rf = ctx.cfn(f"{EXP}.ModelExport.{rn}")
        npar = rf.args.args[1].arg
        ok = False
        # comprehension form
        for form in (f"[self.export_node(c0) for c0 in self.hugr[{npar}].children if self.export_node(c0) is not None]",
                     f"[c1 for c0 in self.hugr[{npar}].children if (c1 := self.export_node(c0)) is not None]",
                     f"[L_x for c0 in self.hugr[{npar}].children if (L_x := self.export_node(c0)) is not None]"):
            if thas(rf, form):
                ok = True
        # loop form: every child, in child order, appended unless the exporter answered None
        for lp in [n for n in ast.walk(rf) if isinstance(n, ast.For) and u(n.iter) in (f"self.hugr[{npar}].children", "node_data.children") and isinstance(n.target, ast.Name)]:
            from ..paths import summaries
            ch = lp.target.id
            good = False
            for q in summaries(lp.body):
                ex = q.find_effect(f"self.export_node({ch})")
                if ex:
                    app = q.find_effect(f"L_acc.append(self.export_node({ch}))")
                    some = [k for t, k in q.tests if u(t) == f"self.export_node({ch}) is not None"]
                    if some and some[0] and app:
                        good = True
                    elif some and some[0] and not app:
                        good = False
                        break
            ok = ok or good
        ctx.check(ok, "C12.R5", f"{rn}: children exported in order", m.path, rf_o.lineno, "regions mirror the hierarchy: every child, in child order", rf_o)
    cond = arms.get("Conditional")
    ok = cond is not None
    if ok:
        for p in cond["paths"]:
            ns = _node_calls(p)
            rg = arg_of(ctx, ns[0], "regions", m, me) if len(ns) == 1 else None
            ok = ok and rg is not None and unold(rg) == f"[self.export_region_dfg(c0) for c0 in self.hugr[{nodep}].children]"
    ctx.check(ok, "C12.R5", "export_node: one region per case, in order", m.path, fn.lineno, "", fn)


def rust_binding_table(ctx):
    p = ctx.root / PYRS
    if not p.exists():
        ctx.broken(f"anchor vanished: {PYRS}")
    rs = p.read_text()
    rust: dict[str, list[str]] = {}
    for mt in re.finditer(r"impl<'py> pyo3::FromPyObject<'py> for (\w+) \{(.*?)\n\}\n", rs, re.S):
        ty, body = mt.group(1), mt.group(2)
        arms = list(re.finditer(r'"(\w+)" => (\{.*?\n            \}|[^\n]*,)', body, re.S))
        if arms:
            for a in arms:
                rust[a.group(1)] = re.findall(r'getattr\("(\w+)"\)', a.group(2))
        else:
            rust[ty] = re.findall(r'getattr\("(\w+)"\)', body)
    calls: dict[str, int] = {}
    for mt in re.finditer(r'getattr\("(\w+)"\)\?;\s*py_class\.(call0|call1)\((.*?)\)\s*\n', rs, re.S):
        cls, kind, args = mt.groups()
        inner = args.strip()
        if inner.startswith("(") and inner.endswith(")"):
            inner = inner[1:-1]
        calls[cls] = 0 if kind == "call0" else len([a for a in re.split(r",\s*", inner.strip()) if a.strip()])
    if len(rust) < 20:
        ctx.broken(f"{PYRS}: binding table scan found only {len(rust)} arms")
    return rust, calls


def r6_binding_table(ctx) -> None:
    rust, calls = rust_binding_table(ctx)
    mm = ctx.program.module("hugr.model")
    n = 0
    for cname, c in mm.classes.items():
        if not c.is_dataclass:
            continue
        n += 1
        fields = [f.name for f in c.fields if not f.classvar]
        r = rust.get(cname)
        if cname == "Splice":
            r = rust.get("SeqPart")
        if r is None:
            ctx.fail("C12.R6", f"hugr.model.{cname}", mm.path, c.node.lineno, f"the Rust binding has no arm reading a Python {cname}", c.node)
            continue
        ctx.check(list(r) == fields, "C12.R6", f"hugr.model.{cname}: attributes", mm.path, c.node.lineno,
                  f"the Rust binding reads {r} from a {cname}, the Python class declares {fields}: the attribute sets must be identical", c.node,
                  expected=str(r), found=str(fields), detail=str(fields))
        if cname in calls:
            ctx.check(calls[cname] == len(fields), "C12.R6", f"hugr.model.{cname}: constructor arity", mm.path, c.node.lineno,
                      f"the Rust binding constructs {cname} with {calls[cname]} positional arguments, the dataclass takes {len(fields)}", c.node)
    ctx.stats["C12.R6 model dataclasses"] = n
    n_enum = _enum_values(ctx, mm)
    ctx.stats["C12.R6 enums read by value"] = n_enum


MODRS = "hugr-model/src/v0/mod.rs"


def _enum_members(c) -> dict[str, int | None]:
    """member -> value of an Enum class body as the enum machinery computes it (literal ints; auto() = last + 1, first 1)"""
    out: dict[str, int | None] = {}
    last = 0
    for st in c.node.body:
        if isinstance(st, ast.Assign) and len(st.targets) == 1 and isinstance(st.targets[0], ast.Name):
            v = st.value
            if isinstance(v, ast.Constant) and isinstance(v.value, int) and not isinstance(v.value, bool):
                val = v.value
            elif isinstance(v, ast.Call) and u(v.func).split(".")[-1] == "auto" and not v.args:
                val = last + 1
            else:
                out[st.targets[0].id] = None
                continue
            out[st.targets[0].id] = last = val
    return out


def _enum_values(ctx, mm) -> int:
    """enums the Rust side reads through `.value`: value -> Rust variant (FromPyObject) and Rust variant -> Python member
    (IntoPyObject) compose to member -> value, which the Python class must declare"""
    p = ctx.root / MODRS
    if not p.exists():
        ctx.broken(f"anchor vanished: {MODRS}")
    rs = p.read_text()
    n = 0
    for mt in re.finditer(r"impl<'py> pyo3::FromPyObject<'py> for (\w+) \{(.*?)\n\}\n", rs, re.S):
        ty, body = mt.group(1), mt.group(2)
        if 'getattr("value")' not in body:
            continue
        by_value = {v: int(k) for k, v in re.findall(r"(\d+) => Ok\(Self::(\w+)\)", body)}
        into = re.search(r"impl<'py> pyo3::IntoPyObject<'py> for " + ty + r" \{(.*?)\n\}\n", rs, re.S)
        if not by_value or into is None:
            ctx.broken(f"{MODRS}: conversions of {ty} not recognised")
        member = dict(re.findall(ty + r'::(\w+) => py_class\.getattr\("(\w+)"\)', into.group(1)))
        cls_name = re.search(r'py_module\.getattr\("(\w+)"\)', into.group(1))
        c = mm.classes.get(cls_name.group(1)) if cls_name else None
        if cls_name and c is None:
            ctx.note(f"{MODRS}: {ty} has no Python counterpart in hugr.model (never crosses the binding from Python)")
            continue
        if c is None or set(member) != set(by_value):
            ctx.broken(f"{MODRS}: {ty}: Python class / variant table not recognised")
        want = {member[v]: by_value[v] for v in by_value}
        got = _enum_members(c)
        n += 1
        ctx.check(got == want, "C12.R6", f"hugr.model.{c.name}: member values", mm.path, c.node.lineno,
                  f"the Rust binding reads `{c.name}.value` and maps {dict(sorted((k, v) for v, k in by_value.items()))}; it hands back the members "
                  f"{member}: the Python enum must declare exactly {want}", c.node, expected=str(want), found=str(got), detail=str(got))
    if n < 1:
        ctx.broken(f"{MODRS}: no enum conversion through `.value` found (RegionKind expected)")
    return n


def r7_plumbing(ctx, m, me) -> None:
    from ..paths import summaries
    from ..rulekit import arg_of, unold
    from ..tmpl import T, tmatch, thas
    init = me.methods.get("__init__")
    ci = ctx.cfn(f"{EXP}.ModelExport.__init__", subst=False)
    loops = [n for n in ast.walk(ci) if isinstance(n, ast.For)]
    # (the constructor's parameter, filed as self.hugr before the loop and not rebound, is self.hugr)
    filed = [s_.value.id for s_ in ci.body if isinstance(s_, ast.Assign) and len(s_.targets) == 1 and u(s_.targets[0]) == "self.hugr" and isinstance(s_.value, ast.Name)
             and s_.value.id in [a.arg for a in ci.args.args] and sum(1 for n in ast.walk(ci) if isinstance(n, ast.Name) and n.id == s_.value.id and isinstance(n.ctx, ast.Store)) == 0]
    ok = len(loops) == 1 and u(loops[0].iter) in ["self.hugr.links()"] + [f"{p_}.links()" for p_ in filed] and isinstance(loops[0].target, ast.Tuple) and len(loops[0].target.elts) == 2
    if ok:
        a_, b_ = u(loops[0].target.elts[0]), u(loops[0].target.elts[1])
        bps = summaries(loops[0].body)
        ok = bool(bps) and all(q.kind == "fall" and not q.tests and (len(q.find_effect(f"self.link_ports.union({a_}, {b_})")) == 1 or len(q.find_effect(f"self.link_ports.union({b_}, {a_})")) == 1) for q in bps)
    ctx.check(ok, "C12.R7", "ModelExport.__init__: every edge merges its two ports", m.path, init.lineno,
              "two ports carry the same link name exactly when an edge joins them: the union-find must be built over all hugr.links()", init)
    ln = me.methods.get("link_name")
    pp = ln.args.args[1].arg
    ps = ctx.paths(f"{EXP}.ModelExport.link_name")
    root = f"self.link_ports[{pp}]"
    ok = bool(ps)
    seen = set()
    for q in ps:
        known = [k for t, k in q.tests if u(t) == f"{root} in self.link_names"]
        # (names are strings -- the only store files str(..), checked below -- so "no entry" may also be asked as `.get(root) is None`)
        known += [k for t, k in q.tests if u(t) == f"self.link_names.get({root}) is not None"]
        known += [not k for t, k in q.tests if u(t) == f"self.link_names.get({root}) is None"]
        st = q.find_effect(f"self.link_names[{root}] = E_v")
        if not known and q.kind == "return" and not q.tests and unold(q.value) == f"self.link_names.setdefault({root}, str(len(self.link_names)))":
            # dict.setdefault: the recorded name when there is one, else the fresh name is recorded and answered
            seen |= {"known", "fresh"}
            continue
        if not known or q.kind != "return":
            ok = False
        elif known[0]:
            seen.add("known")
            ok = ok and not st and q.value_text() in (f"self.link_names[{root}]", f"self.link_names.get({root})")
        else:
            seen.add("fresh")
            ok = ok and len(st) == 1 and st[0][2]["E_v"] == "str(len(self.link_names))" and unold(q.value) in ("str(len(self.link_names))", f"self.link_names[{root}]")
    ctx.check(ok and seen == {"known", "fresh"}, "C12.R7", "ModelExport.link_name: one fresh name per component", m.path, ln.lineno, "", ln)
    uf = ctx.program.module(EXP).classes.get("_UnionFind")
    un = uf.methods.get("union")
    a_, b_ = un.args.args[1].arg, un.args.args[2].arg
    ps = ctx.paths(f"{EXP}._UnionFind.union")
    ok = bool(ps)
    seen = set()
    for p in ps:
        same = [k for t, k in p.tests if u(t) in (f"self[{a_}] == self[{b_}]", f"self[{b_}] == self[{a_}]")]
        stores = [e for e in p.effects if isinstance(e, ast.Assign) and isinstance(e.targets[0], ast.Subscript) and u(e.targets[0].value) == "self.parents"]
        if not same:
            ok = False
        elif same[0]:
            seen.add("same")
            ok = ok and not stores
        else:
            seen.add("merge")
            ok = ok and len(stores) == 1 and {u(stores[0].targets[0].slice), u(stores[0].value)} == {f"self[{a_}]", f"self[{b_}]"}
    ctx.check(ok and seen == {"same", "merge"}, "C12.R7", "_UnionFind.union", m.path, un.lineno, "the roots of the two elements are linked unless they already coincide", un,
              found="; ".join(p.describe() + " :: " + " | ".join(p.effect_texts()) for p in ps)[:300])
    en = me.methods["export_node"]
    nodep, subj, arms, default = export_arms(ctx, me)
    allp = [p for a in arms.values() for p in a["paths"]]
    meta_init = f"[model.Apply('compat.meta_json', [model.Literal(c0), model.Literal(json.dumps(c1))]) for c0, c1 in self.hugr[{nodep}].metadata.items()]"
    ok_meta = ok_nodes = ok_ports = ok_key = bool(allp)
    nnodes = 0
    miss = None
    for p in allp:
        inits = [e for e in p.effects if isinstance(e, ast.Assign) and isinstance(e.targets[0], ast.Name) and "compat.meta_json" in u(e.value)]
        if len(inits) != 1 or unold(inits[0].value) != meta_init:
            ok_meta = False
            continue
        acc = inits[0].targets[0].id
        keyt = [k for t, k in p.tests if u(t) == f"_needs_order_key(self.hugr, {nodep})"]
        keys = p.find_effect(f"{acc}.append(model.Apply('core.order_hint.key', [model.Literal({nodep}.idx)]))")
        ok_key = ok_key and bool(keyt) and (len(keys) == 1 if keyt[0] else not keys)
        for c in _node_calls(p):
            nnodes += 1
            mv = arg_of(ctx, c, "meta", m, me)
            if mv is None or u(mv) != acc:
                ok_nodes = False
                miss = c
            iv, ov = arg_of(ctx, c, "inputs", m, me), arg_of(ctx, c, "outputs", m, me)
            if iv is not None or ov is not None:
                good = iv is not None and ov is not None and unold(iv).startswith(f"[self.link_name(InPort({nodep}, c0)) for c0 in range(") \
                    and unold(ov).startswith(f"[self.link_name(OutPort({nodep}, c0)) for c0 in range(")
                ok_ports = ok_ports and good
    ctx.check(ok_meta, "C12.R7", "export_node: every metadata entry carried over", m.path, en.lineno, "", en)
    ctx.check(ok_nodes and nnodes >= 15, "C12.R7", "export_node: every model node receives the metadata", m.path, getattr(miss, "lineno", en.lineno),
              "a model.Node(...) is built without meta=meta: metadata and order keys of that operation kind are dropped", miss,
              detail=f"{nnodes} node constructions")
    ctx.check(ok_ports, "C12.R7", "export_node: port lists passed unswapped", m.path, en.lineno, "", en)
    ctx.check(ok_key, "C12.R7", "export_node: order key = node index", m.path, en.lineno, "both endpoints of a hint must carry matching keys (their node indices)", en)
    nk = ctx.program.module(EXP).functions.get("_needs_order_key")
    ok = nk is not None
    if ok:
        h_, n_ = nk.args.args[0].arg, nk.args.args[1].arg
        ps = ctx.paths(f"{EXP}._needs_order_key")
        for links, boundary in (("outgoing_order_links", "Output"), ("incoming_order_links", "Input")):
            it = f"{h_}.{links}({n_})"
            anyform = f"any((not isinstance({h_}[c0].op, {boundary}) for c0 in {it}))"
            good = False
            # loop form: every neighbour is examined; the first one that is not the boundary node answers True
            cnk = ctx.cfn(f"{EXP}._needs_order_key", subst=False)
            for lp in [x for x in ast.walk(cnk) if isinstance(x, ast.For) and u(x.iter) == it and isinstance(x.target, ast.Name)]:
                from ..paths import summaries
                v = lp.target.id
                bps = summaries(lp.body)
                good = bool(bps)
                for q in bps:
                    bt = [k for t, k in q.tests if u(t) == f"isinstance({h_}[{v}].op, {boundary})"]
                    if not bt or len(q.tests) != 1:
                        good = False
                    elif bt[0]:
                        good = good and q.kind in ("fall", "continue") and not q.effects
                    else:
                        good = good and q.kind == "return" and q.value_text() == "True"
            allform = f"all((isinstance({h_}[c0].op, {boundary}) for c0 in {it}))"
            for p in ps:
                # any() form (canonically `not all(<is boundary>)`)
                # (both directions asked in one answer: `<out> or <in>`)
                operands = [u(v_) for v_ in p.value.values] if p.kind == "return" and isinstance(p.value, ast.BoolOp) and isinstance(p.value.op, ast.Or) else []
                if anyform in operands or f"not {allform}" in operands:
                    good = True
                if (p.kind == "return" and p.value_text() in (anyform, f"not {allform}")) or (p.kind == "return" and p.value_text() == "True" and (
                        p.has_test(anyform, True) is not None or p.has_test(allform, False) is not None)):
                    good = True
            ok = ok and good
        ok = ok and any(p.kind == "return" and p.value_text() in ("False",) or p.kind == "return" and p.value_text().startswith(("any(", "not all(")) for p in ps)
        # "no key needed" is answered only after both enumerations were examined (no shortcut on the node's own operation: calls, loads
        # and containers carry order edges although they are no DataflowOp)
        why_short = ""
        for p in ps:
            if p.kind == "return" and p.value_text() in ("False", "None", "0"):
                for links, boundary in (("outgoing_order_links", "Output"), ("incoming_order_links", "Input")):
                    it = f"{h_}.{links}({n_})"
                    allform = f"all((isinstance({h_}[c0].op, {boundary}) for c0 in {it}))"
                    anyform = f"any((not isinstance({h_}[c0].op, {boundary}) for c0 in {it}))"
                    looped = any(isinstance(e, ast.For) and u(e.iter) == it for e in p.effects)
                    asked = p.has_test(allform, True) is not None or p.has_test(anyform, False) is not None
                    if not (looped or asked):
                        ok = False
                        why_short = f"a path answers False without looking at {links}: {p.describe()[:160]}"
    ctx.check(ok, "C12.R7", "_needs_order_key: excludes exactly Input/Output endpoints", m.path, nk.lineno if nk else 1,
              "a node needs an order key iff it has an order link to something other than the Input / Output node of its region"
              + (f" [{why_short}]" if ok is False and nk is not None and 'why_short' in dir() and why_short else ""), nk)


def r8_ext_arms(ctx, m, me) -> None:
    from ..rulekit import arg_of, unold
    from ..tmpl import T, tmatch
    fn = me.methods["export_node"]
    nodep, subj, arms, default = export_arms(ctx, me)
    cu, ae = arms.get("Custom"), arms.get("AsExtOp")
    if cu is None or ae is None:
        ctx.broken("export_node: Custom / AsExtOp arms not found")

    def parts(arm):
        out = []
        for p in arm["paths"]:
            for c in _node_calls(p):
                opv = arg_of(ctx, c, "operation", m, me)
                if opv is not None:
                    opv = ast.parse(unold(opv), mode="eval").body        # (a value computed before a later call keeps an old_ marker)
                e = tmatch(opv, T("model.CustomOp(model.Apply(E_name, E_args))")) if opv is not None else None
                sg = arg_of(ctx, c, "signature", m, me)
                out.append((unold(e["E_name"]) if e else None, unold(e["E_args"]) if e else None, unold(sg) if sg is not None else None))
        return out
    pc, pa = parts(cu), parts(ae)
    op = f"self.hugr[{nodep}].op"
    ok_name = bool(pc) and bool(pa) and all(x[0] == f"f'{{{op}.extension}}.{{{op}.op_name}}'" for x in pc) and all(x[0] == f"{op}.op_def().qualified_name()" for x in pa)
    from ..nf import NF, Opaque, ite_normal
    nf_ = NF(ctx.program)
    od = ctx.program.cls("hugr.ext.OpDef")
    try:
        got_q = ite_normal(nf_.method_nf(od, "qualified_name")[0])
        want_q = ite_normal(nf_.expr_nf("(f'{self._extension.name}.{self.name}' if self._extension.name else self.name) if self._extension else self.name", od)[0])
        ok_name = ok_name and got_q == want_q
    except Opaque:
        ok_name = False
    ctx.check(ok_name, "C12.R8", "export_node: opaque and resolved ops export the same symbol", m.path, fn.lineno,
              "Custom exports <extension>.<op_name>; a resolved op must export its definition's qualified name (same string through the resolution correspondence)", fn,
              found=str(pc[:1] + pa[:1])[:300])
    ok_args = all(x[1] is not None and f"[c0.to_model() for c0 in {op}.args]" in x[1] for x in pc) and all(x[1] is not None and f"[c0.to_model() for c0 in {op}.type_args()]" in x[1] for x in pa)
    ok_sig = all(x[2] == f"{op}.signature.to_model()" for x in pc) and all(x[2] == f"{op}.outer_signature().to_model()" for x in pa)
    ctx.check(bool(pc) and bool(pa) and ok_args and ok_sig, "C12.R8", "export_node: opaque and resolved ops export the same arguments and signature", m.path, fn.lineno, "", fn)
    ctx.check("Custom" not in ae["refused"] or True, "C12.R8", "export_node: arms distinct", m.path, fn.lineno, "", fn)


def r9_symbol_params(ctx, m, rule="C12.R9") -> None:
    """export_symbol: every parameter is declared under the name str(<its position in the whole parameter list>), and a copyable type
    parameter gets its `core.nonlinear` constraint on that same name"""
    from ..paths import summaries
    from ..tmpl import T, tfind, tmatch
    q = f"{EXP}.ModelExport.export_symbol"
    fn, _, _ = ctx.locate(q)
    pt = fn.args.args[2].arg if len(fn.args.args) > 2 else None
    if pt is None:
        ctx.broken("export_symbol: expected (self, name, param_types, body)")
    cf = ctx.cfn(q)
    why = ""
    ok_p = ok_c = False
    # positions taken from a search for an equal element are not positions (duplicates): known-wrong idiom
    idx = [c for c in ast.walk(cf) if isinstance(c, ast.Call) and isinstance(c.func, ast.Attribute) and c.func.attr == "index" and u(c.func.value) == pt]
    if idx:
        ctx.fail(rule, "export_symbol: parameters named by position", m.path, getattr(idx[0], "lineno", fn.lineno),
                 f"`{u(idx[0])}` is the position of the first *equal* parameter: two equal parameters get one name, so a variable of the signature "
                 "is unbound and a constraint is lost", idx[0])
        return
    loops = [x for x in cf.body if isinstance(x, ast.For)]
    if len(loops) == 1 and u(loops[0].iter) == f"enumerate({pt})" and isinstance(loops[0].target, ast.Tuple) and len(loops[0].target.elts) == 2:
        i_, p_ = u(loops[0].target.elts[0]), u(loops[0].target.elts[1])
        qs = summaries(loops[0].body)
        ok_p = ok_c = bool(qs)
        for s_ in qs:
            decl = s_.find_effect(f"L_ps.append(model.Param(str({i_}), {p_}.to_model()))")
            ok_p = ok_p and len(decl) == 1 and s_.kind in ("fall", "continue")
            ty = [k for t, k in s_.tests if u(t) == f"isinstance({p_}, TypeTypeParam)"]
            cp = [k for t, k in s_.tests if u(t) in (f"{p_}.bound == TypeBound.Copyable", f"TypeBound.Copyable == {p_}.bound")]
            con = s_.find_effect(f"L_cs.append(model.Apply('core.nonlinear', [model.Var(str({i_}))]))")
            others = [e for e in s_.effects if "core.nonlinear" in u(e)]
            want = bool(ty) and ty[0] and bool(cp) and cp[0]
            ok_c = ok_c and (len(con) == 1 and len(others) == 1 if want else not others) and bool(ty)
    else:
        # comprehension spellings: the normal form of the returned Symbol (engine C: pipelines of comprehensions fuse, fields of a
        # constructed Param project) against the normal form of the specification
        from ..nf import NF, Env, Opaque, ctor_args, sym
        nf = NF(ctx.program)
        _, mod_, cls_ = ctx.locate(q)
        names = [a.arg for a in fn.args.args]
        env = Env(mod_, cls_, {n_: sym(n_) for n_ in names}, {sym(names[0]): cls_})
        try:
            got = nf.body(cf, env)
            want, _ = nf.expr_nf(
                f"model.Symbol({names[1]}, [model.Param(str(i), p.to_model()) for i, p in enumerate({pt})], "
                f"[model.Apply('core.nonlinear', [model.Var(str(i))]) for i, p in enumerate({pt}) if isinstance(p, TypeTypeParam) and p.bound == TypeBound.Copyable], "
                f"{names[3]}.to_model())", cls_, extra={n_: sym(n_) for n_ in names[1:]})
        except Opaque as ex:
            ctx.broken(f"export_symbol: neither a loop over enumerate(param_types) nor a normalisable expression ({ex})")
        ga, wa = (ctor_args(got) if got[0] == "ctor" else {}), ctor_args(want)
        ok_p = ga.get("params") == wa.get("params")
        ok_c = ga.get("constraints") == wa.get("constraints")
    ctx.check(ok_p, rule, "export_symbol: parameters named by position", m.path, fn.lineno,
              "parameter i of the list is declared as model.Param(str(i), its exported type): variables of the signature refer to parameters by that name", fn)
    ctx.check(ok_c, rule, "export_symbol: copyable type parameters constrained under their own name", m.path, fn.lineno,
              "a type parameter with bound Copyable gets core.nonlinear on model.Var(str(i)) with i its position in the *whole* parameter list, and no "
              "other parameter gets one", fn)


def run(ctx) -> None:
    ctx.rule("C12.R1", "every mangled symbol takes name and node from the same operation (def-use through the match binding)", floor=3)
    ctx.rule("C12.R2", "order hints are collected per order edge between non-boundary siblings and passed to the region", floor=2)
    ctx.rule("C12.R3", "exported port lists range over the operation's signature, never over the store's connection counters", floor=5)
    ctx.rule("C12.R4", "CFG region: source = entry block input 0, targets = exit block input, unexpected children refused", floor=5)
    ctx.rule("C12.R5", "every operation class has an unshadowed export arm or a region exporter; regions export every child in order", floor=30)
    ctx.rule("C12.R6", "Python model dataclasses declare exactly the attributes (and arity) the Rust binding reads", floor=50)
    ctx.rule("C12.R7", "link naming over all links, metadata copied for every key and node kind, order keys", floor=8)
    ctx.rule("C12.R8", "Custom and AsExtOp arms export the same symbol / args / signature", floor=3)
    m = ctx.program.module(EXP)
    me = m.classes.get("ModelExport")
    if me is None:
        ctx.broken("anchor vanished: ModelExport")
    r1_symbol_provenance(ctx, m, me)
    r2_order_hints(ctx, m, me)
    r3_port_lists(ctx, m, me)
    r4_cfg_boundary(ctx, m, me)
    r5_dispatch(ctx, m, me)
    r6_binding_table(ctx)
    r7_plumbing(ctx, m, me)
    r8_ext_arms(ctx, m, me)
    ctx.rule("C12.R9", "symbols declare their parameters by position and constrain copyable type parameters under that name", floor=2)
    r9_symbol_params(ctx, m)
    ctx.rule("C12.R10", "the link listings the exporter searches for static inputs enumerate the value ports 0..n-1 only (shared with C04.R7)", floor=2)
    from .c04 import r6_r7_tables, r7_listings
    hugr_cls = ctx.program.cls("hugr.hugr.base.Hugr")
    with ctx.as_rule(C04_R7="C12.R10", C04_R6="C12.R10"):
        r6_r7_tables(ctx, hugr_cls, hugr_cls.module.path, only={"links"})
        r7_listings(ctx, hugr_cls, hugr_cls.module.path)
    from .. import lints
    lints.arm(ctx)



# ---------------------------------------------------------------------------------------
X = "hugr-py/src/hugr/model/export.py"
M = "hugr-py/src/hugr/model/__init__.py"
MUTANTS = [
    dict(name="call-names-caller", file=X, expect="C12.R1", old="        return _mangle_name(func_node, name)", new="        return _mangle_name(node, name)"),
    dict(name="decl-mangled-with-parent", file=X, expect="C12.R1", old="            case FuncDecl() as op:\n                name = _mangle_name(node, op.f_name)", new="            case FuncDecl() as op:\n                name = _mangle_name(self.hugr.root, op.f_name)"),
    dict(name="hints-not-attached", file=X, expect="C12.R2", old="            targets=targets,\n            meta=meta,\n        )", new="            targets=targets,\n        )"),
    dict(name="hints-include-output", file=X, expect="C12.R2", old="                        for successor in self.hugr.outgoing_order_links(child)\n                        if not isinstance(self.hugr[successor].op, Output)\n", new="                        for successor in self.hugr.outgoing_order_links(child)\n"),
    dict(name="hint-keys-swapped", file=X, expect="C12.R2", old="                            [model.Literal(child.idx), model.Literal(successor.idx)],", new="                            [model.Literal(successor.idx), model.Literal(child.idx)],"),
    dict(name="ports-from-counters", file=X, expect="C12.R3", old="        inputs = [self.link_name(InPort(node, i)) for i in range(num_inputs)]", new="        inputs = [self.link_name(InPort(node, i)) for i in range(node_data._num_inps)]"),
    dict(name="call-ports-from-body", file=X, expect="C12.R3", old="            return len(op.instantiation.input), len(op.instantiation.output)", new="            return len(op.signature.body.input), len(op.signature.body.output)"),
    dict(name="block-ports-value", file=X, expect="C12.R3", old="            return 1, len(op.sum_ty.variant_rows)", new="            return len(op.inputs), len(op.sum_ty.variant_rows)"),
    dict(name="cfg-source-out-port", file=X, expect="C12.R4", old="                        source = self.link_name(InPort(child, 0))", new="                        source = self.link_name(OutPort(child, 0))"),
    dict(name="cfg-last-block-is-entry", file=X, expect="C12.R4", old="                    if source is None:\n                        source_types", new="                    if True:\n                        source_types"),
    dict(name="tag-arm-removed", file=X, expect="C12.R5", old="            case Tag() as op:\n                variants = model.List(", new="            case Tag() as op if False:\n                variants = model.List("),
    dict(name="unknown-op-dropped", file=X, expect="C12.R5", old="            case op:\n                error = f\"Unknown operation: {op}\"\n                raise ValueError(error)", new="            case op:\n                return None"),
    dict(name="cases-reversed", file=X, expect="C12.R5", old="                    self.export_region_dfg(child) for child in node_data.children\n", new="                    self.export_region_dfg(child) for child in reversed(node_data.children)\n"),
    dict(name="model-field-renamed", file=M, expect="C12.R6", old="    symbol: str\n    args: Sequence[Term] = field(default_factory=list)", new="    name: str\n    args: Sequence[Term] = field(default_factory=list)"),
    dict(name="model-fields-reordered", file=M, expect="C12.R6", old="    symbol: str\n    args: Sequence[Term] = field(default_factory=list)", new="    args: Sequence[Term] = field(default_factory=list)\n    symbol: str = \"\""),
    dict(name="links-partially-merged", file=X, expect="C12.R7", old="        for a, b in self.hugr.links():\n            self.link_ports.union(a, b)", new="        for a, b in self.hugr.links():\n            if a.offset >= 0:\n                self.link_ports.union(a, b)"),
    dict(name="metadata-first-key-only", file=X, expect="C12.R7", old="                    [model.Literal(meta_name), model.Literal(meta_json)],\n                )\n            )\n", new="                    [model.Literal(meta_name), model.Literal(meta_json)],\n                )\n            )\n            break\n"),
    dict(name="cfg-node-without-meta", file=X, expect="C12.R7", old="                    regions=[region],\n                    meta=meta,\n                )\n\n            case DataflowBlock() as op:", new="                    regions=[region],\n                )\n\n            case DataflowBlock() as op:"),
    dict(name="order-key-input-counted", file=X, expect="C12.R7", old="        if not isinstance(pred_op, Input):\n            return True", new="        if pred_op is not None:\n            return True"),
    dict(name="custom-arm-unqualified", file=X, expect="C12.R8", old="                name = f\"{op.extension}.{op.op_name}\"", new="                name = op.op_name"),
]
TWINS = []


def thorough(ctx):
    from ..selftest import run_battery
    return run_battery(ctx, MUTANTS, TWINS)
