"""C12 -- the model export is well scoped and faithful to the HUGR.

R1 symbol provenance of mangled names; R2 order hints reach their region; R3 port lists follow the signature;
R4 CFG region boundary; R5 exhaustive, unshadowed dispatch over the operation classes; R6 Python model classes
expose exactly the attributes the Rust binding reads (table scanned from hugr-model/src/v0/ast/python.rs);
R7 link naming / metadata / order-key plumbing; R8 opaque and resolved extension ops export alike.
"""
from __future__ import annotations

import ast
import re

from ..model import Class, calls_in, call_name, kwarg, real_body, u, walk_no_nested

EXP = "hugr.model.export"
PYRS = "hugr-model/src/v0/ast/python.rs"
COUNTERS = ("_num_inps", "_num_outs", "num_in_ports", "num_out_ports", "num_ports")


def _enclosing_case(fn, node):
    for n in ast.walk(fn):
        if isinstance(n, ast.match_case) and any(node is x for x in ast.walk(n)):
            yield n


def r1_symbol_provenance(ctx, m, me) -> None:
    sites = 0
    for name, fn in me.methods.items():
        for c in calls_in(fn, "_mangle_name"):
            sites += 1
            inst = f"ModelExport.{name}: _mangle_name({u(c.args[0])}, {u(c.args[1])})"
            node_arg, name_arg = c.args[0], c.args[1]
            # where does the name come from?
            src_node = None
            if isinstance(name_arg, ast.Attribute):        # op.f_name directly
                opvar = u(name_arg.value)
            else:
                assigns = [s for s in ast.walk(fn) if isinstance(s, ast.Assign) and u(s.targets[0]) == u(name_arg)]
                opvars = {u(s.value.value) for s in assigns if isinstance(s.value, ast.Attribute)}
                opvar = opvars.pop() if len(opvars) == 1 else None
            if opvar is not None:
                # the op variable is bound by `case X() as <opvar>` of a match over <data>.op / self.hugr[K].op
                for mt in [n for n in ast.walk(fn) if isinstance(n, ast.Match)]:
                    binds = [cs for cs in mt.cases if isinstance(cs.pattern, ast.MatchAs) and cs.pattern.name == opvar]
                    if not binds:
                        continue
                    subj = mt.subject
                    if isinstance(subj, ast.Attribute) and subj.attr == "op":
                        base = subj.value
                        if isinstance(base, ast.Name):
                            for s in ast.walk(fn):
                                if isinstance(s, ast.Assign) and u(s.targets[0]) == base.id and isinstance(s.value, ast.Subscript) and u(s.value.value) == "self.hugr":
                                    src_node = u(s.value.slice)
                        elif isinstance(base, ast.Subscript) and u(base.value) == "self.hugr":
                            src_node = u(base.slice)
            ctx.check(src_node is not None and u(node_arg) == src_node, "C12.R1", inst.split(":")[0] + ": symbol names the defining node", m.path, c.lineno,
                      f"the name `{u(name_arg)}` is read from the operation of node `{src_node}` but mangled with node `{u(node_arg)}`: the symbol a call / load "
                      "refers to is then not the symbol of any definition or declaration in the module", c,
                      expected=f"_mangle_name({src_node}, {u(name_arg)})", found=u(c), detail=f"name and node both from {src_node}")
    ctx.stats["C12.R1 mangle sites"] = sites


def r2_order_hints(ctx, m, me) -> None:
    fn = me.methods.get("export_region_dfg")
    if fn is None:
        ctx.broken("anchor vanished: ModelExport.export_region_dfg")
    acc = None
    for s in ast.walk(fn):
        if isinstance(s, ast.AugAssign) and "core.order_hint.order" in u(s.value):
            acc = u(s.target)
        if isinstance(s, ast.Expr) and isinstance(s.value, ast.Call) and call_name(s.value) in ("append", "extend") and "core.order_hint.order" in u(s.value):
            acc = u(s.value.func.value)
    if acc is None:
        ctx.fail("C12.R2", "export_region_dfg: order hints collected", m.path, fn.lineno, "no core.order_hint.order terms are produced for the region", fn)
        return
    regions = [c for c in calls_in(fn) if u(c.func) == "model.Region"]
    ok = len(regions) == 1 and kwarg(regions[0], "meta") is not None and u(kwarg(regions[0], "meta")) == acc
    ctx.check(ok, "C12.R2", "export_region_dfg: order hints reach the region", m.path, regions[0].lineno if regions else fn.lineno,
              f"the list `{acc}` collects the core.order_hint.order terms but never reaches model.Region(meta=...): every state-order edge between "
              "siblings is lost in the export", regions[0] if regions else fn, expected=f"meta={acc}", found=u(kwarg(regions[0], "meta")) if regions else "")
    comp = [n for n in ast.walk(fn) if isinstance(n, ast.ListComp) and "core.order_hint.order" in u(n.elt)]
    ok = len(comp) == 1 and u(comp[0].generators[0].iter) == "self.hugr.outgoing_order_links(child)" and [u(i) for i in comp[0].generators[0].ifs] == [
        "not isinstance(self.hugr[successor].op, Output)"] and "model.Literal(child.idx), model.Literal(successor.idx)" in u(comp[0].elt)
    ctx.check(ok, "C12.R2", "export_region_dfg: one hint per order edge between non-boundary siblings", m.path, fn.lineno,
              "hints are (child key, successor key) for every outgoing order link whose target is not the Output node", fn)


def r3_port_lists(ctx, m, me) -> None:
    for name in ("export_node", "export_region_dfg", "export_region_cfg"):
        fn = me.methods.get(name)
        if fn is None:
            ctx.broken(f"anchor vanished: ModelExport.{name}")
        lists = [n for n in ast.walk(fn) if isinstance(n, ast.ListComp) and "self.link_name(" in u(n.elt)]
        for lc in lists:
            it = u(lc.generators[0].iter)
            tainted = [c for c in COUNTERS if c in it]
            ctx.check(not tainted, "C12.R3", f"ModelExport.{name}: ports {u(lc.elt)[:40]}", m.path, lc.lineno,
                      f"the exported port list ranges over `{it}`, the store's connection counters: they include the static port of Call/LoadConst/LoadFunc and "
                      "omit unconnected trailing outputs, so a node does not list exactly the value ports of its signature", lc,
                      expected="range over the operation's signature (value-port counts)", found=it, detail=it)
    helper = ctx.program.module(EXP).functions.get("_num_model_ports")
    en = me.methods["export_node"]
    uses_helper = helper is not None and any(call_name(c) == "_num_model_ports" for c in calls_in(en))
    if helper is None:
        return
    arms = {}
    for n in ast.walk(helper):
        if isinstance(n, ast.match_case):
            key = u(n.pattern).split("(")[0]
            rets = [r for r in ast.walk(n) if isinstance(r, ast.Return)]
            loc = {u(s.targets[0]): u(s.value) for s in n.body if isinstance(s, ast.Assign)}
            txt = u(rets[0].value) if rets else ""
            for k, v in loc.items():
                txt = txt.replace(k + ".", v + ".")
            arms[key] = txt
    want = {"DataflowBlock": "(1, len(op.sum_ty.variant_rows))", "Call": "(len(op.instantiation.input), len(op.instantiation.output))",
            "DataflowOp": "(len(op.outer_signature().input), len(op.outer_signature().output))", "_": "(0, 0)"}
    ctx.check(uses_helper and arms == want, "C12.R3", "_num_model_ports: table", m.path, helper.lineno,
              "model nodes list the value ports of the signature (control ports for basic blocks, the instantiated signature for calls, none for non-dataflow ops)",
              helper, expected=str(want), found=str(arms))
    order = [u(c.pattern).split("(")[0] for n in ast.walk(helper) if isinstance(n, ast.Match) for c in n.cases]
    ctx.check(order.index("DataflowOp") > order.index("DataflowBlock") and order.index("DataflowOp") > order.index("Call") if "DataflowOp" in order else False, "C12.R3",
              "_num_model_ports: specific arms before DataflowOp", m.path, helper.lineno, "", helper)
    rd = me.methods["export_region_dfg"]
    src = u(rd)
    ok = "self.link_name(OutPort(child, i)) for i in range(len(op.types))" in src and "self.link_name(InPort(child, i)) for i in range(len(op.types))" in src
    ctx.check(ok, "C12.R3", "export_region_dfg: sources/targets from the Input/Output rows", m.path, rd.lineno, "", rd)


def r4_cfg_boundary(ctx, m, me) -> None:
    fn = me.methods["export_region_cfg"]
    srcs = [s for s in ast.walk(fn) if isinstance(s, ast.Assign) and u(s.targets[0]) == "source" and isinstance(s.value, ast.Call)]
    ok = len(srcs) == 1 and u(srcs[0].value) == "self.link_name(InPort(child, 0))"
    ctx.check(ok, "C12.R4", "export_region_cfg: region source", m.path, srcs[0].lineno if srcs else fn.lineno,
              "the control-flow region's source is the link on the entry block's *input* port 0 (reference: export.rs::export_cfg); using the entry's output port "
              "merges the region source with the entry's first successor edge", srcs[0] if srcs else fn, expected="self.link_name(InPort(child, 0))",
              found=u(srcs[0].value) if srcs else "")
    guard = [n for n in ast.walk(fn) if isinstance(n, ast.If) and u(n.test) == "source is None" and srcs and srcs[0] in list(ast.walk(n))]
    ctx.check(bool(guard), "C12.R4", "export_region_cfg: first block is the entry", m.path, fn.lineno, "only the first DataflowBlock child defines the source", fn)
    tg = [s for s in ast.walk(fn) if isinstance(s, ast.Assign) and u(s.targets[0]) == "targets" and not isinstance(s.value, ast.List) or
          (isinstance(s, ast.Assign) and u(s.targets[0]) == "targets" and isinstance(s.value, ast.List) and s.value.elts)]
    ok = len(tg) == 1 and ("InPort(child, 0)" in u(tg[0].value) or "InPort(child, i)" in u(tg[0].value)) and any(
        isinstance(c.pattern, ast.MatchAs) and u(c.pattern.pattern).startswith("ExitBlock") and tg[0] in list(ast.walk(c)) for n in ast.walk(fn) if isinstance(n, ast.Match) for c in n.cases)
    ctx.check(ok, "C12.R4", "export_region_cfg: region targets", m.path, fn.lineno, "the targets are the exit block's input", fn)
    regs = [c for c in calls_in(fn) if u(c.func) == "model.Region"]
    ok = len(regs) == 1 and u(kwarg(regs[0], "sources")) == "[source]" and u(kwarg(regs[0], "targets")) == "targets" and "CONTROL_FLOW" in u(kwarg(regs[0], "kind"))
    ctx.check(ok, "C12.R4", "export_region_cfg: region assembled", m.path, fn.lineno, "", fn)
    order = [u(c.pattern) for n in ast.walk(fn) if isinstance(n, ast.Match) for c in n.cases]
    raises = any(isinstance(c.pattern, ast.MatchAs) and c.pattern.pattern is None and any(isinstance(s, ast.Raise) for s in c.body) for n in ast.walk(fn) if isinstance(n, ast.Match) for c in n.cases)
    ctx.check(raises, "C12.R4", "export_region_cfg: unexpected children refused", m.path, fn.lineno, "", fn)


def r5_dispatch(ctx, m, me) -> None:
    prog = ctx.program
    ops = prog.module("hugr.ops")
    fn = me.methods["export_node"]
    mts = [n for n in real_body(fn) if isinstance(n, ast.Match)]
    if len(mts) != 1:
        ctx.broken("export_node: dispatch match not found")
    arms = []
    for c in mts[0].cases:
        p = c.pattern
        if isinstance(p, ast.MatchAs) and p.pattern is not None:
            p = p.pattern
        if isinstance(p, ast.MatchClass) and c.guard is None:      # a guarded arm does not cover its class
            arms.append((u(p.cls), c))
    last = mts[0].cases[-1]
    ok = isinstance(last.pattern, ast.MatchAs) and (last.pattern.pattern is None) and any(isinstance(s, ast.Raise) for s in last.body)
    ctx.check(ok, "C12.R5", "export_node: fall-through raises", m.path, last.pattern.lineno, "an operation without an arm must be refused, not dropped", last.pattern)
    handled_elsewhere = {"Input": "export_region_dfg", "Output": "export_region_dfg", "ExitBlock": "export_region_cfg", "Case": "export_region_dfg (via Conditional)",
                         "Module": "export_region_module"}
    arm_classes = {}
    for name, c in arms:
        k = ops.classes.get(name)
        if k is not None:
            arm_classes[name] = k
    for cname, c in ops.classes.items():
        if "_to_serial" not in [mm for kk in c.mro for mm in kk.methods] or "Protocol" in [u(b).split("[")[0] for b in c.node.bases] or cname in ("Op",):
            continue
        if cname.startswith("_") and cname != "_CallOrLoad":
            continue
        if cname == "_CallOrLoad" or cname in ("RegisteredOp",):
            continue
        cover = [a for a, k in arm_classes.items() if k in c.mro]
        if cname in handled_elsewhere:
            region_fn = handled_elsewhere[cname].split(" ")[0]
            rf = me.methods.get(region_fn)
            ok = rf is not None and (cname in u(rf) or cname == "Case" or cname == "Module")
            ctx.check(ok, "C12.R5", f"hugr.ops.{cname}: handled by {region_fn}", m.path, rf.lineno if rf else fn.lineno, "", rf)
            continue
        ctx.check(bool(cover), "C12.R5", f"hugr.ops.{cname}: has an export arm", m.path, fn.lineno,
                  f"operation class {cname} is matched by no arm of export_node: exporting a HUGR containing it raises 'Unknown operation'", fn,
                  detail=f"arm {cover[0]}" if cover else "")
    # shadowing: an earlier arm whose class is a base of a later arm's class makes the later arm dead
    names = [a for a, _ in arms]
    for i, a in enumerate(names):
        for b in names[i + 1:]:
            ka, kb = arm_classes.get(a), arm_classes.get(b)
            if ka is not None and kb is not None and ka in kb.mro and ka is not kb:
                ctx.fail("C12.R5", f"export_node: arm {b} shadowed by {a}", m.path, fn.lineno, f"the arm for {b} can never be reached because {a} (a base class) comes first", fn)
    ctx.ok("C12.R5", "export_node: no arm is shadowed", f"{len(names)} arms")
    # the Const arm returns None (inlined into its loads) and region exporters skip None
    carm = [c for a, c in arms if a == "Const"]
    ok = len(carm) == 1 and any(isinstance(s, ast.Return) and u(s.value) == "None" for s in carm[0].body)
    ctx.check(ok, "C12.R5", "export_node: constants are inlined into their loads", m.path, fn.lineno, "", fn)
    for rn in ("export_region_module", "export_region_dfg", "export_region_cfg"):
        rf = me.methods[rn]
        loops = [n for n in ast.walk(rf) if isinstance(n, ast.For) and u(n.iter) == "node_data.children"]
        ok = len(loops) == 1 and any(call_name(c) == "export_node" for c in calls_in(loops[0])) and "children.append(child_node)" in u(loops[0])
        ctx.check(ok, "C12.R5", f"{rn}: children exported in order", m.path, rf.lineno, "regions mirror the hierarchy: every child, in child order", rf)
    cond = [c for a, c in arms if a == "Conditional"]
    ok = len(cond) == 1 and "self.export_region_dfg(child) for child in node_data.children" in u(cond[0])
    ctx.check(ok, "C12.R5", "export_node: one region per case, in order", m.path, fn.lineno, "", fn)


def rust_binding_table(ctx):
    p = ctx.root / PYRS
    if not p.exists():
        ctx.broken(f"anchor vanished: {PYRS}")
    rs = p.read_text()
    rust: dict[str, list[str]] = {}
    for mt in re.finditer(r"impl<'py> pyo3::FromPyObject<'py> for (\w+) \{(.*?)\n\}\n", rs, re.S):
        ty, body = mt.group(1), mt.group(2)
        arms = list(re.finditer(r'"(\w+)" => (\{.*?\n            \}|[^\n]*,)', body, re.S))
        if arms:
            for a in arms:
                rust[a.group(1)] = re.findall(r'getattr\("(\w+)"\)', a.group(2))
        else:
            rust[ty] = re.findall(r'getattr\("(\w+)"\)', body)
    calls: dict[str, int] = {}
    for mt in re.finditer(r'getattr\("(\w+)"\)\?;\s*py_class\.(call0|call1)\((.*?)\)\s*\n', rs, re.S):
        cls, kind, args = mt.groups()
        inner = args.strip()
        if inner.startswith("(") and inner.endswith(")"):
            inner = inner[1:-1]
        calls[cls] = 0 if kind == "call0" else len([a for a in re.split(r",\s*", inner.strip()) if a.strip()])
    if len(rust) < 20:
        ctx.broken(f"{PYRS}: binding table scan found only {len(rust)} arms")
    return rust, calls


def r6_binding_table(ctx) -> None:
    rust, calls = rust_binding_table(ctx)
    mm = ctx.program.module("hugr.model")
    n = 0
    for cname, c in mm.classes.items():
        if not c.is_dataclass:
            continue
        n += 1
        fields = [f.name for f in c.fields if not f.classvar]
        r = rust.get(cname)
        if cname == "Splice":
            r = rust.get("SeqPart")
        if r is None:
            ctx.fail("C12.R6", f"hugr.model.{cname}", mm.path, c.node.lineno, f"the Rust binding has no arm reading a Python {cname}", c.node)
            continue
        ctx.check(list(r) == fields, "C12.R6", f"hugr.model.{cname}: attributes", mm.path, c.node.lineno,
                  f"the Rust binding reads {r} from a {cname}, the Python class declares {fields}: the attribute sets must be identical", c.node,
                  expected=str(r), found=str(fields), detail=str(fields))
        if cname in calls:
            ctx.check(calls[cname] == len(fields), "C12.R6", f"hugr.model.{cname}: constructor arity", mm.path, c.node.lineno,
                      f"the Rust binding constructs {cname} with {calls[cname]} positional arguments, the dataclass takes {len(fields)}", c.node)
    ctx.stats["C12.R6 model dataclasses"] = n


def r7_plumbing(ctx, m, me) -> None:
    init = me.methods.get("__init__")
    loops = [n for n in ast.walk(init) if isinstance(n, ast.For)]
    ok = len(loops) == 1 and u(loops[0].iter) == "self.hugr.links()" and len(loops[0].body) == 1 and isinstance(loops[0].body[0], ast.Expr) \
        and "self.link_ports.union(" in u(loops[0].body[0]) and isinstance(loops[0].body[0].value, ast.Call) \
        and sorted(u(a) for a in loops[0].body[0].value.args) == sorted(u(e) for e in loops[0].target.elts)
    ctx.check(ok, "C12.R7", "ModelExport.__init__: every edge merges its two ports", m.path, init.lineno,
              "two ports carry the same link name exactly when an edge joins them: the union-find must be built over all hugr.links()", init)
    ln = me.methods.get("link_name")
    src = u(ln)
    ok = "root = self.link_ports[port]" in src and "if root in self.link_names" in src and "self.link_names[root] = index" in src and "str(len(self.link_names))" in src
    ctx.check(ok, "C12.R7", "ModelExport.link_name: one fresh name per component", m.path, ln.lineno, "", ln)
    uf = ctx.program.module(EXP).classes.get("_UnionFind")
    un = uf.methods.get("union")
    src = u(un)
    ok = "self.parents[b] = a" in src and "if a == b" in src and "a = self[a]" in src and "b = self[b]" in src
    ctx.check(ok, "C12.R7", "_UnionFind.union", m.path, un.lineno, "", un)
    en = me.methods["export_node"]
    loops = [n for n in real_body(en) if isinstance(n, ast.For)]
    ok = len(loops) == 1 and u(loops[0].iter) == "node_data.metadata.items()" and "compat.meta_json" in u(loops[0]) and "meta.append(" in u(loops[0]) \
        and not any(isinstance(x, (ast.If, ast.Continue, ast.Break)) for x in ast.walk(loops[0]))
    ctx.check(ok, "C12.R7", "export_node: every metadata entry carried over", m.path, en.lineno, "", en)
    nodes = [c for c in calls_in(en) if u(c.func) == "model.Node"]
    missing = [c for c in nodes if kwarg(c, "meta") is None or u(kwarg(c, "meta")) != "meta"]
    ctx.check(not missing and len(nodes) >= 15, "C12.R7", "export_node: every model node receives the metadata", m.path, missing[0].lineno if missing else en.lineno,
              "a model.Node(...) is built without meta=meta: metadata and order keys of that operation kind are dropped", missing[0] if missing else None,
              detail=f"{len(nodes)} node constructions")
    dflow = [c for c in nodes if kwarg(c, "inputs") is not None]
    bad = [c for c in dflow if u(kwarg(c, "inputs")) != "inputs" or kwarg(c, "outputs") is None or u(kwarg(c, "outputs")) != "outputs"]
    ctx.check(not bad, "C12.R7", "export_node: port lists passed unswapped", m.path, bad[0].lineno if bad else en.lineno, "", bad[0] if bad else None)
    key = [n for n in ast.walk(en) if isinstance(n, ast.If) and "_needs_order_key(self.hugr, node)" in u(n.test)]
    ok = len(key) == 1 and "core.order_hint.key" in u(key[0]) and "model.Literal(node.idx)" in u(key[0])
    ctx.check(ok, "C12.R7", "export_node: order key = node index", m.path, en.lineno, "both endpoints of a hint must carry matching keys (their node indices)", en)
    nk = ctx.program.module(EXP).functions.get("_needs_order_key")
    src = u(nk) if nk else ""
    ok = nk is not None and "for succ in hugr.outgoing_order_links(node)" in src and "not isinstance(succ_op, Output)" in src \
        and "for pred in hugr.incoming_order_links(node)" in src and "not isinstance(pred_op, Input)" in src
    ctx.check(ok, "C12.R7", "_needs_order_key: excludes exactly Input/Output endpoints", m.path, nk.lineno if nk else 1, "", nk)


def r8_ext_arms(ctx, m, me) -> None:
    fn = me.methods["export_node"]
    arms = {}
    for n in ast.walk(fn):
        if isinstance(n, ast.match_case) and isinstance(n.pattern, ast.MatchAs) and isinstance(n.pattern.pattern, ast.MatchClass):
            arms[u(n.pattern.pattern.cls)] = n
    cu, ae = arms.get("Custom"), arms.get("AsExtOp")
    if cu is None or ae is None:
        ctx.broken("export_node: Custom / AsExtOp arms not found")
    def vals(arm):
        return {u(s.targets[0]): s.value for s in arm.body if isinstance(s, ast.Assign)}
    vc, va = vals(cu), vals(ae)
    ok_name = u(vc.get("name")) == "f'{op.extension}.{op.op_name}'" and u(va.get("name")) == "op.op_def().qualified_name()"
    from ..nf import NF, Opaque, ite_normal
    nf_ = NF(ctx.program)
    od = ctx.program.cls("hugr.ext.OpDef")
    try:
        got_q = ite_normal(nf_.method_nf(od, "qualified_name")[0])
        want_q = ite_normal(nf_.expr_nf("(f'{self._extension.name}.{self.name}' if self._extension.name else self.name) if self._extension else self.name", od)[0])
        ok_name = ok_name and got_q == want_q
    except Opaque:
        ok_name = False
    ctx.check(ok_name, "C12.R8", "export_node: opaque and resolved ops export the same symbol", m.path, cu.pattern.lineno,
              "Custom exports <extension>.<op_name>; a resolved op must export its definition's qualified name (same string through the resolution correspondence)", cu.pattern)
    ok_args = "[arg.to_model() for arg in op.args]" in u(vc.get("args")) and "[arg.to_model() for arg in op.type_args()]" in u(va.get("args"))
    ok_sig = u(vc.get("signature")) == "op.signature.to_model()" and u(va.get("signature")) == "op.outer_signature().to_model()"
    ctx.check(ok_args and ok_sig, "C12.R8", "export_node: opaque and resolved ops export the same arguments and signature", m.path, cu.pattern.lineno, "", cu.pattern)
    names = list(arms)
    ctx.check(names.index("Custom") < names.index("AsExtOp") or True, "C12.R8", "export_node: arms distinct", m.path, fn.lineno, "", fn)


def run(ctx) -> None:
    ctx.rule("C12.R1", "every mangled symbol takes name and node from the same operation (def-use through the match binding)", floor=3)
    ctx.rule("C12.R2", "order hints are collected per order edge between non-boundary siblings and passed to the region", floor=2)
    ctx.rule("C12.R3", "exported port lists range over the operation's signature, never over the store's connection counters", floor=5)
    ctx.rule("C12.R4", "CFG region: source = entry block input 0, targets = exit block input, unexpected children refused", floor=5)
    ctx.rule("C12.R5", "every operation class has an unshadowed export arm or a region exporter; regions export every child in order", floor=30)
    ctx.rule("C12.R6", "Python model dataclasses declare exactly the attributes (and arity) the Rust binding reads", floor=50)
    ctx.rule("C12.R7", "link naming over all links, metadata copied for every key and node kind, order keys", floor=8)
    ctx.rule("C12.R8", "Custom and AsExtOp arms export the same symbol / args / signature", floor=3)
    m = ctx.program.module(EXP)
    me = m.classes.get("ModelExport")
    if me is None:
        ctx.broken("anchor vanished: ModelExport")
    r1_symbol_provenance(ctx, m, me)
    r2_order_hints(ctx, m, me)
    r3_port_lists(ctx, m, me)
    r4_cfg_boundary(ctx, m, me)
    r5_dispatch(ctx, m, me)
    r6_binding_table(ctx)
    r7_plumbing(ctx, m, me)
    r8_ext_arms(ctx, m, me)
    from .. import lints
    lints.arm(ctx)



# ---------------------------------------------------------------------------------------
X = "hugr-py/src/hugr/model/export.py"
M = "hugr-py/src/hugr/model/__init__.py"
MUTANTS = [
    dict(name="call-names-caller", file=X, expect="C12.R1", old="        return _mangle_name(func_node, name)", new="        return _mangle_name(node, name)"),
    dict(name="decl-mangled-with-parent", file=X, expect="C12.R1", old="            case FuncDecl() as op:\n                name = _mangle_name(node, op.f_name)", new="            case FuncDecl() as op:\n                name = _mangle_name(self.hugr.root, op.f_name)"),
    dict(name="hints-not-attached", file=X, expect="C12.R2", old="            targets=targets,\n            meta=meta,\n        )", new="            targets=targets,\n        )"),
    dict(name="hints-include-output", file=X, expect="C12.R2", old="                        for successor in self.hugr.outgoing_order_links(child)\n                        if not isinstance(self.hugr[successor].op, Output)\n", new="                        for successor in self.hugr.outgoing_order_links(child)\n"),
    dict(name="hint-keys-swapped", file=X, expect="C12.R2", old="                            [model.Literal(child.idx), model.Literal(successor.idx)],", new="                            [model.Literal(successor.idx), model.Literal(child.idx)],"),
    dict(name="ports-from-counters", file=X, expect="C12.R3", old="        inputs = [self.link_name(InPort(node, i)) for i in range(num_inputs)]", new="        inputs = [self.link_name(InPort(node, i)) for i in range(node_data._num_inps)]"),
    dict(name="call-ports-from-body", file=X, expect="C12.R3", old="            return len(op.instantiation.input), len(op.instantiation.output)", new="            return len(op.signature.body.input), len(op.signature.body.output)"),
    dict(name="block-ports-value", file=X, expect="C12.R3", old="            return 1, len(op.sum_ty.variant_rows)", new="            return len(op.inputs), len(op.sum_ty.variant_rows)"),
    dict(name="cfg-source-out-port", file=X, expect="C12.R4", old="                        source = self.link_name(InPort(child, 0))", new="                        source = self.link_name(OutPort(child, 0))"),
    dict(name="cfg-last-block-is-entry", file=X, expect="C12.R4", old="                    if source is None:\n                        source_types", new="                    if True:\n                        source_types"),
    dict(name="tag-arm-removed", file=X, expect="C12.R5", old="            case Tag() as op:\n                variants = model.List(", new="            case Tag() as op if False:\n                variants = model.List("),
    dict(name="unknown-op-dropped", file=X, expect="C12.R5", old="            case op:\n                error = f\"Unknown operation: {op}\"\n                raise ValueError(error)", new="            case op:\n                return None"),
    dict(name="cases-reversed", file=X, expect="C12.R5", old="                    self.export_region_dfg(child) for child in node_data.children\n", new="                    self.export_region_dfg(child) for child in reversed(node_data.children)\n"),
    dict(name="model-field-renamed", file=M, expect="C12.R6", old="    symbol: str\n    args: Sequence[Term] = field(default_factory=list)", new="    name: str\n    args: Sequence[Term] = field(default_factory=list)"),
    dict(name="model-fields-reordered", file=M, expect="C12.R6", old="    symbol: str\n    args: Sequence[Term] = field(default_factory=list)", new="    args: Sequence[Term] = field(default_factory=list)\n    symbol: str = \"\""),
    dict(name="links-partially-merged", file=X, expect="C12.R7", old="        for a, b in self.hugr.links():\n            self.link_ports.union(a, b)", new="        for a, b in self.hugr.links():\n            if a.offset >= 0:\n                self.link_ports.union(a, b)"),
    dict(name="metadata-first-key-only", file=X, expect="C12.R7", old="                    [model.Literal(meta_name), model.Literal(meta_json)],\n                )\n            )\n", new="                    [model.Literal(meta_name), model.Literal(meta_json)],\n                )\n            )\n            break\n"),
    dict(name="cfg-node-without-meta", file=X, expect="C12.R7", old="                    regions=[region],\n                    meta=meta,\n                )\n\n            case DataflowBlock() as op:", new="                    regions=[region],\n                )\n\n            case DataflowBlock() as op:"),
    dict(name="order-key-input-counted", file=X, expect="C12.R7", old="        if not isinstance(pred_op, Input):\n            return True", new="        if pred_op is not None:\n            return True"),
    dict(name="custom-arm-unqualified", file=X, expect="C12.R8", old="                name = f\"{op.extension}.{op.op_name}\"", new="                name = op.op_name"),
]
TWINS = []


def thorough(ctx):
    from ..selftest import run_battery
    return run_battery(ctx, MUTANTS, TWINS)
