"""C07 -- a type is reported copyable only if all of its constituents are.

R1 exhaustiveness of type_bound; R2 bound table (normal forms); R3 TypeBound.join is the least upper bound
(finite-domain abstract interpretation over {Copyable, Any}); R4 written bound = computed bound;
R5 std collections agree with their JSON type definitions.
"""
from __future__ import annotations

import ast
import json

from ..model import calls_in, call_name, is_stub, real_body, u
from ..nf import NF, Opaque, attr, const, ctor_args, find_calls, show, sym
from ..cfg import CFG, EXIT, RAISE

TYS = "hugr.tys"

BOUND_TABLE = {
    "FunctionType": "TypeBound.Copyable",
    "PolyFuncType": "TypeBound.Copyable",
    "USize": "TypeBound.Copyable",
    "_QubitDef": "TypeBound.Any",
    "Variable": "self.bound",
    "RowVariable": "self.bound",
    "Alias": "self.bound",
    "Opaque": "self.bound",
    "Sum": "TypeBound.join(*(t.type_bound() for r in self.variant_rows for t in r))",
}


def type_classes(prog):
    base = prog.cls(f"{TYS}.Type")
    return [c for c in prog.all_classes() if c is not base and base in c.mro]


def r1_exhaustive(ctx) -> None:
    for c in type_classes(ctx.program):
        k, m = c.find_method("type_bound")
        ok = m is not None and not is_stub(m)
        ctx.check(ok, "C07.R1", f"{c.qualname}.type_bound", c.module.path, c.node.lineno,
                  f"type class {c.name} does not define type_bound (the protocol stub would return None)", c.node,
                  detail=f"defined in {k.name}" if k else "")


def r2_table(ctx, nf) -> None:
    """stated over the path summaries of the canonical bodies (hv/canon.py, hv/paths.py): each returning path's value, with
    locals substituted and idioms normalised, is compared as a normal form with the table entry"""
    mod = ctx.program.module(TYS)
    for cname, expr in BOUND_TABLE.items():
        c = mod.classes.get(cname)
        if c is None:
            ctx.broken(f"anchor vanished: hugr.tys.{cname}")
        k, m = c.find_method("type_bound")
        try:
            want, _ = nf.expr_nf(expr, c)
            alts = []
            for p in ctx.paths(f"{k.qualname}.type_bound"):
                if p.kind == "return":
                    alts.append((p.describe(), nf.expr_nf(p.value_text() or "None", c)[0]))
                elif p.kind != "raise":
                    alts.append((p.describe(), const(None)))
        except Opaque as e:
            ctx.broken(f"hugr.tys.{cname}.type_bound not normalisable: {e}")
        bad = [(gd, t) for gd, t in alts if t != want]
        ctx.check(bool(alts) and not bad, "C07.R2", f"hugr.tys.{cname}.type_bound", k.module.path, m.lineno,
                  f"the bound of {cname} must be {expr}" + (f"; on the path {bad[0][0][:120]} it is {show(bad[0][1])}" if bad else ""), m,
                  expected=show(want), found=show(bad[0][1]) if bad else "", detail=show(want))
    # sugar sums inherit Sum.type_bound (checked as an override rule under C05.R4 too)
    sum_cls = mod.classes["Sum"]
    for c in ctx.program.subclasses(sum_cls):
        ctx.check("type_bound" not in c.methods, "C07.R2", f"{c.qualname}: inherits Sum.type_bound", c.module.path, c.node.lineno,
                  f"{c.name} must take the join of its element bounds like any sum", c.methods.get("type_bound"))
    # ExtType: explicit bound or join over the named type arguments
    c = mod.classes["ExtType"]
    m = c.methods.get("type_bound")
    if m is None:
        ctx.broken("anchor vanished: hugr.tys.ExtType.type_bound")
    s = sym("self")
    bound = attr(attr(s, "type_def"), "bound")
    arms = {}
    stray = ""
    for p in ctx.paths("hugr.tys.ExtType.type_bound"):
        taken = [u(t.args[1]).split(".")[-1] for t, k_ in p.tests if k_ and isinstance(t, ast.Call) and u(t.func) == "isinstance"
                 and len(t.args) == 2 and u(t.args[0]) == "self.type_def.bound"]
        if p.kind == "return" and taken:
            try:
                arms[taken[-1]] = nf.expr_nf(p.value_text() or "None", c)[0]
            except Opaque as e:
                ctx.broken(f"hugr.tys.ExtType.type_bound not normalisable: {e}")
        elif p.kind == "return" and p.value_text() not in ("", "None"):
            stray = p.describe()
    exp_explicit = attr(bound, "bound")
    want_params, _ = nf.expr_nf(
        "TypeBound.join(*[self.args[i].ty.type_bound() for i in self.type_def.bound.indices if isinstance(self.args[i], TypeTypeArg)])", c)
    ok_e = arms.get("ExplicitBound") == exp_explicit and not stray
    ctx.check(ok_e, "C07.R2", "hugr.tys.ExtType.type_bound: explicit", c.module.path, m.lineno,
              "for a definition with an explicit bound the type reports exactly that bound" + (f" [a path outside the two kinds of definition answers: {stray[:160]}]" if stray else ""), m,
              expected=show(exp_explicit), found=show(arms["ExplicitBound"]) if "ExplicitBound" in arms else "<no arm>")
    got_p = arms.get("FromParamsBound")
    ctx.check(got_p == want_params, "C07.R2", "hugr.tys.ExtType.type_bound: from parameters", c.module.path, m.lineno,
              "for a from-parameters definition the bound is the join of the bounds of the type arguments at exactly the named indices", m,
              expected=show(want_params), found=show(got_p) if got_p else "<no arm>", detail=show(got_p)[:200] if got_p else "")


# ---- engine F: finite-domain abstract interpretation over {C, A} --------------------------
C_, A_ = "C", "A"


def _lit(e) -> str | None:
    s = u(e)
    if s.endswith("TypeBound.Copyable") or s == "Copyable":
        return C_
    if s.endswith("TypeBound.Any") or s == "Any":
        return A_
    return None


class Absint:
    """abstract execution of a straight/branching block; env: name -> frozenset of {C, A}.
    Returns set of outcomes: ('return', value-set) / ('fall', env)"""

    def __init__(self):
        self.unknown = False

    def ev(self, e, env) -> frozenset:
        l = _lit(e)
        if l:
            return frozenset([l])
        if isinstance(e, ast.Name) and e.id in env:
            return env[e.id]
        if isinstance(e, ast.IfExp):
            out = set()
            for val, env2 in self.split(e.test, env):
                out |= self.ev(e.body if val else e.orelse, env2)
            return frozenset(out)
        self.unknown = True
        return frozenset([C_, A_])

    def split(self, test, env):
        """yield (truth value, refined env) for every feasible outcome of the test"""
        if isinstance(test, ast.Compare) and len(test.ops) == 1 and isinstance(test.ops[0], (ast.Eq, ast.Is, ast.NotEq, ast.IsNot)):
            l, r = test.left, test.comparators[0]
            neg = isinstance(test.ops[0], (ast.NotEq, ast.IsNot))
            name, lit = None, None
            if isinstance(l, ast.Name) and _lit(r):
                name, lit = l.id, _lit(r)
            elif isinstance(r, ast.Name) and _lit(l):
                name, lit = r.id, _lit(l)
            if name is not None and name in env:
                vs = env[name]
                if lit in vs:
                    e2 = dict(env)
                    e2[name] = frozenset([lit])
                    yield (not neg), e2
                rest = vs - {lit}
                if rest:
                    e2 = dict(env)
                    e2[name] = frozenset(rest)
                    yield neg, e2
                return
        if isinstance(test, ast.UnaryOp) and isinstance(test.op, ast.Not):
            for v, e2 in self.split(test.operand, env):
                yield (not v), e2
            return
        self.unknown = True
        yield True, dict(env)
        yield False, dict(env)

    def block(self, stmts, env):
        """-> list of ('return', valueset) | ('fall', env)"""
        states = [dict(env)]
        outs = []
        for s in stmts:
            nxt = []
            for st in states:
                if isinstance(s, ast.Return):
                    outs.append(("return", self.ev(s.value, st)))
                elif isinstance(s, ast.Assign) and len(s.targets) == 1 and isinstance(s.targets[0], ast.Name):
                    st2 = dict(st)
                    st2[s.targets[0].id] = self.ev(s.value, st)
                    nxt.append(st2)
                elif isinstance(s, ast.If):
                    for val, st2 in self.split(s.test, st):
                        for o in self.block(s.body if val else s.orelse, st2):
                            if o[0] in ("return", "break", "continue"):
                                outs.append(o)
                            else:
                                nxt.append(o[1])
                elif isinstance(s, (ast.Break, ast.Continue)):
                    outs.append(("break" if isinstance(s, ast.Break) else "continue", st))
                elif isinstance(s, (ast.Expr, ast.Pass)):
                    nxt.append(st)
                else:
                    self.unknown = True
                    nxt.append(st)
            states = nxt
        return outs + [("fall", st) for st in states]


def r3_join(ctx) -> None:
    tb = ctx.program.cls("hugr._serialization.tys.TypeBound")
    file = tb.module.path
    m = tb.methods.get("join")
    if m is None:
        ctx.broken("anchor vanished: TypeBound.join")
    members = {k: ast.literal_eval(v) for k, v in tb.class_assigns.items() if isinstance(v, ast.Constant)}
    ctx.check(set(members) == {"Copyable", "Any"}, "C07.R3", "TypeBound members", file, tb.node.lineno,
              "the bound lattice analysed here is {Copyable < Any}", tb.node, found=str(members))
    # canonical body: a fold written with reduce(step, bs, init) is the loop `acc = init; for b in bs: acc = step(acc, b)`, helpers seen through
    body = ctx.cfn("hugr._serialization.tys.TypeBound.join", subst=False).body
    var = m.args.vararg.arg if m.args.vararg else None
    if var is None:
        ctx.broken("TypeBound.join: expected a *bs parameter")
    # locals that only name a member of the lattice (`linear = TypeBound.Any`, bound once) are that member
    from .. import norm as _norm
    import copy as _copy
    stores = {}
    for n in ast.walk(ast.Module(body=list(body), type_ignores=[])):
        if isinstance(n, ast.Name) and isinstance(n.ctx, (ast.Store, ast.Del)):
            stores[n.id] = stores.get(n.id, 0) + 1
    names = {s_.targets[0].id: s_.value for s_ in body if isinstance(s_, ast.Assign) and len(s_.targets) == 1 and isinstance(s_.targets[0], ast.Name)
             and stores.get(s_.targets[0].id) == 1 and u(s_.value) in ("TypeBound.Copyable", "TypeBound.Any")}
    if names:
        body = [ast.fix_missing_locations(_norm._Subst(dict(names)).visit(_copy.deepcopy(s_))) for s_ in body
                if not (isinstance(s_, ast.Assign) and len(s_.targets) == 1 and isinstance(s_.targets[0], ast.Name) and s_.targets[0].id in names)]
    # fast paths on the NUMBER of arguments before the fold (`if not bs: return Copyable`, `if len(bs) <= 1: return ..`): judged per length
    # class 0 / 1 / 2+ -- a constant answer is right for no argument only (Copyable); for one argument the answer is that argument
    def len_test(t, n):
        """truth of a test about len(bs) / bs for n arguments; None when it is about something else"""
        if isinstance(t, ast.UnaryOp) and isinstance(t.op, ast.Not):
            r = len_test(t.operand, n)
            return None if r is None else not r
        if isinstance(t, ast.Name) and t.id == var:
            return n > 0
        if isinstance(t, ast.Compare) and len(t.ops) == 1 and u(t.left) == f"len({var})" and isinstance(t.comparators[0], ast.Constant) and type(t.comparators[0].value) is int:
            k_, op = t.comparators[0].value, t.ops[0]
            return {ast.Eq: n == k_, ast.NotEq: n != k_, ast.Lt: n < k_, ast.LtE: n <= k_, ast.Gt: n > k_, ast.GtE: n >= k_}.get(type(op))
        return None
    kept = []
    work_ = list(body)
    while work_:
        st = work_.pop(0)
        if isinstance(st, ast.If) and len(st.body) == 1 and isinstance(st.body[0], ast.Return) and len_test(st.test, 0) is not None:
            work_ = list(st.orelse) + work_          # (what follows the shortcut, written as its else-part by the canonical form or not)
            rv = st.body[0].value
            for n_, label in ((0, "no argument"), (1, "one argument"), (2, "two or more arguments")):
                if not len_test(st.test, n_):
                    continue
                lit = _lit(rv) if rv is not None else None
                good = (n_ == 0 and lit == C_) or (n_ == 1 and rv is not None and u(rv) in (f"{var}[0]", f"{var}[-1]"))
                ctx.check(good, "C07.R3", f"TypeBound.join: fast path for {label}", file, st.lineno,
                          f"the shortcut `{u(st.test)}` answers `{u(rv) if rv is not None else None}` for {label}: the join of no bounds is Copyable, the join of one "
                          "bound is that bound, and no constant is the join of two or more", st)
            continue
        kept.append(st)
    body = kept
    # shape: init*, for b in bs: BODY, return res
    loops = [s for s in body if isinstance(s, ast.For)]
    if len(loops) != 1 or not isinstance(loops[0].target, ast.Name) or u(loops[0].iter) != var or loops[0].orelse:
        ctx.broken("TypeBound.join: outside the analysed shape (init; for b in bs: ...; return acc)")
    loop = loops[0]
    i = body.index(loop)
    ai = Absint()
    pre = ai.block(body[:i], {})
    if len(pre) != 1 or pre[0][0] != "fall":
        ctx.broken("TypeBound.join: initialisation outside the analysed shape")
    init_env = pre[0][1]
    bvar = loop.target.id
    ok_init = all(v == frozenset([C_]) for v in init_env.values()) and bool(init_env)
    ctx.check(ok_init, "C07.R3", "TypeBound.join: empty join", file, m.lineno,
              "the accumulator must start at Copyable: the join of no bounds (an empty sum) is Copyable", m,
              found=str({k: sorted(v) for k, v in init_env.items()}), detail="accumulator starts at Copyable")
    # the loop as a finite automaton over the input alphabet {Copyable, Any}: states are the (concrete) values of the locals, paired
    # with "an Any has been read".  Every way of stopping (return, break + what follows, end of input + what follows) must answer
    # Any exactly when an Any has been read.  Exhaustive over the reachable states: any loop shape the interpreter can follow.
    post_stmts = body[i + 1:]

    def finish(env):
        outs = ai.block(post_stmts, env)
        return outs[0][1] if len(outs) == 1 and outs[0][0] == "return" and len(outs[0][1]) == 1 else None

    def key(env):
        return tuple(sorted((k, tuple(sorted(v))) for k, v in env.items() if k != bvar))
    start = {k: v for k, v in init_env.items()}
    if not all(len(v) == 1 for v in start.values()):
        ctx.broken("TypeBound.join: initialisation is not a constant")
    seen = set()
    work = [(start, False)]
    wrong = {A_: "", C_: ""}
    while work:
        env, seen_any = work.pop()
        kk = (key(env), seen_any)
        if kk in seen:
            continue
        seen.add(kk)
        want = frozenset([A_ if seen_any else C_])
        r = finish(env)             # the input ends here
        if r != want:
            wrong[A_ if seen_any else C_] = f"input ends in state {dict(key(env))}: answers {sorted(r) if r else '?'}"
        for sym_ in (C_, A_):
            sa = seen_any or sym_ == A_
            want2 = frozenset([A_ if sa else C_])
            for o in ai.block(loop.body, {**env, bvar: frozenset([sym_])}):
                if o[0] == "return":
                    if o[1] != want2:
                        wrong[A_ if sa else C_] = f"reading {sym_} in state {dict(key(env))} returns {sorted(o[1])}"
                elif o[0] == "break":
                    r = finish(o[1])
                    if r != want2:
                        wrong[A_ if sa else C_] = f"reading {sym_} in state {dict(key(env))} leaves the loop and answers {sorted(r) if r else '?'}"
                else:
                    if not all(len(v) == 1 for v in o[1].values()):
                        ai.unknown = True
                        continue
                    work.append(({k: v for k, v in o[1].items() if k != bvar}, sa))
    ctx.check(not wrong[A_], "C07.R3", "TypeBound.join: Any is absorbing", file, loop.lineno,
              "as soon as one argument is Any the join must be Any, whatever follows" + (f" [{wrong[A_]}]" if wrong[A_] else ""), loop,
              detail=f"{len(seen)} reachable (state, seen-Any) pairs explored")
    ctx.check(not wrong[C_], "C07.R3", "TypeBound.join: Copyable is neutral", file, loop.lineno,
              "when every argument is Copyable (or there is none) the join is Copyable: Copyable arguments must neither change the answer nor "
              "end the loop with another one" + (f" [{wrong[C_]}]" if wrong[C_] else ""), loop, detail="all-Copyable inputs answer Copyable")
    ctx.ok("C07.R3", "TypeBound.join: all-Copyable result", "covered by the automaton exploration")
    if ai.unknown:
        ctx.broken("TypeBound.join contains constructs outside the finite-domain interpreter")
    decos = [u(d) for d in m.decorator_list]
    ctx.check("staticmethod" in decos, "C07.R3", "TypeBound.join: staticmethod", file, m.lineno, "join is called as TypeBound.join(*bounds)", m)


def r4_written_bound(ctx, nf) -> None:
    c = ctx.program.cls(f"{TYS}.ExtType")
    m = c.methods.get("_to_opaque")
    t, _ = nf.method_nf(c, "_to_opaque")
    s = sym("self")
    a = ctor_args(t) if t[0] == "ctor" else {}
    # (type_bound is seen through when its body is evaluable: the expectation is computed the same way)
    want_b = nf.expr_nf("self.type_bound()", c)[0]
    ok = a.get("bound") == want_b
    ctx.check(ok, "C07.R4", "hugr.tys.ExtType._to_opaque: bound", c.module.path, m.lineno,
              "the bound written into the opaque form must be the computed self.type_bound()", m, expected="self.type_bound()", found=show(a.get("bound")) if a else show(t))
    ok2 = a.get("args") == attr(s, "args") and a.get("id") == attr(attr(s, "type_def"), "name") and a.get("extension") == attr(attr(attr(s, "type_def"), "_extension"), "name")
    ctx.check(ok2, "C07.R4", "hugr.tys.ExtType._to_opaque: identity", c.module.path, m.lineno,
              "the opaque form names the definition's extension and type id and carries the arguments", m, found=show(t)[:300])
    k, ser = c.find_method("_to_serial")
    t2, _ = nf.method_nf(c, "_to_serial")
    ctx.check(t2[0] == "ctor" and t2[1].endswith("Opaque") and ctor_args(t2).get("bound") == want_b, "C07.R4",
              "hugr.tys.ExtType._to_serial", c.module.path, ser.lineno, "ExtType must serialize through its opaque form", ser, found=show(t2)[:200])


def r5_collections(ctx, nf) -> None:
    prog = ctx.program
    for mn, cname, jfile in (("hugr.std.collections.array", "Array", "collections/array.json"),
                             ("hugr.std.collections.list", "List", "collections/list.json"),
                             ("hugr.std.collections.static_array", "StaticArray", "collections/static_array.json")):
        mod = prog.module(mn)
        c = mod.classes.get(cname)
        if c is None:
            ctx.broken(f"anchor vanished: {mn}.{cname}")
        jp = ctx.pkg / "std" / "_json_defs" / jfile
        if not jp.exists():
            ctx.broken(f"anchor vanished: {jp}")
        jd = json.loads(jp.read_text())
        init = c.methods.get("__init__")
        if init is None:
            ctx.broken(f"{cname}.__init__ missing")
        # which definition
        tdef = [n for n in ast.walk(init) if isinstance(n, ast.Assign) and u(n.targets[0]) == "self.type_def"]
        key = None
        if tdef and isinstance(tdef[0].value, ast.Subscript) and isinstance(tdef[0].value.slice, ast.Constant):
            key = tdef[0].value.slice.value
        if key not in jd["types"]:
            ctx.fail("C07.R5", f"{c.qualname}: definition", mod.path, init.lineno, f"{cname} does not name a type of {jfile}", init)
            continue
        td = jd["types"][key]
        args_assign = [n for n in ast.walk(init) if isinstance(n, ast.Assign) and u(n.targets[0]) == "self.args"]
        if not args_assign or not isinstance(args_assign[0].value, ast.List):
            ctx.broken(f"{cname}.__init__: self.args = [...] not found")
        elts = args_assign[0].value.elts
        ctx.check(len(elts) == len(td["params"]), "C07.R5", f"{c.qualname}: arity", mod.path, args_assign[0].lineno,
                  f"{cname} passes {len(elts)} type arguments, its definition has {len(td['params'])} parameters", args_assign[0])
        # position of the element type among the args
        def is_type_arg(e):
            e2 = e
            if isinstance(e, ast.Name):
                for n in ast.walk(init):
                    if isinstance(n, ast.Assign) and isinstance(n.targets[0], ast.Name) and n.targets[0].id == e.id:
                        e2 = n.value
            return isinstance(e2, ast.Call) and u(e2.func).endswith("TypeTypeArg")
        pos = [i for i, e in enumerate(elts) if is_type_arg(e)]
        tparams = [i for i, p_ in enumerate(td["params"]) if p_["tp"] == "Type"]
        ctx.check(pos == tparams, "C07.R5", f"{c.qualname}: element position", mod.path, args_assign[0].lineno,
                  f"the element type must sit at the Type parameter position(s) {tparams} of the definition", args_assign[0], found=str(pos))
        bound = td["bound"]
        ty_prop = c.methods.get("ty")
        idx = None
        if ty_prop is not None:
            # (canonical body: a shared lookup helper is seen through)
            rets = [r for r in ast.walk(ctx.cfn(f"{c.qualname}.ty")) if isinstance(r, ast.Return)]
            if len(rets) == 1 and isinstance(rets[0].value, ast.Attribute) and rets[0].value.attr == "ty" and isinstance(rets[0].value.value, ast.Subscript) \
                    and u(rets[0].value.value.value) == "self.args":
                sl = rets[0].value.value.slice
                idx = sl.value if isinstance(sl, ast.Constant) else None
        tbm = c.methods.get("type_bound")
        if bound["b"] == "FromParams":
            want_idx = bound["indices"]
            if tbm is not None:
                rb = [x for x in ctx.cfn(f"{c.qualname}.type_bound").body if not isinstance(x, ast.Assert)]
                ok = len(rb) == 1 and isinstance(rb[0], ast.Return) and ((u(rb[0].value) == "self.ty.type_bound()" and [idx] == want_idx)
                                                                         or (len(want_idx) == 1 and u(rb[0].value) == f"self.args[{want_idx[0]}].ty.type_bound()"))
                ctx.check(ok, "C07.R5", f"{c.qualname}.type_bound", mod.path, tbm.lineno,
                          f"{cname}'s definition takes its bound from parameter(s) {want_idx}: the override must return the bound of the argument "
                          f"at that index (self.ty reads args[{idx}])", tbm, expected=f"self.args[{want_idx[0]}].ty.type_bound()", found=u(rb[0]) if rb else "")
            else:
                ctx.ok("C07.R5", f"{c.qualname}.type_bound", "inherits ExtType.type_bound (join over the definition's indices)")
        else:
            # explicit bound: elements must be checked to fit; a type_bound override must agree with the explicit bound
            want = bound["bound"]
            pb = [p_ for p_ in td["params"] if p_["tp"] == "Type"]
            need_copy = any(p_.get("b") == "C" for p_ in pb)
            if need_copy:
                # path summaries of the constructor: the arguments are stored only on paths where the element's bound was
                # compared with Copyable and found equal; the other outcome raises ValueError
                iparams = [a.arg for a in init.args.args[1:]]
                ps = ctx.paths(f"{c.qualname}.__init__")
                storing = [p for p in ps if p.kind != "raise" and any(isinstance(e, ast.Assign) and u(e.targets[0]) == "self.args" for e in p.effects)]
                guard_ok = bool(storing)
                refused = False
                for p in ps:
                    ct = [(t, k) for t, k in p.tests if _is_copyable_test(t, iparams)]
                    if p in storing:
                        guard_ok = guard_ok and bool(ct) and all(k == (_raise_label(t) == "F") for t, k in ct)
                    elif p.kind == "raise" and p.value is not None and "ValueError" in u(p.value) and ct and all(k == (_raise_label(t) == "T") for t, k in ct):
                        refused = True
                        guard_ok = guard_ok and not any(isinstance(e, ast.Assign) and u(e.targets[0]) == "self.args" for e in p.effects)
                guard_ok = guard_ok and refused
                ctx.check(guard_ok, "C07.R5", f"{c.qualname}: rejects linear elements", mod.path, init.lineno,
                          f"{cname}'s definition requires copyable elements (parameter bound C, explicit bound {want}): the constructor must raise "
                          "ValueError for a non-copyable element before storing the arguments", init, detail="ValueError guard dominates self.args = ...")
            if tbm is not None:
                rb = [x for x in ctx.cfn(f"{c.qualname}.type_bound").body if not isinstance(x, ast.Assert)]
                if len(rb) == 1 and isinstance(rb[0], ast.Return) and u(rb[0].value) == "self.ty.type_bound()" and need_copy:
                    ctx.ok("C07.R5", f"{c.qualname}.type_bound", f"element bound, which the constructor guard pins to {want}")
                else:
                    lit = {"C": "Copyable", "A": "Any"}[want]
                    ok = len(rb) == 1 and isinstance(rb[0], ast.Return) and u(rb[0].value).endswith("TypeBound." + lit)
                    ctx.check(ok, "C07.R5", f"{c.qualname}.type_bound", mod.path, tbm.lineno,
                              f"{cname}'s definition has the explicit bound {want}", tbm)


def _is_copyable_test(t, params) -> bool:
    """the test is nothing but a comparison of the element's bound with Copyable: any extra operand (a cache lookup, a flag)
    could short-circuit it and let a linear element through"""
    if isinstance(t, ast.UnaryOp) and isinstance(t.op, ast.Not):
        t = t.operand
    if not (isinstance(t, ast.Compare) and len(t.ops) == 1):
        return False
    s = u(t)
    return "type_bound()" in s and "Copyable" in s and any(p_ + ".type_bound()" in s for p_ in params)


def _raise_label(t) -> str:
    """which outcome of the test means 'not copyable'"""
    s = u(t)
    if "!=" in s or "is not" in s:
        return "T"
    return "F"


def _succ_towards(g, t, r):
    for m in g.succ[t]:
        if r in g.reachable(m):
            return m
    return None


def run(ctx) -> None:
    ctx.rule("C07.R1", "every concrete class satisfying the Type protocol defines type_bound", floor=17)
    ctx.rule("C07.R2", "bound table: normal form of type_bound per class; ExtType arms (explicit / join over named TypeTypeArg indices)", floor=14)
    ctx.rule("C07.R3", "TypeBound.join is the least upper bound on {Copyable < Any} (finite-domain abstract interpretation with an inductive invariant)", floor=6)
    ctx.rule("C07.R4", "the bound written into a serialized extension type is the computed one", floor=3)
    ctx.rule("C07.R5", "std Array/List/StaticArray agree with their JSON definitions (arity, element position, bound source, copyable guard)", floor=9)
    nf = NF(ctx.program)
    r1_exhaustive(ctx)
    r2_table(ctx, nf)
    r3_join(ctx)
    r4_written_bound(ctx, nf)
    r5_collections(ctx, nf)
    ctx.rule("C07.R6", "the bound a type definition declares survives the extension codec (explicit bound, parameter indices) (shared with C10.R1)", floor=2)
    from .c10 import r1_bounds_codec
    with ctx.as_rule(C10_R1="C07.R6"):
        r1_bounds_codec(ctx, nf)
    ctx.rule("C07.R7", "the model export declares a variable nonlinear exactly when its parameter is a Copyable type parameter, under its own name (shared with C12.R9)", floor=2)
    from .c12 import r9_symbol_params
    r9_symbol_params(ctx, ctx.program.module("hugr.model.export"), rule="C07.R7")
    from .. import lints
    lints.arm(ctx)



# ---------------------------------------------------------------------------------------
T = "hugr-py/src/hugr/tys.py"
ST = "hugr-py/src/hugr/_serialization/tys.py"
SA = "hugr-py/src/hugr/std/collections/static_array.py"
AR = "hugr-py/src/hugr/std/collections/array.py"
LI = "hugr-py/src/hugr/std/collections/list.py"
MUTANTS = [
    dict(name="sum-first-row-only", file=T, expect="C07.R2",
         old="        return TypeBound.join(*(t.type_bound() for r in self.variant_rows for t in r))",
         new="        return TypeBound.join(*(t.type_bound() for t in self.variant_rows[0]))"),
    dict(name="sum-first-element-only", file=T, expect="C07.R2",
         old="        return TypeBound.join(*(t.type_bound() for r in self.variant_rows for t in r))",
         new="        return TypeBound.join(*(r[0].type_bound() for r in self.variant_rows if r))"),
    dict(name="qubit-copyable", file=T, expect="C07.R2", old="    def type_bound(self) -> TypeBound:\n        return TypeBound.Any\n", new="    def type_bound(self) -> TypeBound:\n        return TypeBound.Copyable\n"),
    dict(name="function-any", file=T, expect="C07.R2", old="    def type_bound(self) -> TypeBound:\n        return TypeBound.Copyable\n\n    def _to_serial(self) -> stys.FunctionType:",
         new="    def type_bound(self) -> TypeBound:\n        return TypeBound.Any\n\n    def _to_serial(self) -> stys.FunctionType:"),
    dict(name="opaque-always-copyable", file=T, expect="C07.R2", old="    def type_bound(self) -> TypeBound:\n        return self.bound\n\n    def resolve(self, registry: ext.ExtensionRegistry) -> Type:",
         new="    def type_bound(self) -> TypeBound:\n        return TypeBound.Copyable\n\n    def resolve(self, registry: ext.ExtensionRegistry) -> Type:"),
    dict(name="exttype-all-args", file=T, expect="C07.R2", old="                for idx in indices:\n                    arg = self.args[idx]", new="                for idx in range(len(self.args)):\n                    arg = self.args[idx]"),
    dict(name="exttype-index-shift", file=T, expect="C07.R2", old="                    arg = self.args[idx]", new="                    arg = self.args[idx - 1]"),
    dict(name="exttype-explicit-ignored", file=T, expect="C07.R2", old="            case ExplicitBound(exp_bound):\n                return exp_bound", new="            case ExplicitBound(exp_bound):\n                return TypeBound.Copyable"),
    dict(name="sugar-overrides-bound", file=T, expect="C07.R2", old="    def __repr__(self) -> str:\n        return f\"Tuple{tuple(self.variant_rows[0])}\"",
         new="    def type_bound(self) -> TypeBound:\n        return TypeBound.Copyable\n\n    def __repr__(self) -> str:\n        return f\"Tuple{tuple(self.variant_rows[0])}\""),
    dict(name="join-last-wins", file=ST, expect="C07.R3", old="            if b == TypeBound.Any:\n                return TypeBound.Any\n            if res == TypeBound.Copyable:\n                res = b",
         new="            res = b"),
    dict(name="join-starts-any", file=ST, expect="C07.R3", old="        res = TypeBound.Copyable\n        for b in bs:", new="        res = TypeBound.Any\n        for b in bs:"),
    dict(name="join-any-not-absorbing", file=ST, expect="C07.R3", old="            if b == TypeBound.Any:\n                return TypeBound.Any\n", new="            if b == TypeBound.Any:\n                return TypeBound.Copyable\n"),
    dict(name="join-test-inverted", file=ST, expect="C07.R3", old="            if b == TypeBound.Any:\n                return TypeBound.Any\n", new="            if b != TypeBound.Any:\n                return TypeBound.Any\n"),
    dict(name="opaque-form-declares-copyable", file=T, expect="C07.R4", old="            bound=self.type_bound(),\n        )", new="            bound=TypeBound.Copyable,\n        )"),
    dict(name="static-array-no-guard", file=SA, expect="C07.R5",
         old="        if (\n            tys.TypeBound.join(ty.type_bound(), tys.TypeBound.Copyable)\n            != tys.TypeBound.Copyable\n        ):\n            msg = \"Static array elements must be copyable\"\n            raise ValueError(msg)\n", new=""),
    dict(name="static-array-guard-after-store", file=SA, expect="C07.R5",
         old="        if (\n            tys.TypeBound.join(ty.type_bound(), tys.TypeBound.Copyable)\n            != tys.TypeBound.Copyable\n        ):\n            msg = \"Static array elements must be copyable\"\n            raise ValueError(msg)\n        self.args = [tys.TypeTypeArg(ty)]",
         new="        self.args = [tys.TypeTypeArg(ty)]\n        if (\n            tys.TypeBound.join(ty.type_bound(), tys.TypeBound.Copyable)\n            != tys.TypeBound.Copyable\n        ):\n            msg = \"Static array elements must be copyable\"\n            raise ValueError(msg)"),
    dict(name="static-array-guard-inverted", file=SA, expect="C07.R5", old="            != tys.TypeBound.Copyable\n        ):", new="            == tys.TypeBound.Copyable\n        ):"),
    dict(name="array-args-swapped", file=AR, expect="C07.R5", old="        self.args = [size, ty_arg]", new="        self.args = [ty_arg, size]"),
    dict(name="array-bound-copyable", file=AR, expect="C07.R5", old="    def type_bound(self) -> tys.TypeBound:\n        return self.ty.type_bound()", new="    def type_bound(self) -> tys.TypeBound:\n        return tys.TypeBound.Copyable"),
    dict(name="list-bound-copyable", file=LI, expect="C07.R5", old="    def type_bound(self) -> tys.TypeBound:\n        return self.ty.type_bound()", new="    def type_bound(self) -> tys.TypeBound:\n        return tys.TypeBound.Copyable"),
    dict(name="new-type-without-bound", file=T, expect="C07.R1", old="@dataclass(frozen=True)\nclass USize(Type):", new="@dataclass(frozen=True)\nclass Nat64(Type):\n    def _to_serial(self) -> stys.USize:\n        return stys.USize()\n\n\n@dataclass(frozen=True)\nclass USize(Type):"),
]
TWINS = [
    dict(name="twin-list-comp-join", file=T, old="        return TypeBound.join(*(t.type_bound() for r in self.variant_rows for t in r))",
         new="        return TypeBound.join(*[t.type_bound() for r in self.variant_rows for t in r])"),
    dict(name="twin-exttype-comprehension", file=T,
         old="                bounds: list[TypeBound] = []\n                for idx in indices:\n                    arg = self.args[idx]\n                    if isinstance(arg, TypeTypeArg):\n                        bounds.append(arg.ty.type_bound())\n                return TypeBound.join(*bounds)",
         new="                return TypeBound.join(\n                    *[self.args[i].ty.type_bound() for i in indices if isinstance(self.args[i], TypeTypeArg)]\n                )"),
    dict(name="twin-join-is", file=ST, old="            if b == TypeBound.Any:\n                return TypeBound.Any\n", new="            if b is TypeBound.Any:\n                return b\n"),
    dict(name="twin-join-accumulate", file=ST, old="            if b == TypeBound.Any:\n                return TypeBound.Any\n            if res == TypeBound.Copyable:\n                res = b",
         new="            if b == TypeBound.Any:\n                res = TypeBound.Any"),
]


def thorough(ctx):
    from ..selftest import run_battery
    return run_battery(ctx, MUTANTS, TWINS)
