"""C04 -- the HUGR graph store agrees with a sequential port-multigraph model.

Decided: the disciplines without which the store provably diverges from the model:
R1 who-may-write; R2 slot / free-list / children pairing; R3 dense sub-offsets (single gap-closing removal helper);
R4 deletion completeness; R5 queries are pure; R6 monotone port counts; R7 direction <-> dictionary tables.
"""
from __future__ import annotations

import ast
import copy

from ..cfg import CFG, EXIT, RAISE
from ..model import calls_in, call_name, kwarg, real_body, u, walk_no_nested
from ..tmpl import T, tall, tfind, tmatch

BASE = "hugr.hugr.base"
STATE = {"_nodes", "_free_nodes", "_links"}
NODEDATA_STATE = {"children", "_num_inps", "_num_outs", "parent"}
LIST_MUT = {"append", "pop", "remove", "insert", "extend", "clear", "sort", "reverse", "__setitem__", "__delitem__"}
BIMAP_MUT = {"insert_left", "insert_right", "delete_left", "delete_right", "__setitem__", "__delitem__", "update", "clear", "pop", "popitem", "setdefault"}
HUGR_MUT = {"add_node", "_add_node", "add_const", "delete_node", "add_link", "add_order_link", "delete_link", "insert_hugr", "_update_node_outs",
            "_update_port_count", "resolve_extensions", "_remove_sub_link"}
QUERIES = ["children", "links", "linked_ports", "_linked_ports", "incoming_links", "outgoing_links", "_node_links", "incoming_order_links",
           "outgoing_order_links", "has_link", "num_nodes", "num_ports", "num_in_ports", "num_out_ports", "num_incoming", "num_outgoing",
           "port_kind", "port_type", "__getitem__", "__iter__", "__len__", "nodes", "root_op", "_get_typed_op", "_unused_sub_offset"]


def _functions(m):
    for c in m.classes.values():
        for fn in c.node.body:
            if isinstance(fn, (ast.FunctionDef, ast.AsyncFunctionDef)):
                yield fn, c.name
    for fn in m.tree.body:
        if isinstance(fn, (ast.FunctionDef, ast.AsyncFunctionDef)):
            yield fn, ""


def r1_who_may_write(ctx) -> None:
    prog = ctx.program
    nreads = 0
    for mn, m in prog.modules.items():
        for fn, owner in _functions(m):
            inside = mn == BASE and owner == "Hugr"
            aliases: dict[str, str] = {}
            for n in ast.walk(fn):
                tgt, v = None, None
                if isinstance(n, ast.Assign) and len(n.targets) == 1 and isinstance(n.targets[0], ast.Name):
                    tgt, v = n.targets[0].id, n.value
                elif isinstance(n, ast.NamedExpr) and isinstance(n.target, ast.Name):
                    tgt, v = n.target.id, n.value
                elif isinstance(n, ast.AnnAssign) and isinstance(n.target, ast.Name) and n.value is not None:
                    tgt, v = n.target.id, n.value
                if tgt is not None:
                    if isinstance(v, ast.Attribute) and v.attr in STATE | {"children"}:
                        aliases[tgt] = v.attr
                    if isinstance(v, ast.Call) and call_name(v) == "children":
                        aliases[tgt] = "children"

            def state_of(e):
                if isinstance(e, ast.Attribute) and e.attr in STATE | NODEDATA_STATE and e.attr != "parent":
                    return e.attr
                if isinstance(e, ast.Call) and call_name(e) == "children":
                    return "children"
                if isinstance(e, ast.Name) and e.id in aliases:
                    return aliases[e.id]
                return None

            for n in ast.walk(fn):
                bad = None
                if isinstance(n, (ast.Assign, ast.AugAssign, ast.AnnAssign, ast.Delete)):
                    tgs = n.targets if isinstance(n, (ast.Assign, ast.Delete)) else [n.target]
                    flat = []
                    for t in tgs:
                        flat += list(t.elts) if isinstance(t, ast.Tuple) else [t]
                    for t in flat:
                        if isinstance(t, ast.Attribute) and t.attr in STATE | {"children", "_num_inps", "_num_outs"}:
                            bad = f"assignment to .{t.attr}"
                        if isinstance(t, ast.Subscript) and state_of(t.value):
                            bad = f"element store/delete on .{state_of(t.value)}"
                if isinstance(n, ast.Call) and isinstance(n.func, ast.Attribute):
                    st = state_of(n.func.value)
                    if st and n.func.attr in (BIMAP_MUT if st == "_links" else LIST_MUT):
                        bad = f".{n.func.attr}() on .{st}"
                if bad and not inside:
                    if mn == BASE and owner == "NodeData":
                        continue
                    ctx.fail("C04.R1", f"{mn}.{owner + '.' if owner else ''}{fn.name}", m.path, n.lineno,
                             f"{bad} outside hugr.hugr.base.Hugr: the node table, free list, link map and per-node counters may only be "
                             "changed through the Hugr methods that keep them consistent", n)
            if not inside:
                r = [n for n in ast.walk(fn) if state_of(n)]
                if r:
                    nreads += len(r)
                    ctx.ok("C04.R1", f"{mn}.{owner + '.' if owner else ''}{fn.name}", f"{len(r)} read-only uses of store state")
    ctx.stats["C04.R1 outside read sites"] = nreads
    ctx.ok("C04.R1", "hugr.hugr.base.Hugr owns _nodes/_free_nodes/_links", "all writers are methods of Hugr")


HQ = f"{BASE}.Hugr"


def _prim(p, name):
    """primary evaluations of a call on a path: effect statements whose own expression is the call (a value bound to a
    local recurs textually wherever the local is read)"""
    out = []
    for i, e in enumerate(p.effects):
        v = e.value if isinstance(e, (ast.Expr, ast.Assign)) else None
        while isinstance(v, (ast.Attribute, ast.Subscript)):       # `idx = free.pop().idx`: the call is evaluated there all the same
            v = v.value
        if isinstance(v, ast.Call) and u(v.func).endswith(name):
            out.append((i, v, e))
    return out


def parentless_nodes_rule(ctx, hugr, file, rule="C04.R2") -> None:
    """only the constructor creates a node without a parent: every other call of the raw node constructor `_add_node` passes a parent that
    cannot be None -- an optional `parent` parameter is defaulted to the root first (add_node does), or the parent is computed"""
    n = 0
    for name, m in hugr.methods.items():
        if name in ("__init__", "_add_node"):
            continue
        cf = ctx.cfn(f"{HQ}.{name}", subst=False)
        optional = set()
        a = m.args
        pos = a.posonlyargs + a.args
        for p_, d_ in zip(pos[len(pos) - len(a.defaults):], a.defaults):
            if isinstance(d_, ast.Constant) and d_.value is None:
                optional.add(p_.arg)
        for p_, d_ in zip(a.kwonlyargs, a.kw_defaults):
            if isinstance(d_, ast.Constant) and d_.value is None:
                optional.add(p_.arg)
        for c in calls_in(cf):
            if call_name(c) != "_add_node" or not isinstance(c.func, ast.Attribute):
                continue
            par = kwarg(c, "parent", 1)
            n += 1
            from .c01 import _rebound_before
            bad = par is None or (isinstance(par, ast.Constant) and par.value is None) or (isinstance(par, ast.Name) and par.id in optional and not _rebound_before(cf, c, par.id))
            ctx.check(not bad, rule, f"Hugr.{name}: new node gets a parent", file, getattr(c, "lineno", m.lineno),
                      f"{name} hands `{u(par) if par is not None else 'nothing'}` to _add_node as the parent: when the caller leaves it out the node is created "
                      "detached (no parent, in nobody's child list) instead of under the root, which add_node guarantees by defaulting first", c,
                      expected="parent or self.root (or going through add_node)", found=u(par) if par is not None else "")
    ctx.stats[f"{rule} raw node constructions outside the constructor"] = n


def r2_pairing(ctx, hugr, file) -> None:
    """stated over path summaries (hv/paths.py) of delete_node and _add_node"""
    from ..tmpl import T, tmatch
    # ---- delete_node: slot cleared <=> index pushed on the free list <=> removed from parent's children
    dn, _, _ = ctx.locate(f"{HQ}.delete_node")
    an, _, _ = ctx.locate(f"{HQ}._add_node")
    ps = [p for p in ctx.paths(f"{HQ}.delete_node") if p.kind != "raise"]
    ok = bool(ps)
    same = bool(ps)
    par_ok = bool(ps)
    ret_ok = bool(ps)
    seen_parent = False
    for p in ps:
        clear = p.find_effect("self._nodes[E_i] = None")
        push = _prim(p, "self._free_nodes.append")
        ok = ok and len(clear) == 1 and len(push) == 1
        if len(clear) == 1 and len(push) == 1:
            idx = clear[0][2]["E_i"]
            pushed = u(push[0][1].args[0]) if push[0][1].args else ""
            # the pushed handle is the node whose slot is cleared (possibly with its metadata stripped)
            node_txt = idx[:-4] if idx.endswith(".idx") else None
            # (replace(node, ..) on the handle class is written out by the canonical form: Node(node.idx, ..))
            same = same and node_txt is not None and (pushed == node_txt or pushed.startswith(f"replace({node_txt},") or pushed.startswith(f"Node({node_txt}.idx,")
                                                       or pushed.startswith(f"Node(idx={node_txt}.idx,"))
            # the removed data is what the slot held before it was cleared
            ret_ok = ret_ok and p.kind == "return" and p.value_text() in (f"old_(self._nodes[{idx}])", f"old_(self[{node_txt}])")
            has_parent = [k for t, k in p.tests if u(t) in (f"self[{node_txt}].parent", f"self[{node_txt}].parent is not None")]
            rem = p.find_effect(f"self[self[{node_txt}].parent].children.remove({node_txt})")
            if has_parent and has_parent[0]:
                seen_parent = True
                par_ok = par_ok and len(rem) == 1 and rem[0][0] < clear[0][0]
            else:
                par_ok = par_ok and bool(has_parent) and not rem
    ctx.check(ok, "C04.R2", "Hugr.delete_node: slot cleared and index freed together", file, dn.lineno,
              "on every path delete_node must set the node's slot to None and push its index on the free list (both or neither)", dn)
    if ok:
        ctx.check(same, "C04.R2", "Hugr.delete_node: same index", file, dn.lineno, "the freed index must be the index of the cleared slot", dn)
    ctx.check(par_ok and seen_parent, "C04.R2", "Hugr.delete_node: detached from parent", file, dn.lineno,
              "a deleted node must be removed from its parent's child list whenever it has a parent", dn)
    ctx.check(ret_ok, "C04.R2", "Hugr.delete_node: returns the removed data", file, dn.lineno, "", dn,
              found="; ".join(p.describe() for p in ps)[:200])
    # ---- _add_node
    ps = [p for p in ctx.paths(f"{HQ}._add_node") if p.kind != "raise"]
    params = [a.arg for a in an.args.args]
    op_p, par_p = params[1], params[2]
    ok_reuse = ok_fresh = ok_par = ok_data = ok_req = bool(ps)
    seen = {"reuse": False, "fresh": False, "par": False}

    def length_read_after_append() -> bool:
        """in the canonical body: the table length is read only in the arm without a free index, only after that arm's append, and
        only as `len(self._nodes) - 1` (the index the appended entry got)"""
        cf_ = ctx.cfn(f"{HQ}._add_node", subst=False)
        arms = [s_ for s_ in ast.walk(cf_) if isinstance(s_, ast.If) and u(s_.test) in ("self._free_nodes", "len(self._free_nodes) > 0")]
        if len(arms) != 1 or not arms[0].orelse:
            return False
        arm = arms[0].orelse
        ia = [i for i, s_ in enumerate(arm) if any(call_name(c) == "append" and u(c.func) == "self._nodes.append" for c in calls_in(s_))]
        reads_all = [n for n in ast.walk(cf_) if isinstance(n, ast.Call) and u(n) == "len(self._nodes)"]
        reads_arm = [(i, n) for i, s_ in enumerate(arm) for n in ast.walk(s_) if isinstance(n, ast.Call) and u(n) == "len(self._nodes)"]
        minus1 = {id(n.left) for n in ast.walk(cf_) if isinstance(n, ast.BinOp) and isinstance(n.op, ast.Sub) and isinstance(n.right, ast.Constant) and n.right.value == 1}
        return len(ia) == 1 and bool(reads_arm) and len(reads_arm) == len(reads_all) and all(i > ia[0] and id(n) in minus1 for i, n in reads_arm)
    after_append = None
    for p in ps:
        nonempty = [k for t, k in p.tests if u(t) in ("self._free_nodes", "len(self._free_nodes) > 0", "0 < len(self._free_nodes)")]
        pops = _prim(p, "self._free_nodes.pop")
        apps = _prim(p, "self._nodes.append")
        stores = [e for e in p.effects if isinstance(e, ast.Assign) and isinstance(e.targets[0], ast.Subscript) and u(e.targets[0].value) == "self._nodes"]
        data = None
        if nonempty and nonempty[0]:
            seen["reuse"] = True
            good = len(pops) == 1 and not apps and len(stores) == 1 and u(stores[0].targets[0].slice) == "self._free_nodes.pop().idx"
            ok_reuse = ok_reuse and good
            data = stores[0].value if stores else None
        else:
            seen["fresh"] = True
            good = bool(nonempty) and not pops and len(apps) == 1 and not stores
            # the handle is the table length before the append
            from ..tmpl import thas
            good = good and p.kind == "return" and p.value is not None and (thas(p.value, "old_(Node(len(self._nodes), ANY_))") or thas(p.value, "old_(Node(len(self._nodes)))")
                                                                          or tmatch(p.value, T("Node(old_(len(self._nodes)), ANY_, ANY_)")) is not None
                                                                          or tmatch(p.value, T("Node(old_(len(self._nodes)), ANY_)")) is not None
                                                                          or tmatch(p.value, T("Node(old_(len(self._nodes)))")) is not None)
            if not good and bool(nonempty) and not pops and len(apps) == 1 and not stores and p.kind == "return" and p.value is not None:
                # the other order: append first, then the handle from the length less one
                from ..rulekit import unold
                pv = ast.parse(unold(p.value), mode="eval").body
                if pv is not None and any(tmatch(pv, T(t_)) is not None for t_ in ("Node(len(self._nodes) - 1, ANY_, ANY_)", "Node(len(self._nodes) - 1, ANY_)", "Node(len(self._nodes) - 1)")):
                    if after_append is None:
                        after_append = length_read_after_append()
                    good = after_append
            ok_fresh = ok_fresh and good
            data = apps[0][1].args[0] if apps and apps[0][1].args else None
        e = tmatch(data, T("NodeData(E_op, E_parent, metadata=E_meta)")) if data is not None else None
        ok_data = ok_data and e is not None and e["E_op"] == op_p and (e["E_parent"] in (par_p, f"{par_p}.to_node()", "None")) and "metadata" in e["E_meta"]
        has_par = [k for t, k in p.tests if u(t) in (par_p, f"{par_p} is not None")]
        ch = [x for x in p.effects if isinstance(x, ast.Expr) and isinstance(x.value, ast.Call) and u(x.value.func).endswith(".children.append")]
        if has_par and has_par[0]:
            # (a second truthiness test on the converted handle may skip the registration: Node(0) is falsy -- reported by C04.L1)
            if ch:
                seen["par"] = True
                ok_par = ok_par and len(ch) == 1 and u(ch[0].value.func) in (f"self[{par_p}].children.append", f"self[{par_p}.to_node()].children.append") \
                    and p.kind == "return" and u(ch[0].value.args[0]) == p.value_text()
        else:
            ok_par = ok_par and not ch
        req = [x for x in p.effects if isinstance(x, ast.Expr) and isinstance(x.value, ast.Call) and u(x.value.func) in ("self._update_node_outs", "self._update_port_count")]
        ok_req = ok_req and len(req) == 1 and "num_outs" in u(req[0])
    ctx.check(ok_reuse and seen["reuse"], "C04.R2", "Hugr._add_node: reused index is filled", file, an.lineno,
              "an index popped from the free list (only when it is non-empty) must receive the new node data on every path", an)
    ctx.check(ok_fresh and seen["fresh"], "C04.R2", "Hugr._add_node: fresh index = table length", file, an.lineno,
              "without a free index the new node gets index len(_nodes) and its data is appended (never both reuse and append)", an)
    ctx.check(ok_par and seen["par"], "C04.R2", "Hugr._add_node: registered with parent", file, an.lineno, "a node with a parent must be appended to that parent's child list", an)
    ctx.check(ok_data, "C04.R2", "Hugr._add_node: node data", file, an.lineno, "the stored node data must hold the given op, parent and metadata", an)
    ctx.check(ok_req, "C04.R2", "Hugr._add_node: requested count recorded", file, an.lineno,
              "the output count requested at creation must be recorded for the node", an)
    it, _, _ = ctx.locate(f"{HQ}.__iter__")
    e = tall(ctx.cfn(f"{HQ}.__iter__").body, ["return (Node(c0, E_m) for c0, c1 in enumerate(self._nodes) if c1 is not None)"])
    ctx.check(e is not None, "C04.R2", "Hugr.__iter__ skips free slots", file, it.lineno, "", it)
    gi, _, _ = ctx.locate(f"{HQ}.__getitem__")
    ps = ctx.paths(f"{HQ}.__getitem__")
    rets = [p for p in ps if p.kind == "return"]
    ok = bool(rets) and all(p.has_test("self._nodes[E_i] is not None", True) is not None for p in rets) and \
        all(p.kind == "raise" and u(p.value).startswith("KeyError") for p in ps if p.kind != "return")
    ctx.check(ok, "C04.R2", "Hugr.__getitem__ rejects free slots", file, gi.lineno,
              "looking up a deleted node must raise KeyError", gi)
    # Mapping mix-in methods answer through __getitem__ / __iter__ / __len__; an override must look at the slot too
    hugr_cls = ctx.program.cls(HQ)
    for name in ("__contains__", "get", "keys", "values", "items", "__eq__"):
        if name not in hugr_cls.methods:
            continue
        m_ = hugr_cls.methods[name]
        qs = ctx.paths(f"{HQ}.{name}")
        good = bool(qs)
        for q in qs:
            if q.kind != "return" or q.value_text() in ("False", "None", "NotImplemented"):
                continue
            slot = q.has_test("self._nodes[E_i] is not None", True) is not None
            via_lookup = any(isinstance(e_, ast.AST) and ("self[" in u(e_) or "self.__getitem__(" in u(e_) or "super()." in u(e_)) for e_ in list(q.effects) + [q.value]) \
                and not q.has_test("except_(KeyError)", True)
            via_iter = any(tok in u(q.value) for tok in ("for c0 in self", "iter(self)", "self.nodes()", "super()."))
            good = good and (slot or via_lookup or via_iter)
        ctx.check(good, "C04.R2", f"Hugr.{name}: agrees with lookup on freed slots", file, m_.lineno,
                  f"Hugr.{name} overrides the Mapping mix-in without consulting the slot (`self._nodes[i] is not None`), __getitem__ or __iter__: "
                  "an index freed by delete_node is still a position of the table, so the answer contradicts `hugr[node]` (KeyError), iteration and len", m_)


def _succ_towards(g, t, r):
    for m in g.succ[t]:
        if r == m or r in g.reachable(m):
            return m
    return None


def _raw_link_deletes(fn):
    out = []
    if fn is None:
        return out
    for c in calls_in(fn):
        if isinstance(c.func, ast.Attribute) and c.func.attr in ("delete_left", "delete_right", "__delitem__", "pop") and "_links" in u(c.func.value):
            out.append(c)
    for n in ast.walk(fn):
        if isinstance(n, ast.Delete) and any("_links" in u(t) for t in n.targets):
            out.append(n)
    return out


def is_gap_closing(fn) -> bool:
    """the function removes a link and then, on EVERY path to its exit, shifts the later sub-offsets of both endpoint
    ports down (a shifting loop over the forward map and one over the backward map are both passed through)"""
    g = CFG(real_body(fn))
    heads = {}
    for n, st in g.stmt.items():
        if g.kind.get(n) != "loop" or st is None:
            continue
        t = u(st)
        for d in ("fwd", "bck"):
            if f"in self._links.{d}" in t:
                # the loop body re-keys: delete + insert + next_sub_offset
                body = [m for m in g.reachable(n) if m != n]
                lp = [w for w in ast.walk(fn) if isinstance(w, ast.While) and w.test is st]
                if not lp:
                    continue
                body_calls = {call_name(c) for c in calls_in(lp[0])}
                if body_calls & {"delete_left", "delete_right"} and body_calls & {"insert_left", "insert_right"} and "next_sub_offset" in body_calls:
                    heads[d] = n
    if set(heads) != {"fwd", "bck"}:
        return False
    dels = [n for n, st in g.stmt.items() if st is not None and g.kind.get(n) == "stmt" and _raw_link_deletes(st) and not any(n in g.reachable(h) and h in g.reachable(n) for h in heads.values())]
    if not dels:
        return False
    first = dels[0]
    # no path from the removal to the exit that skips either shifting loop
    return all(EXIT not in g.reachable(first, avoid={h}) for h in heads.values())


def shift_steps(fn):
    """one verdict per gap-closing loop of the (canonical) removal helper:
        later = gap.next_sub_offset()
        while later in MAP.d:  partner = MAP.d[later]; delete(later); insert(gap <-> partner); gap, later = later, later.next_sub_offset()
    -> [(direction, True | False | None, why)]; None when the loop body is not straight-line (no verdict).  The step is judged by
    running the body symbolically: afterwards the gap must be the old `later`, `later` the sub-offset after the OLD `later`, the entry
    deleted the one at `later`, and the entry inserted the old partner at the old gap (read before the deletion)."""
    from ..norm import _Subst
    import copy
    out = []
    for blk in [fn.body] + [getattr(n, f_) for n in ast.walk(fn) for f_ in ("body", "orelse") if isinstance(getattr(n, f_, None), list) and n is not fn]:
        for i, lp in enumerate(blk):
            if not isinstance(lp, ast.While) or lp.orelse:
                continue
            e = tmatch(lp.test, T("L_later in self._links.L_d"))
            if e is None or e["L_d"] not in ("fwd", "bck"):
                continue
            later, d = e["L_later"], e["L_d"]
            env, effects, order, follow = {}, [], [], True
            for j, st in enumerate(lp.body):
                if isinstance(st, ast.Assign) and len(st.targets) == 1 and isinstance(st.targets[0], ast.Name):
                    env[st.targets[0].id] = _Subst(dict(env)).visit(copy.deepcopy(st.value))
                    order.append(("bind", u(env[st.targets[0].id]), j))
                elif isinstance(st, ast.Assign) and len(st.targets) == 1 and isinstance(st.targets[0], ast.Tuple) and isinstance(st.value, ast.Tuple) \
                        and len(st.value.elts) == len(st.targets[0].elts) and all(isinstance(t, ast.Name) for t in st.targets[0].elts):
                    vals = [_Subst(dict(env)).visit(copy.deepcopy(v)) for v in st.value.elts]
                    for t, v in zip(st.targets[0].elts, vals):
                        env[t.id] = v
                elif isinstance(st, ast.Expr) and isinstance(st.value, ast.Call):
                    c = _Subst(dict(env)).visit(copy.deepcopy(st.value))
                    effects.append((u(c), j))
                elif isinstance(st, ast.Expr) and isinstance(st.value, ast.Constant):
                    continue
                else:
                    follow = False
                    break
            if not follow:
                out.append((d, None, "the loop body is not a straight line"))
                continue
            gaps = [k for k, v in env.items() if k != later and u(v) == later]
            if len(gaps) != 1:
                out.append((d, False, f"no cursor takes over the old `{later}` (the vacated position is not advanced)"))
                continue
            gap = gaps[0]
            if u(env.get(later, ast.Name(id=later))) != f"{later}.next_sub_offset()":
                out.append((d, False, f"`{later}` becomes `{u(env.get(later, ast.Name(id=later)))}`, not the sub-offset after the one just moved"))
                continue
            read = f"self._links.{d}[{later}]"
            dele = f"self._links.delete_left({later})" if d == "fwd" else f"self._links.delete_right({later})"
            ins = ({f"self._links.insert_left({gap}, {read})", f"self._links.insert_right({read}, {gap})"} if d == "fwd"
                   else {f"self._links.insert_left({read}, {gap})", f"self._links.insert_right({gap}, {read})"})
            dj = [j for t, j in effects if t == dele]
            ij = [j for t, j in effects if t in ins]
            rj = [j for k, t, j in order if t == read]
            if not dj or not ij:
                out.append((d, False, f"the step does not delete the entry at `{later}` and re-insert its partner at `{gap}`: " + "; ".join(t for t, _ in effects)[:200]))
                continue
            if not rj or min(rj) > dj[0] or ij[0] < dj[0]:
                out.append((d, False, "the partner is read after the entry was deleted, or re-inserted before it"))
                continue
            # the cursor starts one past the gap
            init = blk[i - 1] if i else None
            if not (isinstance(init, ast.Assign) and u(init) == f"{later} = {gap}.next_sub_offset()"):
                out.append((d, None, "the statement before the loop does not start the cursor one past the gap"))
                continue
            out.append((d, True, ""))
    return out


def _prefix_walk(ctx, qual):
    """the walk over the sub-offsets 0, 1, 2, .. of a port that stops at the first one without an entry, in its canonical form
    (hv/canon.py: a cursor object advanced by next_sub_offset(), an itertools pipeline over count(), or a counter, coincide):
        k = 0;  while _SubPort(PORT, k) in MAP: BODY; k = k + 1
    -> (port text, map text, body statements, counter name, the loop, the canonical function), None when the function has another shape"""
    from ..tmpl import T, tmatch
    cf = ctx.cfn(qual, accessors=True)
    for blk in [cf.body] + [getattr(n, f_) for n in ast.walk(cf) for f_ in ("body", "orelse") if isinstance(getattr(n, f_, None), list) and n is not cf]:
        for i, s_ in enumerate(blk):
            if not isinstance(s_, ast.While) or s_.orelse or i == 0:
                continue
            e = tmatch(s_.test, T("_SubPort(E_p, L_k) in E_m"))
            if e is None or not s_.body:
                continue
            k = e["L_k"]
            init = blk[i - 1]
            if not (isinstance(init, ast.Assign) and u(init) == f"{k} = 0"):
                continue
            if u(s_.body[-1]) != f"{k} = {k} + 1":
                continue
            body = s_.body[:-1]
            if any(isinstance(n, ast.Name) and n.id == k and isinstance(n.ctx, (ast.Store, ast.Del)) for b_ in body for n in ast.walk(b_)) \
                    or any(isinstance(n, (ast.Break, ast.Continue)) for b_ in body for n in ast.walk(b_)):
                continue
            return e["E_p"], e["E_m"], body, k, (blk, i), cf
    return None


def r3_dense_suboffsets(ctx, hugr, file) -> None:
    """on canonical method bodies (aliases of self._links are replaced by the attribute, unknown helpers are inlined)"""
    from ..tmpl import T, tall, thas
    cm = {name: ctx.cfn(f"{HQ}.{name}") for name in hugr.methods if not ctx.canon.unknown_helper(hugr, name)}
    # contradiction: readers and allocator assume a gap-free prefix of sub-offsets
    lp = cm.get("_linked_ports")
    us = cm.get("_unused_sub_offset")
    if lp is None or us is None:
        ctx.broken("anchor vanished: Hugr._linked_ports / _unused_sub_offset")
    assumes = all(_prefix_walk(ctx, f"{HQ}.{nm_}") is not None for nm_ in ("_linked_ports", "_unused_sub_offset"))
    ctx.stats["C04.R3 prefix assumption present"] = assumes
    helpers = [m for name, m in cm.items() if _raw_link_deletes(m) and is_gap_closing(m)]
    n = 0
    for name, m in cm.items():
        raw = _raw_link_deletes(m)
        if not raw:
            continue
        n += 1
        ok = is_gap_closing(m) or not assumes
        ctx.check(ok, "C04.R3", f"Hugr.{name}: removes links", file, raw[0].lineno,
                  f"{name} deletes an entry of the link map (`{u(raw[0])[:70]}`) without closing the gap in the sub-offsets of the two ports: "
                  "_linked_ports and _unused_sub_offset enumerate sub-offsets 0,1,.. up to the first gap, so links behind the gap become invisible "
                  "to linked_ports/has_link/incoming_links while links() still lists them, and a later add_link reuses the gap", raw[0],
                  detail="removal goes through a helper that shifts later sub-offsets of both ports down")
    ctx.check(len(helpers) <= 1, "C04.R3", "single removal helper", file, hugr.node.lineno, "link removal must be implemented once", hugr.node)
    if n == 0:
        ctx.fail("C04.R3", "Hugr: link removal exists", file, hugr.node.lineno, "no method removes entries from the link map", hugr.node)
    if helpers:
        h = helpers[0]
        # the helper looks the target sub-port up before deleting, and re-inserts at the vacated sub-offset
        ok = thas(h, "self._links.fwd[ANY_]") and any(call_name(c) == "insert_left" for c in calls_in(h))
        ctx.check(ok, "C04.R3", f"Hugr.{h.name}: re-keys later links", file, h.lineno, "", h)
        for d, verdict, why in shift_steps(h):
            if verdict is None:
                ctx.note(f"C04.R3: {h.name}: shifting loop over {d} not followed ({why})")
                continue
            ctx.check(verdict, "C04.R3", f"Hugr.{h.name}: shift step ({d})", file, h.lineno,
                      f"each round of the gap-closing loop over the {'source' if d == 'fwd' else 'target'} port must move the next link into the gap and advance "
                      f"both cursors by one: {why}", h)
        dl = cm.get("delete_link")
        ok = dl is not None and any(call_name(c) == h.name for c in calls_in(dl))
        ctx.check(ok, "C04.R3", "Hugr.delete_link uses the removal helper", file, dl.lineno if dl else 1, "", dl)
        if dl is not None:
            # delete_link removes exactly the addressed link: the sub-offset found by position in linked_ports(src) == dst
            a = tall(dl.body, [f"self.{h.name}(_SubPort(L_src, next((c0 for c0, c1 in enumerate(self.linked_ports(L_src)) if c1 == L_dst))))"]) or \
                tall(dl.body, ["L_so = next((c0 for c0, c1 in enumerate(self.linked_ports(L_src)) if c1 == L_dst))", f"self.{h.name}(_SubPort(L_src, L_so))"])
            b = None
            for lp_ in [x for x in ast.walk(dl) if isinstance(x, ast.For)]:
                e = tmatch_for(lp_, "enumerate(self.linked_ports(L_src))")
                if e is not None and isinstance(lp_.target, ast.Tuple) and len(lp_.target.elts) == 2:
                    i_, p_ = u(lp_.target.elts[0]), u(lp_.target.elts[1])
                    from ..paths import summaries
                    hits = [q for q in summaries(lp_.body) if q.find_effect(f"self.{h.name}(_SubPort({e['L_src']}, {i_}))")]
                    if hits and all(any(u(t) in (f"{p_} == {d}", f"{d} == {p_}") and k for t, k in q.tests for d in [a_.arg for a_ in dl.args.args[1:]]) and q.kind in ("return", "break") for q in hits):
                        b = e
            # (c) path summaries: one removal at the first position of dst among linked_ports(src) when there is one, none otherwise
            #     ("none" = StopIteration handler, or the default of next(.., None) tested)
            s_, d_ = [x.arg for x in dl.args.args[1:3]]
            gen = f"(c0 for c0, c1 in enumerate(self.linked_ports({s_})) if c1 == {d_})"
            c_ok = True
            kinds = set()
            for q in ctx.paths(f"{HQ}.delete_link"):
                rm = q.find_effect(f"self.{h.name}(_SubPort(E_p, E_k))")
                gen2 = f"(_SubPort({s_}, c0) for c0, c1 in enumerate(self.linked_ports({s_})) if c1 == {d_})"
                absent = q.has_test("except_(StopIteration)", True) is not None or q.has_test(f"next({gen}, None) is not None", False) is not None \
                    or q.has_test(f"{d_} in self.linked_ports({s_})", False) is not None or q.has_test(f"next({gen2}, None) is not None", False) is not None
                if absent:
                    kinds.add("absent")
                    c_ok = c_ok and not rm and q.kind in ("return", "fall")
                else:
                    kinds.add("present")
                    rm2 = q.find_effect(f"self.{h.name}(next({gen2}, None))") + q.find_effect(f"self.{h.name}(next({gen2}))")
                    c_ok = c_ok and q.kind in ("return", "fall") and (
                        (len(rm) == 1 and rm[0][2]["E_p"] == s_ and rm[0][2]["E_k"] in (f"next({gen})", f"next({gen}, None)"))
                        or (not rm and len(rm2) == 1 and len(q.find_effect(f"self.{h.name}(ANY_)")) == 1))
            c_ok = c_ok and kinds == {"absent", "present"}
            ok = (a is not None and [a["L_src"], a["L_dst"]] == [x.arg for x in dl.args.args[1:3]]) or b is not None or c_ok
            ctx.check(ok, "C04.R3", "Hugr.delete_link addresses exactly one link", file, dl.lineno,
                      "delete_link(src, dst) must remove the link at the sub-offset where dst appears among linked_ports(src), and do nothing if absent", dl)


def tmatch_for(loop, iter_tmpl):
    from ..tmpl import T, tmatch
    return tmatch(loop.iter, T(iter_tmpl))


def r4_deletion_complete(ctx, hugr, file) -> None:
    from ..tmpl import T, tmatch
    dn_o, _, _ = ctx.locate(f"{HQ}.delete_node")
    dn = ctx.cfn(f"{HQ}.delete_node")
    for direction, mk, d in (("incoming", "inp", "bck"), ("outgoing", "out", "fwd")):
        ok = False
        why = ""
        for lp in [n for n in ast.walk(dn) if isinstance(n, ast.For)]:
            it = u(lp.iter)
            cnt = f"num_{'in' if direction == 'incoming' else 'out'}_ports"
            e = tmatch(lp.iter, T(f"range(-1, self.{cnt}(L_n))")) or tmatch(lp.iter, T(f"range(-1, self.num_ports(L_n, Direction.{direction.upper()}))"))
            if e is not None and isinstance(lp.target, ast.Name):
                o = lp.target.id
                for w in [x for x in ast.walk(lp) if isinstance(x, ast.While)]:
                    if tmatch(w.test, T(f"(L_s := _SubPort({e['L_n']}.{mk}({o}))) in self._links.{d}")) is not None or \
                            tmatch(w.test, T(f"_SubPort({e['L_n']}.{mk}({o})) in self._links.{d}")) is not None:
                        # the loop body removes a link on every iteration (otherwise it would not terminate / not drain)
                        if any(call_name(c) in ("_remove_sub_link", "delete_link") or (call_name(c) in ("delete_left", "delete_right") and "_links" in u(c.func)) for c in calls_in(w)):
                            ok = True
            # iterator-style removal: must not discard the list of linked ports and must reach the order port separately
            if f"{direction}_links(" in it:
                tg = lp.target
                discards = isinstance(tg, ast.Tuple) and any(isinstance(x, ast.Name) and x.id == "_" for x in tg.elts)
                why = f"iterates {it}" + (" discarding the list of linked ports (only sub-offset 0 is removed)" if discards else "") + \
                      ", which covers ports 0..n-1 but not the order port -1 and raises KeyError on an unconnected port"
        ctx.check(ok, "C04.R4", f"Hugr.delete_node: all {direction} links removed", file, dn_o.lineno,
                  f"delete_node must remove every link on every {direction} port of the node, including the order port (-1) and every "
                  f"sub-offset of a multiply-linked port; {why or 'no draining loop over range(-1, num_ports) found'}: surviving links dangle "
                  "from a freed index", dn_o, detail=f"range(-1, n) x drain while sub-port in _links.{d}")


def r5_pure_queries(ctx, hugr, file) -> None:
    impure_cache: dict[str, bool] = {}

    def impure(name, depth=0) -> ast.AST | None:
        k, m = hugr.find_method(name)
        if m is None or depth > 6:
            return None
        for n in walk_no_nested(m):
            if isinstance(n, (ast.Assign, ast.AugAssign, ast.AnnAssign)):
                tgs = n.targets if isinstance(n, ast.Assign) else [n.target]
                for t in tgs:
                    for e in (t.elts if isinstance(t, ast.Tuple) else [t]):
                        if isinstance(e, (ast.Attribute, ast.Subscript)):
                            return n
            if isinstance(n, ast.Delete):
                return n
            if isinstance(n, ast.Call) and isinstance(n.func, ast.Attribute):
                a = n.func.attr
                if a in LIST_MUT | BIMAP_MUT and not (a == "pop" and False):
                    # local list building (e.g. out.append) is fine: receiver must be a plain local name assigned in this function
                    recv = n.func.value
                    if isinstance(recv, ast.Name) and any(isinstance(s, ast.Assign) and isinstance(s.targets[0], ast.Name) and s.targets[0].id == recv.id for s in ast.walk(m)):
                        continue
                    return n
                if a in HUGR_MUT:
                    return n
                if isinstance(n.func.value, ast.Name) and n.func.value.id == "self" and a in hugr.methods and a not in HUGR_MUT:
                    sub = impure(a, depth + 1)
                    if sub is not None:
                        return n
        return None
    for q in QUERIES:
        k, m = hugr.find_method(q)
        if m is None:
            ctx.broken(f"anchor vanished: Hugr.{q}")
        bad = impure(q)
        ctx.check(bad is None, "C04.R5", f"Hugr.{q}: pure", file, (bad or m).lineno,
                  f"query {q} changes the store (`{u(bad)[:80] if bad else ''}`): queries must not disturb what later queries report", bad or m)


ROWS = [
    # method, expected expression over self and the method's parameters
    ("outgoing_order_links", "(p.node for p in self.linked_ports(node.out(-1)))", "order successors are the nodes linked to out(-1)"),
    ("incoming_order_links", "(p.node for p in self.linked_ports(node.inp(-1)))", "order predecessors are the nodes linked to inp(-1)"),
    ("has_link", "dst in self.linked_ports(src)", "a link exists iff dst is among the ports linked to src"),
    ("links", "((src.port, tgt.port) for src, tgt in self._links.items())", "links() reports every entry of the link map once as (out port, in port)"),
    ("num_ports", "self.num_in_ports(node) if direction == Direction.INCOMING else self.num_out_ports(node)", "port count by direction"),
    ("num_in_ports", "self[node]._num_inps", "incoming port count"),
    ("num_out_ports", "self[node]._num_outs", "outgoing port count"),
    ("children", "self[node or self.root].children", "ordered children of a node (root by default)"),
    ("num_nodes", "len(self._nodes) - len(self._free_nodes)", "slots minus free slots"),
    ("num_incoming", "sum(1 for _ in self.incoming_links(node))", "number of incoming ports listed"),
    ("num_outgoing", "sum(1 for _ in self.outgoing_links(node))", "number of outgoing ports listed"),
    ("__len__", "self.num_nodes()", "len is the node count"),
    ("nodes", "self.items()", "nodes() iterates (node, data) pairs"),
]


def lookup_rule(ctx, hugr, file, rule="C04.R2") -> None:
    """hugr[node] of an index that was never allocated is a KeyError (Mapping protocol: `in`, get, the queries): the table is read
    inside a try that turns IndexError into the absent case, or under a test that the index is below the table's length"""
    q = f"{HQ}.__getitem__"
    fn, mod, _ = ctx.locate(q)
    cf = ctx.cfn(q, subst=False)
    kp = fn.args.args[1].arg
    reads = [n for n in ast.walk(cf) if isinstance(n, ast.Subscript) and u(n.value) == "self._nodes" and isinstance(n.ctx, ast.Load)]
    protected = set()
    for t in [n for n in ast.walk(cf) if isinstance(n, ast.Try)]:
        if any(h.type is None or any(x in u(h.type) for x in ("IndexError", "LookupError", "Exception")) for h in t.handlers):
            for b in t.body:
                protected |= {id(n) for n in ast.walk(b)}
    ok = bool(reads)
    why = ""
    if any(id(r) not in protected for r in reads):
        accepted = {(f"{kp}.idx < len(self._nodes)", True), (f"{kp}.idx >= len(self._nodes)", False), (f"len(self._nodes) > {kp}.idx", True), (f"len(self._nodes) <= {kp}.idx", False)}
        for p in ctx.paths(q):
            if p.kind == "raise" and "KeyError" in p.value_text():
                continue
            if not any((u(t), k) in accepted for t, k in p.tests):
                ok = False
                why = p.describe()[:160]
                break
    ctx.check(ok, rule, "Hugr.__getitem__: unallocated index is a KeyError", file, fn.lineno,
              "the node table is indexed outside a try that catches IndexError and without the test `idx < len(self._nodes)`: the index one past "
              "the end (or beyond) raises IndexError instead of KeyError, so `node in hugr` and `hugr.get(node)` raise for it" + (f" [{why}]" if why else ""), fn)


def r7_listings(ctx, hugr, file) -> None:
    """the per-node listings alone (for properties that search them): outgoing_links / incoming_links enumerate the value ports 0..n-1"""
    for name, table, direction in (("outgoing_links", "self._links.fwd", "Direction.OUTGOING"), ("incoming_links", "self._links.bck", "Direction.INCOMING")):
        m = hugr.methods.get(name)
        if m is None:
            ctx.broken(f"anchor vanished: Hugr.{name}")
        ok, why = _listing_rule(ctx, name, table, direction)
        ctx.check(ok, "C04.R7", f"Hugr.{name}", file, m.lineno,
                  f"Hugr.{name} must enumerate ports 0..n-1 of {direction}, each with all the ports linked to it in {table}" + (f" [{why}]" if why else ""), m)


def r6_r7_tables(ctx, hugr, file, only=None) -> None:
    """only: restrict to these query rows (for properties that rely on a few queries) and skip the add_link / direction rules"""
    from ..nf import NF, Env, Opaque, show, sym
    nf = NF(ctx.program)
    nf._self_exact = True
    for name, expr, why in ROWS:
        if only is not None and name not in only:
            continue
        k, m = hugr.find_method(name)
        if m is None:
            ctx.broken(f"anchor vanished: Hugr.{name}")
        try:
            nf.inline_symbolic = False
            got, env = _nf_no_inline(nf, hugr, name)
            want = _expr_no_inline(nf, hugr, expr, m)
        except Opaque as e:
            if any(f.rule == "C04.R5" and f.construct == f"Hugr.{name}: pure" for f in ctx.findings):
                continue        # already reported as an impure query
            ctx.broken(f"Hugr.{name} not normalisable: {e}")
        if got != want:
            # the canonical body (unknown private helpers seen through, idioms normalised) may say the same in one expression
            try:
                cb = ctx.cfn(f"{HQ}.{name}").body
                if len(cb) == 1 and isinstance(cb[0], ast.Return) and cb[0].value is not None:
                    got2 = _expr_no_inline(nf, hugr, u(cb[0].value), m)
                    if got2 == want:
                        got = got2
            except Opaque:
                pass
        ctx.check(got == want, "C04.R7", f"Hugr.{name}", file, m.lineno, f"Hugr.{name} must be `{expr}` ({why})", m, expected=show(want), found=show(got), detail=show(got)[:160])
    if only is not None and "add_link" not in only:
        return
    al = hugr.methods.get("add_link")
    if al is None:
        ctx.broken("anchor vanished: Hugr.add_link")
    env = Env(hugr.module, hugr, {"self": sym("self"), "src": sym("src"), "dst": sym("dst")}, {})
    for st in real_body(al):
        if isinstance(st, ast.Assign) and len(st.targets) == 1 and isinstance(st.targets[0], ast.Name):
            env.vars[st.targets[0].id] = _ev_plain(nf, st.value, env)
    # every way out of add_link leaves both counts at max(old, offset + 1) (path summaries: early exits and guarded stores count)
    al_paths = [p for p in ctx.paths(f"{HQ}.add_link") if p.kind in ("fall", "return")]
    if not al_paths:
        ctx.broken("Hugr.add_link: no completing path")
    for who, fld in (("src", "_num_outs"), ("dst", "_num_inps")):
        old, new = f"self[{who}.node].{fld}", f"{who}.offset + 1"
        grows = [(f"{old} < {new}", True), (f"{new} <= {old}", False), (f"{old} <= {who}.offset", True), (f"{who}.offset < {old}", False)]
        bad = None
        for p in al_paths:
            st = p.find_effect(f"{old} = E_v")
            if st:
                v = st[-1][2]["E_v"]
                if v in (f"max({old}, {new})", f"max({new}, {old})"):
                    continue
                if v == new and any(p.has_test(t, k) is not None for t, k in grows):
                    continue
                bad = (p, f"stores {v}")
            elif any(p.has_test(t, not k) is not None for t, k in grows):
                continue
            else:
                bad = (p, "no store")
            break
        ctx.check(bad is None, "C04.R6", f"Hugr.add_link: {who} port count grows monotonically", file, al.lineno,
                  f"after add_link the {who} node's port count must be max(old count, offset + 1) on every way out: never below the highest offset in use "
                  "plus one, never lowered" + (f" [path {bad[0].describe()}: {bad[1]}]" if bad else ""), bad[0].node if bad and bad[0].node is not None else al,
                  expected=f"{old} = max({old}, {new})", found=bad[1] if bad else "")
    ins = [c for c in calls_in(al) if call_name(c) in ("insert_left", "insert_right", "__setitem__")]
    ok = len(ins) == 1
    if ok:
        a = [_ev_plain(nf, x, env) for x in ins[0].args]
        ws = _ev_plain(nf, ast.parse("self._unused_sub_offset(src)", mode="eval").body, env)
        wd = _ev_plain(nf, ast.parse("self._unused_sub_offset(dst)", mode="eval").body, env)
        ok = (call_name(ins[0]) == "insert_left" and a == [ws, wd]) or (call_name(ins[0]) == "insert_right" and a == [wd, ws])
    ctx.check(ok, "C04.R7", "Hugr.add_link: new link at the first free sub-offset of both ports", file, al.lineno,
              "add_link must insert (first unused sub-port of src) -> (first unused sub-port of dst); anything else overwrites an existing link or leaves a gap", al)
    order_link_rule(ctx, "C04.R6")
    if only is not None:
        return
    # direction tables (path summaries: match / isinstance / conditional expressions look the same)
    for name in ("_unused_sub_offset", "linked_ports"):
        m, _, _ = ctx.locate(f"{HQ}.{name}")
        pp = m.args.args[1].arg
        arms = {}
        for p in ctx.paths(f"{HQ}.{name}"):
            cls_t = [t for t, k in p.tests if k and isinstance(t, ast.Call) and u(t.func) == "isinstance" and u(t.args[0]) == pp]
            if not cls_t or p.kind == "raise":
                continue
            txt = " ".join(p.effect_texts()) + " " + p.value_text()
            which = {x for x in ("fwd", "bck") if f"self._links.{x}" in txt}
            arms.setdefault(u(cls_t[-1].args[1]), set()).update(which or {"?"})
        got = {k: "/".join(sorted(v)) for k, v in arms.items()}
        ctx.check(got == {"OutPort": "fwd", "InPort": "bck"}, "C04.R7", f"Hugr.{name}: direction table", file, m.lineno,
                  f"{name} must consult the forward map for out-ports and the backward map for in-ports", m, expected="OutPort->fwd, InPort->bck", found=str(got))
    # per-node listings, stated on the public entry points with the private enumeration helper(s) seen through (canonical body):
    #   [guard: nothing listed while the map is empty]  for o in range(num_ports(node, D)): yield (node.port(o, D), [*_linked_ports(node.port(o, D), MAP)])
    # with MAP the forward map and D = OUTGOING for outgoing_links, the backward map and INCOMING for incoming_links; D may be
    # read off the map's first key (the keys of fwd are out-ports, those of bck in-ports: BiMap[_SubPort[OutPort], _SubPort[InPort]])
    ann = [f for f in hugr.fields if f.name == "_links"]
    def expand_alias(e):
        class A(ast.NodeTransformer):
            def visit_Name(self, n):
                v = hugr.module.assigns.get(n.id)
                return copy.deepcopy(v) if isinstance(v, ast.Subscript) else n
        return u(A().visit(copy.deepcopy(e)))
    if not ann or expand_alias(ann[0].node.annotation) != "BiMap[_SubPort[OutPort], _SubPort[InPort]]":
        ctx.broken("Hugr._links is no longer declared BiMap[_SubPort[OutPort], _SubPort[InPort]]")
    for name, table, direction in (("outgoing_links", "self._links.fwd", "Direction.OUTGOING"), ("incoming_links", "self._links.bck", "Direction.INCOMING")):
        m = hugr.methods.get(name)
        if m is None:
            ctx.broken(f"anchor vanished: Hugr.{name}")
        ok, why = _listing_rule(ctx, name, table, direction)
        ctx.check(ok, "C04.R7", f"Hugr.{name}", file, m.lineno,
                  f"Hugr.{name} must enumerate ports 0..n-1 of {direction}, each with all the ports linked to it in {table}" + (f" [{why}]" if why else ""), m)
    lp = hugr.methods.get("_linked_ports")
    is_static = any(u(d) == "staticmethod" for d in lp.decorator_list)       # (a helper that reads nothing of the HUGR may be static)
    pa = [a.arg for a in (lp.args.args[0:2] if is_static else lp.args.args[1:3])]
    w = _prefix_walk(ctx, f"{HQ}._linked_ports")
    ok = False
    if w is not None and len(pa) == 2:
        port_t, map_t, body, k, (blk, i), cf = w
        # .. yielding, for each occupied sub-offset in turn, the port of the entry found there -- and nothing else
        ok = port_t == pa[0] and map_t == pa[1] and len(body) == 1 and u(body[0]) == f"yield {pa[1]}[_SubPort({pa[0]}, {k})].port" \
            and len([n for n in ast.walk(cf) if isinstance(n, (ast.Yield, ast.YieldFrom))]) == 1 and blk is cf.body and len(cf.body) == 2
    ctx.check(ok, "C04.R7", "Hugr._linked_ports", file, lp.lineno, "linked ports are the entries at sub-offsets 0,1,.. of the port, in order", lp)
    us = hugr.methods.get("_unused_sub_offset")
    w = _prefix_walk(ctx, f"{HQ}._unused_sub_offset")
    ok = False
    if w is not None and us is not None:
        port_t, map_t, body, k, (blk, i), cf = w
        pp = us.args.args[1].arg
        after = blk[i + 1:]
        # the first sub-offset without an entry in the map of the port's direction (which map: the direction table rule above)
        ok = port_t == pp and not body and len(after) == 1 and u(after[0]) == f"return _SubPort({pp}, {k})" and blk is cf.body
    ctx.check(ok, "C04.R7", "Hugr._unused_sub_offset: first free sub-offset", file, us.lineno if us else 1,
              "the allocator returns the lowest sub-offset of the port that has no entry (sub-offsets in use stay a gap-free prefix)", us)
    nd = ctx.program.cls(f"{BASE}.NodeData")
    f = nd.find_field("children")
    ctx.check(f is not None and f.default_factory is not None and u(f.default_factory) == "list", "C04.R7", "NodeData.children: fresh list per node", nd.module.path,
              f.node.lineno if f else 1, "each node needs its own child list", f.node if f else None)


def _listing_rule(ctx, name, table, direction):
    cf = ctx.cfn(f"{HQ}.{name}", inline=("_node_links",))
    node = cf.args.args[1].arg
    defs = {}          # simple local definitions (aliases of the map, the direction read off its first key)
    for n in ast.walk(cf):
        if isinstance(n, ast.Assign) and len(n.targets) == 1 and isinstance(n.targets[0], ast.Name):
            defs.setdefault(n.targets[0].id, []).append(n.value)

    def val(e):
        """e with the locals that have one simple definition replaced by it"""
        from .. import norm
        e = copy.deepcopy(e)
        for _ in range(4):
            m = {n.id: defs[n.id][0] for n in ast.walk(e) if isinstance(n, ast.Name) and len(defs.get(n.id, [])) == 1}
            if not m:
                break
            e = norm._Subst(m).visit(e)
        return u(e)

    first_key = [f"next(iter({table}{k}){d})" for k in ("", ".keys()") for d in ("", ", None")]

    def is_dir(e):
        t = val(e)
        return t == direction or t in [f"{k}.port.direction" for k in first_key]
    loops = [n for n in ast.walk(cf) if isinstance(n, (ast.For, ast.While))]
    if len(loops) != 1 or not isinstance(loops[0], ast.For) or not isinstance(loops[0].target, ast.Name):
        return False, "expected one loop over the port offsets"
    lp = loops[0]
    o = lp.target.id
    e = tmatch(lp.iter, T(f"range(self.num_ports({node}, E_dir))"))
    if e is None:
        return False, f"the loop runs over `{u(lp.iter)}`"
    e2 = tall(lp.body, [f"L_p = {node}.port({o}, E_d2)", "yield (L_p, [*self._linked_ports(L_p, E_links)])"]) or \
        tall(lp.body, [f"yield ({node}.port({o}, E_d2), [*self._linked_ports({node}.port({o}, E_d2), E_links)])"])
    if e2 is None or len(lp.body) > 2:
        return False, "loop body is not `yield (port, [*linked ports of port])`"
    dirs = [ast.parse(e["E_dir"], mode="eval").body, ast.parse(e2["E_d2"], mode="eval").body]
    if not all(is_dir(d) for d in dirs):
        return False, f"direction {[val(d) for d in dirs]}"
    if val(ast.parse(e2["E_links"], mode="eval").body) != table:
        return False, f"linked ports are looked up in {val(ast.parse(e2['E_links'], mode='eval').body)}"
    # nothing else yields / returns a value; the loop is reached on every path except an early `return` for an empty map
    ys = [n for n in ast.walk(cf) if isinstance(n, (ast.Yield, ast.YieldFrom))]
    if len(ys) != 1 or any(isinstance(n, ast.Return) and n.value is not None for n in ast.walk(cf)):
        return False, "other yields / returns"
    from ..paths import summaries
    for p in summaries(cf.body, 64):
        if p.kind == "raise":
            return False, "a path raises"
        if any(isinstance(x, ast.For) and any(isinstance(y, ast.Yield) for y in ast.walk(x)) for x in p.effects):
            continue
        # a path that skips the loop: only because the map is empty
        empty = any(val(t) == table and not k for t, k in p.tests) or \
            any(isinstance(t, ast.Call) and u(t.func) == "except_" and "StopIteration" in u(t) for t, k in p.tests) or \
            any(val(t) in (f"len({table}) == 0", f"0 == len({table})") and k for t, k in p.tests) or \
            any(val(t) in [f"{fk} is not None" for fk in first_key if fk.endswith("None)")] and not k for t, k in p.tests)
        if not empty:
            return False, "a path lists nothing although the map is not empty: " + p.describe()[:160]
    return True, ""


def order_link_rule(ctx, rule: str) -> None:
    """path summaries: the link out(-1) -> inp(-1) is added exactly on the paths where has_link says it is absent"""
    ao, m, _ = ctx.locate(f"{HQ}.add_order_link")
    a = [x.arg for x in ao.args.args[1:3]]
    if len(a) != 2:
        ctx.broken("Hugr.add_order_link: expected (self, src, dst)")
    src, dst = a
    present = f"self.has_link({src}.out(-1), {dst}.inp(-1))"
    ps = [p for p in ctx.paths(f"{HQ}.add_order_link") if p.kind in ("fall", "return")]
    ok = bool(ps)
    seen = set()
    why = ""
    for p in ps:
        links = p.find_effect("self.add_link(E_a, E_b)")
        known = [k for t, k in p.tests if u(t) == present]
        if not known:
            ok, why = False, "a path does not ask has_link(src.out(-1), dst.inp(-1)): " + p.describe()
        elif known[0]:
            seen.add("present")
            if links:
                ok, why = False, "the link is added although it exists"
        else:
            seen.add("absent")
            if len(links) != 1 or (links[0][2]["E_a"], links[0][2]["E_b"]) != (f"{src}.out(-1)", f"{dst}.inp(-1)"):
                ok, why = False, "on the absent path the link added is " + " | ".join(u(n) for _, n, _ in links)
    ctx.check(ok and seen == {"present", "absent"}, rule, "Hugr.add_order_link", m.path, ao.lineno,
              "an order link joins src.out(-1) to dst.inp(-1) and is added only if not yet present" + (f" [{why}]" if why else ""), ao)


def _ev_plain(nf, e, env):
    """evaluate without inlining method bodies (structure only)"""
    old = nf.is_concrete
    try:
        nf.is_concrete = lambda c: False
        nf._self_exact = False
        return nf.ev(e, env)
    finally:
        nf.is_concrete = old
        nf._self_exact = True


def _nf_no_inline(nf, cls, name):
    old = nf.is_concrete
    try:
        nf.is_concrete = lambda c: False
        nf._self_exact = False
        return nf.method_nf(cls, name)
    finally:
        nf.is_concrete = old
        nf._self_exact = True


def _expr_no_inline(nf, cls, expr, m):
    from ..nf import sym
    old = nf.is_concrete
    try:
        nf.is_concrete = lambda c: False
        nf._self_exact = False
        extra = {a.arg: sym(a.arg) for a in m.args.args[1:]}
        return nf.expr_nf(expr, cls, extra=extra)[0]
    finally:
        nf.is_concrete = old
        nf._self_exact = True


def run(ctx) -> None:
    ctx.rule("C04.R1", "node table, free list, link map, child lists and port counters are written only by methods of Hugr (aliases and children() results followed)", floor=3)
    ctx.rule("C04.R2", "slot/free-list/children pairing in delete_node and _add_node; node count; free slots skipped / rejected", floor=9)
    ctx.rule("C04.R3", "dense sub-offsets: every removal from the link map closes the gap on both ports (single helper); delete_link addresses exactly one link", floor=3)
    ctx.rule("C04.R4", "delete_node removes every link of every port incl. the order port and all sub-offsets", floor=2)
    ctx.rule("C04.R5", "query methods are pure (effect analysis, transitive over self calls)", floor=25)
    ctx.rule("C04.R6", "port counts grow monotonically in add_link; order links are unique out(-1)->inp(-1)", floor=3)
    ctx.rule("C04.R7", "direction <-> dictionary tables and the listing methods", floor=15)
    hugr = ctx.program.cls(f"{BASE}.Hugr")
    file = hugr.module.path
    r1_who_may_write(ctx)
    r2_pairing(ctx, hugr, file)
    lookup_rule(ctx, hugr, file)
    parentless_nodes_rule(ctx, hugr, file)
    r3_dense_suboffsets(ctx, hugr, file)
    r4_deletion_complete(ctx, hugr, file)
    r5_pure_queries(ctx, hugr, file)
    r6_r7_tables(ctx, hugr, file)
    # insert_hugr is one of the history operations: its code-shape rules are shared with C08
    from .c08 import insert_core
    ctx.rule("C04.R8", "insert_hugr copies every node (op, mapped parent, count, metadata) and every link through the mapping, parents first by hierarchy, source untouched (shared with C08)", floor=10)
    insert_core(ctx, R1="C04.R8", R2="C04.R8", R3="C04.R8", R4="C04.R8")
    from .. import lints
    lints.arm(ctx)



# ---------------------------------------------------------------------------------------
B = "hugr-py/src/hugr/hugr/base.py"
D = "hugr-py/src/hugr/build/dfg.py"
R = "hugr-py/src/hugr/hugr/render.py"
MUTANTS = [
    dict(name="outside-writer-children", file=R, expect="C04.R1", old="        if hugr.children(node):", new="        hugr.children(node).sort()\n        if hugr.children(node):"),
    dict(name="outside-writer-links", file=D, expect="C04.R1", old="        self.hugr.add_order_link(src, dst)", new="        self.hugr._links.insert_left(src.out(-1), dst.inp(-1))  # type: ignore[arg-type]"),
    dict(name="outside-writer-count", file=D, expect="C04.R1", old="        self.parent_node = self.hugr._update_node_outs(self.parent_node, count)", new="        self.hugr[self.parent_node]._num_outs = count"),
    dict(name="free-without-clear", file=B, expect="C04.R2", old="        weight, self._nodes[node.idx] = self._nodes[node.idx], None\n", new="        weight = self._nodes[node.idx]\n"),
    dict(name="clear-without-free", file=B, expect="C04.R2", old="        self._free_nodes.append(node)\n        return weight", new="        return weight"),
    dict(name="not-detached-from-parent", file=B, expect="C04.R2", old="        if parent:\n            self[parent].children.remove(node)\n", new=""),
    dict(name="reuse-without-store", file=B, expect="C04.R2", old="            node = self._free_nodes.pop()\n            self._nodes[node.idx] = node_data", new="            node = self._free_nodes.pop()\n            self._nodes.append(node_data)"),
    dict(name="fresh-index-off-by-one", file=B, expect="C04.R2", old="            node = Node(len(self._nodes), {})", new="            node = Node(len(self._nodes) + 1, {})"),
    dict(name="child-not-registered", file=B, expect="C04.R2", old="        if parent:\n            self[parent].children.append(node)\n", new=""),
    dict(name="count-ignores-free", file=B, expect=["C04.R7", "C04.R2"], old="        return len(self._nodes) - len(self._free_nodes)", new="        return len(self._nodes)"),
    dict(name="raw-delete-in-delete-link", file=B, expect="C04.R3", old="        self._remove_sub_link(_SubPort(src, sub_offset))", new="        self._links.delete_left(_SubPort(src, sub_offset))"),
    dict(name="helper-shifts-one-side", file=B, expect="C04.R3",
         old="        while later_dst in self._links.bck:\n            origin = self._links.bck[later_dst]\n            self._links.delete_right(later_dst)\n            self._links.insert_left(origin, dst_sub)\n            dst_sub, later_dst = later_dst, later_dst.next_sub_offset()\n", new=""),
    dict(name="delete-link-first-always", file=B, expect="C04.R3", old="                i for i, inp in enumerate(self.linked_ports(src)) if inp == dst", new="                i for i, inp in enumerate(self.linked_ports(src))"),
    dict(name="delete-node-no-order-port", file=B, expect="C04.R4", old="        for offset in range(-1, self.num_in_ports(node)):", new="        for offset in range(self.num_in_ports(node)):"),
    dict(name="delete-node-single-suboffset", file=B, expect="C04.R4", old="            while (out_sub := _SubPort(node.out(offset))) in self._links.fwd:\n                self._remove_sub_link(out_sub)",
         new="            if (out_sub := _SubPort(node.out(offset))) in self._links.fwd:\n                self._remove_sub_link(out_sub)"),
    dict(name="delete-node-outgoing-forgotten", file=B, expect="C04.R4", old="        for offset in range(-1, self.num_out_ports(node)):\n            while (out_sub := _SubPort(node.out(offset))) in self._links.fwd:\n                self._remove_sub_link(out_sub)\n", new=""),
    dict(name="query-mutates", file=B, expect="C04.R5", old="        return dst in self.linked_ports(src)", new="        self[src.node]._num_outs = max(self[src.node]._num_outs, src.offset + 1)\n        return dst in self.linked_ports(src)"),
    dict(name="query-consumes-free-list", file=B, expect=["C04.R5", "C04.R7"], old="        return len(self._nodes) - len(self._free_nodes)", new="        return len(self._nodes) - len(self._free_nodes) + (0 if not self._free_nodes else 0 * len([self._free_nodes.pop()]))"),
    dict(name="port-count-overwritten", file=B, expect="C04.R6", old="        self[src.node]._num_outs = max(self[src.node]._num_outs, src.offset + 1)", new="        self[src.node]._num_outs = src.offset + 1"),
    dict(name="port-count-off-by-one", file=B, expect="C04.R6", old="        self[dst.node]._num_inps = max(self[dst.node]._num_inps, dst.offset + 1)", new="        self[dst.node]._num_inps = max(self[dst.node]._num_inps, dst.offset)"),
    dict(name="order-link-duplicated", file=B, expect="C04.R6", old="        if not self.has_link(source, target):\n            self.add_link(source, target)", new="        self.add_link(source, target)"),
    dict(name="order-link-wrong-port", file=B, expect="C04.R6", old="        target = dst.inp(-1)", new="        target = dst.inp(0)"),
    dict(name="linked-ports-skip-first", file=B, expect="C04.R7", old="        sub_port = _SubPort(port)\n        while sub_port in links:\n            # sub offset not used in API",
         new="        sub_port = _SubPort(port, 1)\n        while sub_port in links:\n            # sub offset not used in API"),
    dict(name="allocator-no-walk", file=B, expect="C04.R7", old="        sub_port = _SubPort(port)\n        while sub_port in d:\n            sub_port = sub_port.next_sub_offset()\n        return sub_port",
         new="        return _SubPort(port, len(d))"),
    dict(name="sub-offset-steps-by-two", file="hugr-py/src/hugr/hugr/node_port.py", expect="C04.R7", old="        return replace(self, sub_offset=self.sub_offset + 1)",
         new="        return replace(self, sub_offset=self.sub_offset + 2)"),
    dict(name="link-at-suboffset-zero", file=B, expect="C04.R7", old="        dst_sub = self._unused_sub_offset(dst)", new="        dst_sub = _SubPort(dst)"),
    dict(name="direction-table-crossed", file=B, expect="C04.R7", old="            case OutPort(_):\n                return self._linked_ports(port, self._links.fwd)\n            case InPort(_):\n                return self._linked_ports(port, self._links.bck)",
         new="            case OutPort(_):\n                return self._linked_ports(port, self._links.bck)\n            case InPort(_):\n                return self._linked_ports(port, self._links.fwd)"),
    dict(name="incoming-from-fwd", file=B, expect="C04.R7", old="        return self._node_links(node, self._links.bck)", new="        return self._node_links(node, self._links.fwd)"),
    dict(name="order-links-port-zero", file=B, expect="C04.R7", old="        return (p.node for p in self.linked_ports(node.out(-1)))", new="        return (p.node for p in self.linked_ports(node.out(0)))"),
    dict(name="links-swapped", file=B, expect="C04.R7", old="        return ((src.port, tgt.port) for src, tgt in self._links.items())", new="        return ((tgt.port, src.port) for src, tgt in self._links.items())"),
    dict(name="has-link-reversed", file=B, expect="C04.R7", old="        return dst in self.linked_ports(src)", new="        return any(True for _ in self.linked_ports(src))"),
    dict(name="linked-ports-stop-early", file=B, expect="C04.R7", old="            yield links[sub_port].port\n            sub_port = sub_port.next_sub_offset()", new="            yield links[sub_port].port\n            return"),
    dict(name="children-default-none", file=B, expect="C04.R7", old="        node = node or self.root\n        return self[node].children", new="        return self[node or self.root].children[:1]"),
]
TWINS = [
    dict(name="twin-children-one-line", file=B, old="        node = node or self.root\n        return self[node].children", new="        return self[node or self.root].children"),
    dict(name="twin-max-args-swapped", file=B, old="        self[src.node]._num_outs = max(self[src.node]._num_outs, src.offset + 1)", new="        self[src.node]._num_outs = max(src.offset + 1, self[src.node]._num_outs)"),
    dict(name="twin-links-local", file=B, old="        return ((src.port, tgt.port) for src, tgt in self._links.items())", new="        pairs = self._links.items()\n        return ((src.port, tgt.port) for src, tgt in pairs)"),
    dict(name="twin-num-ports-if", file=B, old="        return (\n            self.num_in_ports(node)\n            if direction == Direction.INCOMING\n            else self.num_out_ports(node)\n        )",
         new="        n_in = self.num_in_ports(node)\n        return n_in if direction == Direction.INCOMING else self.num_out_ports(node)"),
]


def thorough(ctx):
    from ..selftest import run_battery
    return run_battery(ctx, MUTANTS, TWINS)
