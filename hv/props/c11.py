"""C11 -- extension resolution is conservative, idempotent and invisible on the wire.

R1 structural recursion of `resolve`; R2 conservative lookups; R3 invisible on the wire (CODEC through the
registry axioms); R4 invisible in the model export; R5 Hugr.resolve_extensions is a total, idempotent map.
"""
from __future__ import annotations

import ast

from ..model import Class, calls_in, call_name, is_stub, real_body, u
from ..nf import NF, Env, Opaque, attr, ctor_args, fill_defaults, find_calls, show, sym

ALREADY_RESOLVED = {
    "hugr.tys.ExtType": "definition-backed form: produced by Opaque.resolve with resolved arguments",
    "hugr.tys.UnitSum": "contains no types",
}


def rewrite(t):
    """registry / owner axioms used to relate a resolved form to the opaque form it came from:
       registry.get_extension(n).name = n;  ext.get_op(n).name = n, ._extension = ext (C10.R2); same for get_type"""
    if not isinstance(t, tuple) or not t:
        return t
    t = tuple(rewrite(x) if isinstance(x, tuple) else x for x in t)
    if t[0] == "attr" and isinstance(t[1], tuple) and t[1] and t[1][0] == "call":
        c = t[1]
        if c[1] in (".get_op", ".get_type") and len(c[2]) == 2:
            if t[2] == "name":
                return c[2][1]
            if t[2] == "_extension":
                return c[2][0]
        if c[1] == ".get_extension" and len(c[2]) == 2 and t[2] == "name":
            return c[2][1]
    if t[0] == "call" and t[1] == ".get_extension" and len(t[2]) == 1 and t[2][0][0] == "call" and t[2][0][1] in (".get_op", ".get_type"):
        return t[2][0][2][0]        # def.get_extension() of a looked-up definition is the extension it was looked up in
    if t[0] == "ite" and t[1][0] == "call" and t[1][1] == ".get_extension":
        return t[2]
    return t


def strip_resolve(t):
    """x.resolve(registry) ~ x  and  [v.resolve(registry) for v in xs] ~ xs   (equality modulo resolution)"""
    if not isinstance(t, tuple) or not t:
        return t
    t = tuple(strip_resolve(x) if isinstance(x, tuple) else x for x in t)
    if t[0] == "call" and t[1] == ".resolve" and len(t[2]) == 2:
        return t[2][0]
    if t[0] == "map" and t[1][0] == "lam" and t[1][2] == t[1][1]:
        return t[2]
    if t[0] == "ctor":
        # eta after stripping (FunctionType(input=x.input, ...) ~ x)
        args = dict(t[2])
        bases = {v[1] for v in args.values() if v[0] == "attr"}
        if len(bases) == 1 and all(v[0] == "attr" and v[2] == p for p, v in args.items()) and len(args) >= 2:
            return bases.pop()
    return t


def recursive_kind(nf, cls: Class, f):
    """None, or a Python expression template producing the resolved value of field f"""
    ty = nf.ann_type(f.owner.module, f.node.annotation)
    depth = 0
    while isinstance(ty, tuple) and ty[0] == "list":
        ty = ty[1]
        depth += 1
    if not isinstance(ty, Class):
        return None
    k, m = ty.find_method("resolve")
    if m is None:
        return None
    if depth == 0:
        return f"self.{f.name}.resolve(registry)"
    if depth == 1:
        return f"[v.resolve(registry) for v in self.{f.name}]"
    if depth == 2:
        return f"[[v.resolve(registry) for v in r] for r in self.{f.name}]"
    return None


def r1_wire_form_kept(ctx) -> None:
    """a class with its own wire form (it overrides _to_serial below the class whose resolve it inherits) must not be rebuilt as that
    base class by resolution: UnitSum is written {"s":"Unit","size":n}, a Sum rebuilt from it {"s":"General","rows":[[],..]}"""
    prog = ctx.program
    for mn, base in (("hugr.tys", "Type"), ("hugr.tys", "TypeArg"), ("hugr.tys", "TypeParam")):
        m = prog.module(mn)
        b = m.classes.get(base)
        if b is None:
            continue
        for c in m.classes.values():
            if c is b or b not in c.mro:
                continue
            ks, ms = c.find_method("_to_serial")
            kr, mr = c.find_method("resolve")
            if ks is None or kr is None or is_stub(ms):
                continue
            ok = True
            if kr is not ks and kr in ks.mro[1:]:
                # resolve comes from a strict base of the class that defines the wire form: fine only if it answers `self`
                ps = [q for q in ctx.paths(f"{kr.qualname}.resolve") if q.kind == "return"]
                ok = bool(ps) and all(q.value_text() == "self" for q in ps)
            ctx.check(ok, "C11.R1", f"{c.qualname}: keeps its wire form under resolution", c.module.path, c.node.lineno,
                      f"{c.name} is serialized by {ks.name}._to_serial but resolved by the inherited {kr.name}.resolve, which rebuilds a {kr.name}: "
                      "a resolved value is written in another form than the unresolved one", c.node,
                      detail=f"wire form from {ks.name}, resolve from {kr.name}")


def r1_structural_recursion(ctx, nf) -> None:
    r1_wire_form_kept(ctx)
    prog = ctx.program
    todo = [c for c in prog.module("hugr.tys").classes.values()] + [prog.cls("hugr.ops.Custom")]
    n = 0
    for c in todo:
        if "Protocol" in [u(b).split("[")[0] for b in c.node.bases] or not c.is_dataclass:
            continue
        # only values that resolution is defined on: types, type arguments, and the opaque operation
        if not (c.is_subclass_of("hugr.tys.Type") or c.is_subclass_of("hugr.tys.TypeArg") or c.qualname == "hugr.ops.Custom"):
            continue
        rec = [(f, recursive_kind(nf, c, f)) for f in c.all_fields()]
        rec_fields = [(f, e) for f, e in rec if e is not None]
        if not rec_fields:
            continue
        n += 1
        inst = f"{c.qualname}.resolve"
        k, m = c.find_method("resolve")
        if c.qualname in ALREADY_RESOLVED:
            ctx.ok("C11.R1", inst, "whitelisted: " + ALREADY_RESOLVED[c.qualname])
            continue
        if m is None or k.name in ("Type", "TypeArg") or is_stub(m):
            ctx.fail("C11.R1", inst, c.module.path, c.node.lineno,
                     f"{c.name} has fields that can contain opaque types ({[f.name for f, _ in rec_fields]}) but does not override resolve: "
                     "resolution stops at this level", c.node)
            continue
        if k is not c and not (c.mro[1] is k or k in c.mro):
            continue
        paths = [p for p in nf.paths(k, "resolve", self_t=sym("self")) if p[1] == "return"]
        # the path that rebuilds the value (the other returns `self`, see R2)
        rebuilt = [p for p in paths if p[2] != sym("self")]
        shortcut = [p for p in paths if p[2] == sym("self")]
        if shortcut:
            gd = " and ".join(("" if tk else "not ") + u(n)[:60] for _, tk, n in shortcut[0][0])
            ctx.fail("C11.R1", inst + ": shortcut", k.module.path, shortcut[0][3].lineno,
                     f"{c.name}.resolve returns the value unresolved on the path [{gd}] (outside the not-found handlers): opaque types inside it stay "
                     "unresolved although the registry could resolve them", shortcut[0][3])
        if not rebuilt:
            ctx.fail("C11.R1", inst, k.module.path, m.lineno, f"{c.name}.resolve never rebuilds the value", m)
            continue
        term = rebuilt[-1][2]
        env = rebuilt[-1][4]
        if term[0] != "ctor":
            ctx.fail("C11.R1", inst, k.module.path, m.lineno, f"{c.name}.resolve does not rebuild a value: {show(term)[:120]}", m)
            continue
        args = ctor_args(fill_defaults(nf, term))
        tgt = prog.cls(term[1])
        for f, expr in rec_fields:
            # the resolved form may use another field name for the same content (Opaque.args -> ExtType.args)
            got = args.get(f.name)
            want, _ = nf.expr_nf(expr, c, extra={"registry": sym("registry")})
            if tgt is not c and c.qualname == "hugr.ops.Custom" and f.name == "signature":
                got = args.get("signature")
            ok = got == want
            ctx.check(ok, "C11.R1", f"{c.qualname}.resolve:{f.name}", k.module.path, m.lineno,
                      f"resolution does not reach `{f.name}` of {c.name}: it must be rebuilt from {expr}; opaque types nested there stay unresolved", m,
                      expected=show(want), found=show(got) if got else "<not passed>", detail=show(got)[:160] if got else "")
        if tgt is c:
            for f in c.all_fields():
                if f.name in [x.name for x, _ in rec_fields] or not f.init:
                    continue
                got = args.get(f.name)
                ctx.check(got == attr(sym("self"), f.name), "C11.R1", f"{c.qualname}.resolve:{f.name}", k.module.path, m.lineno,
                          f"resolve must pass `{f.name}` through unchanged", m, expected=f"self.{f.name}", found=show(got) if got else "<default>")
    ctx.stats["C11.R1 classes with recursive fields"] = n


def r2_conservative(ctx) -> None:
    prog = ctx.program
    table = [("hugr.ops.Custom", "get_op", "self.op_name", {"OperationNotFound", "ExtensionNotFound"}),
             ("hugr.tys.Opaque", "get_type", "self.id", {"TypeNotFound", "ExtensionNotFound"})]
    for q, getter, key, excs in table:
        c = prog.cls(q)
        m = c.methods.get("resolve")
        if m is None:
            ctx.broken(f"anchor vanished: {q}.resolve")
        rp = m.args.args[1].arg
        lookup = f"{rp}.get_extension(self.extension).{getter}({key})"
        lookup_parts = {u(n) for n in ast.walk(ast.parse(lookup, mode="eval").body) if isinstance(n, ast.Call)}
        ps = ctx.paths(f"{q}.resolve")
        bail = [p for p in ps if p.kind == "return" and p.value_text() == "self"]
        resolved = [p for p in ps if p.kind == "return" and p.value_text() != "self"]
        ok = bool(bail) and bool(resolved) and len(bail) + len(resolved) == len([p for p in ps if p.kind != "raise"])
        found = ""
        names = set()
        for p in bail:
            ex = [t for t, k in p.tests if isinstance(t, ast.Call) and u(t.func) == "except_"]
            if len(ex) != 1 or not ex[0].args or len(p.tests) != 1:
                ok = False
                found = "returns self on: " + p.describe()
                continue
            tp = ex[0].args[0]
            names |= {u(e).split(".")[-1] for e in (tp.elts if isinstance(tp, ast.Tuple) else [tp])}
            tr = [e for e in p.effects if isinstance(e, ast.Try)]
            guarded = {u(x) for t in tr for b in t.body for x in ast.walk(b) if isinstance(x, ast.Call)}
            found = "; ".join(sorted(guarded))[:160]
            # inside the try there is nothing but the lookup: an exception from anything else must not be taken for "not found"
            ok = ok and len(tr) == 1 and lookup in guarded and guarded <= lookup_parts
        ok = ok and names == excs
        for p in resolved:
            ok = ok and isinstance(p.value, ast.Call) and bool(p.value.args or p.value.keywords) and lookup in {u(x) for x in ast.walk(p.value)}
        found += f" except {sorted(names)}"
        ctx.check(ok, "C11.R2", f"{q}.resolve: lookup", c.module.path, m.lineno,
                  f"{c.name}.resolve must look up its own extension and name and return itself in exactly the handlers of {sorted(excs)}", m,
                  expected=f"try: {lookup} except ({', '.join(sorted(excs))}): return self", found=found)
        others = [p for p in bail if not any(isinstance(t, ast.Call) and u(t.func) == "except_" for t, k in p.tests)]
        ctx.check(not others, "C11.R2", f"{q}.resolve: no other bail-out", c.module.path, m.lineno,
                  "resolve returns the unresolved value outside the not-found handlers", others[0].node if others else None)
    # the getters raise the documented exceptions exactly on KeyError of the name-keyed dictionaries
    ext = prog.cls("hugr.ext.Extension")
    reg = prog.cls("hugr.ext.ExtensionRegistry")
    for c, mname, d, exc in ((ext, "get_op", "operations", "OperationNotFound"), (ext, "get_type", "types", "TypeNotFound"),
                             (reg, "get_extension", "extensions", "ExtensionNotFound")):
        m = c.methods.get(mname)
        if m is None:
            ctx.broken(f"anchor vanished: {c.qualname}.{mname}")
        p = m.args.args[1].arg
        # path summaries: the entry is returned, and the only other way out is the documented error, raised in the KeyError handler
        ps = ctx.paths(f"{c.qualname}.{mname}")
        rets = [q for q in ps if q.kind == "return"]
        rest = [q for q in ps if q.kind != "return"]
        ok = bool(rets) and all(q.value_text() == f"self.{d}[{p}]" and not q.tests for q in rets) and bool(rest) and all(
            q.kind == "raise" and q.has_test("except_(KeyError)", True) is not None and len(q.tests) == 1 and
            u(q.value).split("(")[0].split(".")[-1] == exc for q in rest)
        ctx.check(ok, "C11.R2", f"{c.qualname}.{mname}", c.module.path, m.lineno,
                  f"{mname}(name) must return self.{d}[name] and raise {exc} exactly when the name is absent", m)


def r3_wire(ctx, nf) -> None:
    prog = ctx.program
    s = sym("self")
    # ---- types: ExtType._to_opaque ∘ Opaque.resolve
    opq = prog.cls("hugr.tys.Opaque")
    paths = [p for p in nf.paths(opq, "resolve") if p[1] == "return" and p[2] != s]
    if not paths:
        ctx.broken("Opaque.resolve: no rebuilding path")
    r = paths[-1][2]
    ext_t = prog.cls("hugr.tys.ExtType")
    if r[0] != "ctor" or r[1] != ext_t.qualname:
        ctx.fail("C11.R3", "hugr.tys.Opaque.resolve", opq.module.path, opq.methods["resolve"].lineno, "Opaque.resolve must build an ExtType", opq.methods["resolve"], found=show(r))
    else:
        back, _ = nf.method_nf(ext_t, "_to_opaque", self_t=r)
        a = {k: strip_resolve(rewrite(v)) for k, v in ctor_args(back).items()} if back[0] == "ctor" else {}
        for f in ("extension", "id", "args"):
            ctx.check(a.get(f) == attr(s, f), "C11.R3", f"hugr.tys.Opaque -> ExtType -> opaque form: {f}", opq.module.path, opq.methods["resolve"].lineno,
                      f"after resolution the serialized `{f}` of the type differs from the original (modulo resolution of nested arguments)", opq.methods["resolve"],
                      expected=f"self.{f}", found=show(a.get(f)) if f in a else "<missing>")
    # ---- ops: ExtOp.to_custom_op ∘ Custom.resolve
    cus = prog.cls("hugr.ops.Custom")
    paths = [p for p in nf.paths(cus, "resolve") if p[1] == "return" and p[2] != s]
    if not paths:
        ctx.broken("Custom.resolve: no rebuilding path")
    r = paths[-1][2]
    xo = prog.cls("hugr.ops.ExtOp")
    if r[0] != "ctor" or r[1] != xo.qualname:
        ctx.fail("C11.R3", "hugr.ops.Custom.resolve", cus.module.path, cus.methods["resolve"].lineno, "Custom.resolve must build an ExtOp", cus.methods["resolve"], found=show(r))
        return
    ra = ctor_args(r)
    ctx.check(ra.get("_op_def", ("?",))[0] == "call" and ra["_op_def"][1] == ".get_op", "C11.R3", "hugr.ops.Custom.resolve: definition", cus.module.path,
              cus.methods["resolve"].lineno, "the resolved op must be backed by the definition that was looked up", cus.methods["resolve"])
    tpaths = [p for p in nf.paths(xo, "to_custom_op", self_t=r) if p[1] == "return"]
    # the resolved op always caches its signature: only the `signature is not None` path is feasible
    feasible = []
    for guards, outcome, term, node, env in tpaths:
        ok = True
        for g, taken, _ in guards:
            if g[0] == "op" and g[1] in ("cmp:Is", "cmp:IsNot") and g[2][1] == ("const", None):
                is_none = g[2][0] == ("const", None)
                definitely_obj = g[2][0][0] in ("ctor", "call", "map", "list")
                none_taken = taken if g[1] == "cmp:Is" else not taken       # the outcome "it is None"
                if definitely_obj and none_taken:
                    ok = False
                if is_none and not none_taken:
                    ok = False
        if ok:
            feasible.append((term, node))
    if not feasible:
        ctx.broken("ExtOp.to_custom_op: no feasible path for a resolved op")
    descr_field = prog.cls("hugr.ext.OpDef").find_field("description") is not None

    def nonopt(t):
        """a choice on `self.<f> is None` for a field of Custom that cannot be None is no choice (the same feasibility argument as for
        the guards above, for helpers the engine folds into one conditional term)"""
        if not isinstance(t, tuple) or not t:
            return t
        t = tuple(nonopt(x) if isinstance(x, tuple) else x for x in t)
        if t[0] == "ite" and t[1][0] == "op" and t[1][1] in ("cmp:IsNot", "cmp:Is") and t[1][2][1] == ("const", None):
            x = t[1][2][0]
            if x[0] == "attr" and x[1] == s:
                f_ = cus.find_field(x[2])
                if f_ is not None and "None" not in f_.annotation and "Optional" not in f_.annotation:
                    return t[2] if t[1][1] == "cmp:IsNot" else t[3]
        return t
    for i, (term, node) in enumerate(feasible):
        a = {k: nonopt(strip_resolve(rewrite(v))) for k, v in ctor_args(fill_defaults(nf, term)).items()} if term[0] == "ctor" else {}
        for f in ("op_name", "extension", "signature", "args"):
            ctx.check(a.get(f) == attr(s, f), "C11.R3", f"hugr.ops.Custom -> ExtOp -> opaque form: {f}", xo.module.path, node.lineno,
                      f"after resolution the serialized `{f}` of the operation differs from the original (modulo resolution of nested types)", node,
                      expected=f"self.{f}", found=show(a.get(f)) if f in a else "<missing>")
        # the description is the definition's
        d = a.get("description")
        want = ("attr", ra["_op_def"], "description")
        ctx.check(d == want, "C11.R3", "hugr.ops.Custom -> ExtOp -> opaque form: description", xo.module.path, node.lineno,
                  "a resolved operation must serialize its definition's description (the property lets resolution replace the free-text description "
                  "by the definition's, not erase it)", node, expected="self._op_def.description", found=show(d) if d else "<missing>")
    # ExtType._to_serial / ExtOp._to_serial go through those forms
    t1, _ = nf.method_nf(ext_t, "_to_serial")
    ctx.check(t1[0] == "ctor" and t1[1].endswith("tys.Opaque"), "C11.R3", "hugr.tys.ExtType._to_serial", ext_t.module.path, ext_t.methods["_to_serial"].lineno,
              "ExtType must serialize as its opaque form", ext_t.methods["_to_serial"], found=show(t1)[:160])


def r4_model(ctx, nf) -> None:
    prog = ctx.program
    s = sym("self")
    opq, ext_t = prog.cls("hugr.tys.Opaque"), prog.cls("hugr.tys.ExtType")
    to, _ = nf.method_nf(opq, "to_model")
    te, _ = nf.method_nf(ext_t, "to_model")

    def corr(t):
        """field correspondence of _to_opaque: type_def.get_extension().name / type_def._extension.name -> extension, type_def.name -> id"""
        if not isinstance(t, tuple) or not t:
            return t
        t = tuple(corr(x) if isinstance(x, tuple) else x for x in t)
        td = attr(s, "type_def")
        if t == attr(("call", ".get_extension", (td,), ()), "name") or t == attr(attr(td, "_extension"), "name"):
            return attr(s, "extension")
        if t == attr(td, "name"):
            return attr(s, "id")
        return t
    if to[0] != "ctor" or te[0] != "ctor":
        ctx.broken("to_model of Opaque/ExtType does not normalise to model.Apply(...)")
    a_o, a_e = ctor_args(to), {k: corr(v) for k, v in ctor_args(te).items()}
    m = opq.methods["to_model"]
    ctx.check(a_o.get("symbol", a_o.get("name")) == a_e.get("symbol", a_e.get("name")) and to[1] == te[1], "C11.R4",
              "hugr.tys.Opaque.to_model vs ExtType.to_model: symbol", opq.module.path, m.lineno,
              "an opaque type and its resolved form must export the same symbol (extension-qualified type name)", m,
              expected=show(a_e.get("symbol", a_e.get("name"))), found=show(a_o.get("symbol", a_o.get("name"))))
    ctx.check(a_o.get("args") == a_e.get("args"), "C11.R4", "hugr.tys.Opaque.to_model vs ExtType.to_model: args", opq.module.path, m.lineno,
              "an opaque type and its resolved form must export the same arguments", m, expected=show(a_e.get("args")), found=show(a_o.get("args")))


def r5_hugr(ctx) -> None:
    hugr = ctx.program.cls("hugr.hugr.base.Hugr")
    m = hugr.methods.get("resolve_extensions")
    if m is None:
        ctx.broken("anchor vanished: Hugr.resolve_extensions")
    from ..paths import summaries
    cm = ctx.cfn("hugr.hugr.base.Hugr.resolve_extensions", subst=False)
    reg = m.args.args[1].arg
    loops = [n for n in ast.walk(cm) if isinstance(n, ast.For)]
    lps = summaries(loops[0].body) if len(loops) == 1 else []
    ok = len(loops) == 1 and u(loops[0].iter) in ("self", "self.nodes()", "self._nodes", "self.items()") and bool(lps) and all(p.kind in ("fall", "continue") for p in lps)
    ctx.check(ok, "C11.R5", "Hugr.resolve_extensions: visits every node", hugr.module.path, m.lineno, "resolution must visit every node of the HUGR", m)
    if loops:
        lp = loops[0]
        nv = u(lp.target.elts[0]) if isinstance(lp.target, ast.Tuple) else u(lp.target)
        data = f"self[{nv}]" if not isinstance(lp.target, ast.Tuple) else u(lp.target.elts[1])
        ok = bool(lps)
        seen = set()
        for p in lps:
            t = [k for t_, k in p.tests if u(t_).replace("ops.", "") == f"isinstance({data}.op, Custom)"]
            stores = [e for e in p.effects if isinstance(e, ast.Assign) and isinstance(e.targets[0], ast.Attribute) and e.targets[0].attr == "op"]
            if t and t[0]:
                seen.add(True)
                ok = ok and len(stores) == 1 and u(stores[0].targets[0]) == f"{data}.op" and u(stores[0].value) == f"{data}.op.resolve({reg})"
            else:
                seen.add(False)
                ok = ok and bool(t) and not stores
        ctx.check(ok and seen == {True, False}, "C11.R5", "Hugr.resolve_extensions: rewrites opaque ops only", hugr.module.path, lp.lineno,
                  "exactly the Custom operations are replaced by op.resolve(registry), assigned back to their node", lp,
                  found="; ".join(p.describe() + " :: " + " | ".join(p.effect_texts()) for p in lps)[:300])
    rets = [r for r in ast.walk(m) if isinstance(r, ast.Return)]
    ctx.check(len(rets) == 1 and u(rets[0].value) == "self", "C11.R5", "Hugr.resolve_extensions: returns the HUGR", hugr.module.path, m.lineno, "", m)
    # resolved forms are fixed points: no resolve override that changes them
    for q in ("hugr.ops.ExtOp", "hugr.tys.ExtType"):
        c = ctx.program.cls(q)
        k, rm = c.find_method("resolve")
        ok = rm is None or k.name in ("Type",) and u(real_body(rm)[-1]) == "return self"
        ctx.check(ok, "C11.R5", f"{q}: fixed point of resolve", c.module.path, c.node.lineno,
                  f"{c.name} is the resolved form: resolving again must return it unchanged", rm)


def run(ctx) -> None:
    ctx.rule("C11.R1", "structural recursion: resolve rebuilds every field that can contain types from its resolved content, passes the others unchanged", floor=10)
    ctx.rule("C11.R2", "conservative: own extension/name looked up, `return self` in exactly the not-found handlers; getters raise on KeyError only", floor=7)
    ctx.rule("C11.R3", "invisible on the wire: opaque-form ∘ resolve is the identity on extension/name/signature/args (registry axioms); description = definition's", floor=9)
    ctx.rule("C11.R4", "invisible in the model export: Opaque and ExtType export the same symbol and arguments", floor=2)
    ctx.rule("C11.R5", "Hugr.resolve_extensions visits every node, rewrites Custom ops only, resolved forms are fixed points", floor=5)
    nf = NF(ctx.program)
    r1_structural_recursion(ctx, nf)
    r2_conservative(ctx)
    r3_wire(ctx, nf)
    r4_model(ctx, nf)
    r5_hugr(ctx)
    ctx.rule("C11.R6", "a resolved type reports the bound its definition declares: explicit, or the join over the type arguments at the named indices (shared with C07.R2)", floor=10)
    from .c07 import r2_table
    with ctx.as_rule(C07_R2="C11.R6"):
        r2_table(ctx, nf)
    from .. import lints
    lints.arm(ctx)



# ---------------------------------------------------------------------------------------
T = "hugr-py/src/hugr/tys.py"
O = "hugr-py/src/hugr/ops.py"
B = "hugr-py/src/hugr/hugr/base.py"
X = "hugr-py/src/hugr/ext.py"
MUTANTS = [
    dict(name="opaque-args-unresolved", file=T, expect=["C11.R1"], old="        return ExtType(type_def, [arg.resolve(registry) for arg in self.args])", new="        return ExtType(type_def, self.args)"),
    dict(name="sum-first-row-only", file=T, expect="C11.R1", old="        return Sum([[ty.resolve(registry) for ty in row] for row in self.variant_rows])",
         new="        return Sum([[ty.resolve(registry) for ty in row] if i == 0 else row for i, row in enumerate(self.variant_rows)])"),
    dict(name="function-outputs-unresolved", file=T, expect="C11.R1", old="            output=[ty.resolve(registry) for ty in self.output],", new="            output=self.output,"),
    dict(name="function-reqs-dropped", file=T, expect="C11.R1", old="            output=[ty.resolve(registry) for ty in self.output],\n            runtime_reqs=self.runtime_reqs,\n", new="            output=[ty.resolve(registry) for ty in self.output],\n"),
    dict(name="polyfunc-body-unresolved", file=T, expect="C11.R1", old="            body=self.body.resolve(registry),", new="            body=self.body,"),
    dict(name="typearg-unresolved", file=T, expect="C11.R1", old="        return TypeTypeArg(self.ty.resolve(registry))", new="        return TypeTypeArg(self.ty)"),
    dict(name="sequence-arg-no-override", file=T, expect="C11.R1", old="    def resolve(self, registry: ext.ExtensionRegistry) -> TypeArg:\n        return SequenceArg([arg.resolve(registry) for arg in self.elems])\n\n", new=""),
    dict(name="custom-args-unresolved", file=O, expect="C11.R1", old="        args = [arg.resolve(registry) for arg in self.args]", new="        args = list(self.args)"),
    dict(name="custom-signature-unresolved", file=O, expect="C11.R1", old="        signature = self.signature.resolve(registry)", new="        signature = self.signature"),
    dict(name="broad-except", file=T, expect="C11.R2", old="        except (ExtensionRegistry.ExtensionNotFound, Extension.TypeNotFound):\n            return self", new="        except Exception:\n            return self"),
    dict(name="lookup-by-other-name", file=O, expect="C11.R2", old="            op_def = registry.get_extension(self.extension).get_op(self.op_name)", new="            op_def = registry.get_extension(self.extension).get_op(self.op_name.lower())"),
    dict(name="missing-type-raises", file=T, expect="C11.R2", old="        except (ExtensionRegistry.ExtensionNotFound, Extension.TypeNotFound):", new="        except ExtensionRegistry.ExtensionNotFound:"),
    dict(name="get-op-default", file=X, expect="C11.R2", old="        try:\n            return self.operations[name]\n        except KeyError as e:\n            raise self.OperationNotFound(name) from e",
         new="        try:\n            return self.operations[name.split(\".\")[-1]]\n        except KeyError as e:\n            raise self.OperationNotFound(name) from e"),
    dict(name="resolved-op-drops-args", file=O, expect=["C11.R3", "C11.R1"], old="        return ExtOp(op_def, signature, args)", new="        return ExtOp(op_def, signature)"),
    dict(name="custom-form-wrong-extension", file=O, expect="C11.R3", old="            extension=ext.name if ext else \"\",", new="            extension=\"\","),
    dict(name="description-erased-again", file=O, expect="C11.R3", old="            description=self._op_def.description,\n", new=""),
    dict(name="opaque-form-wrong-id", file=T, expect="C11.R3", old="            id=self.type_def.name,", new="            id=self.type_def.description,"),
    dict(name="opaque-model-unqualified", file=T, expect="C11.R4", old="        return model.Apply(f\"{self.extension}.{self.id}\", args)", new="        return model.Apply(self.id, args)"),
    dict(name="exttype-model-drops-args", file=T, expect="C11.R4", old="        return model.Apply(name, args)", new="        return model.Apply(name, [])"),
    dict(name="resolve-first-node-only", file=B, expect="C11.R5", old="            if isinstance(op, Custom):\n                self[node].op = op.resolve(registry)", new="            if isinstance(op, Custom):\n                self[node].op = op.resolve(registry)\n                break"),
    dict(name="resolve-result-discarded", file=B, expect="C11.R5", old="                self[node].op = op.resolve(registry)", new="                op.resolve(registry)"),
]
TWINS = [
    dict(name="twin-local-in-resolve", file=T, old="        return ExtType(type_def, [arg.resolve(registry) for arg in self.args])",
         new="        resolved_args = [arg.resolve(registry) for arg in self.args]\n        return ExtType(type_def, resolved_args)"),
    dict(name="twin-keyword-ctor", file=T, old="        return TypeTypeArg(self.ty.resolve(registry))", new="        return TypeTypeArg(ty=self.ty.resolve(registry))"),
]


def thorough(ctx):
    from ..selftest import run_battery
    return run_battery(ctx, MUTANTS, TWINS)
