"""C19 -- shot results convert to register bitstrings by the documented convention.

R1 result alphabet of _cast_primitive_bit (finite type lattice); R2 replay order; R3 tag grammar (regex AST);
R4 write semantics of the two arms; R5 strict options are checked before the item is merged; R6 wrappers.
"""
from __future__ import annotations

import ast
import re

from ..cfg import CFG, EXIT, RAISE
from ..model import calls_in, call_name, kwarg, real_body, u

MOD = "hugr.qsystem.result"


def r1_alphabet(ctx, m) -> None:
    fn = m.functions.get("_cast_primitive_bit")
    if fn is None:
        ctx.broken("anchor vanished: _cast_primitive_bit")
    p = fn.args.args[0].arg
    g = CFG(real_body(fn))
    rets = [(n, s) for n, s in g.stmt.items() if isinstance(s, ast.Return)]
    raises = [(n, s) for n, s in g.stmt.items() if isinstance(s, ast.Raise)]
    ctx.check(bool(raises) and all("ValueError" in u(s.exc) for n, s in raises) and RAISE in g.reachable(0), "C19.R1", "_cast_primitive_bit: rejects non-bits", m.path, fn.lineno,
              "a value that is not a bit must be rejected with ValueError", fn)
    dom = g.dominators()
    for n, s in rets:
        # admitted classes on this path: the guard that dominates the return
        tests = []
        for d in dom[n]:
            if g.kind.get(d) != "test":
                continue
            t_succ = [x for x in g.succ[d] if g.label.get((d, x)) == "T"]
            # the return lies on the true branch: unreachable once the true edge is cut
            if t_succ and n not in g.reachable(0, avoid_edges=frozenset({(d, t_succ[0])})):
                tests.append(g.stmt[d])
        guard = " and ".join(u(t) for t in tests)
        admits_int = f"isinstance({p}, int)" in guard or f"isinstance({p}, (int, bool))" in guard or f"isinstance({p}, (bool, int))" in guard
        in01 = any(x in guard.replace(" ", "") for x in (f"{p}in{{0,1}}", f"{p}in(0,1)", f"{p}in[0,1]", f"{p}in{{1,0}}")) or \
            (f"{p} == 0" in guard and f"{p} == 1" in guard)
        if not ctx.check(admits_int and in01, "C19.R1", "_cast_primitive_bit: guard", m.path, s.lineno,
                         f"every path that returns a character must be guarded by isinstance({p}, int) and {p} in {{0, 1}}; other values must raise ValueError", s, found=guard or "<unguarded>"):
            continue
        # result alphabet: bool is a subclass of int, so the admitted classes are {int, bool}; str(True) == 'True'
        e = s.value
        idiom = None
        se = u(e)
        if se in (f"str(int({p}))", f"'1' if {p} else '0'", f"'01'[{p}]", f"'01'[int({p})]", f"'0' if not {p} else '1'", f"'1' if {p} == 1 else '0'", f"'0' if {p} == 0 else '1'"):
            idiom = "maps both int and bool to '0'/'1'"
        bad = se in (f"str({p})", f"repr({p})", f"f'{{{p}}}'", f"format({p})", f"'{{}}'.format({p})", f"'%s' % {p}")
        if bad:
            ctx.fail("C19.R1", "_cast_primitive_bit: alphabet", m.path, s.lineno,
                     f"`{se}` renders a bool as 'True'/'False': bools pass the isinstance(int) guard, so characters other than '0'/'1' are produced", s,
                     expected="str(int(data))", found=se)
        elif idiom:
            ctx.ok("C19.R1", "_cast_primitive_bit: alphabet", f"{se}: {idiom}")
        else:
            ctx.broken(f"_cast_primitive_bit: return expression `{se}` is outside the enumerated idioms")


def r2_replay_order(ctx, m, shot) -> ast.For | None:
    fn = shot.methods.get("to_register_bits")
    if fn is None:
        ctx.broken("anchor vanished: QsysShot.to_register_bits")
    loops = [n for n in real_body(fn) if isinstance(n, ast.For)]
    if len(loops) != 1:
        ctx.broken("QsysShot.to_register_bits: expected one replay loop")
    lp = loops[0]
    it = lp.iter
    seen = set()
    while isinstance(it, ast.Name) and it.id not in seen:
        seen.add(it.id)
        b = [s.value for s in real_body(fn) if isinstance(s, ast.Assign) and isinstance(s.targets[0], ast.Name) and s.targets[0].id == it.id]
        if len(b) != 1:
            break
        it = b[0]
    src = u(it)
    ok = src in ("self.entries", "iter(self.entries)", "list(self.entries)")
    ctx.check(ok, "C19.R2", "QsysShot.to_register_bits: replay order", m.path, lp.lineno,
              f"the entries must be replayed in order as writes, but the loop iterates `{src}`: a dictionary keeps each tag at its *first* position, so with "
              "interleaved writes (a[0]=1; a=[0,0]; a[0]=1) a later write is applied before an earlier one and 'later writes override earlier ones' fails", lp,
              expected="self.entries", found=src)
    ct = shot.methods.get("collate_tags")
    cl = [n for n in ast.walk(ct) if isinstance(n, ast.For)] if ct else []
    ok = len(cl) == 1 and u(cl[0].iter) == "self.entries" and any(call_name(c) == "append" and u(c.args[0]) == u(cl[0].target.elts[1]) and
                                                                   u(c.func.value) == f"tags[{u(cl[0].target.elts[0])}]" for c in calls_in(cl[0]))
    ctx.check(ok, "C19.R2", "QsysShot.collate_tags: entry order", m.path, ct.lineno if ct else 1,
              "collation appends, per tag, every value of the shot in entry order", ct)
    return lp


def r3_grammar(ctx, m) -> None:
    pat = m.assigns.get("REG_INDEX_PATTERN")
    if not (isinstance(pat, ast.Call) and u(pat.func) == "re.compile" and isinstance(pat.args[0], ast.Constant)):
        ctx.broken("anchor vanished: REG_INDEX_PATTERN = re.compile(<literal>)")
    src = pat.args[0].value
    try:
        import re._parser as sre_parse  # type: ignore[import-not-found]
    except ImportError:  # pragma: no cover
        import sre_parse  # type: ignore[no-redef]
    tree = sre_parse.parse(src)
    items = list(tree)
    names = [str(op) for op, _ in items]
    ok = names == ["AT", "SUBPATTERN", "LITERAL", "SUBPATTERN", "LITERAL", "AT"] and str(items[0][1]) == "AT_BEGINNING" and str(items[5][1]) in ("AT_END",) \
        and items[2][1] == ord("[") and items[4][1] == ord("]") and tree.state.groups == 3
    if ok:
        g1 = list(items[1][1][3])
        g2 = list(items[3][1][3])
        ok = len(g1) == 2 and str(g1[0][0]) == "IN" and [(str(a), b) for a, b in g1[0][1]] == [("RANGE", (ord("a"), ord("z")))] \
            and str(g1[1][0]) == "MAX_REPEAT" and g1[1][1][0] == 0 and str(g1[1][1][1]) == "MAXREPEAT" \
            and len(g2) == 1 and str(g2[0][0]) == "MAX_REPEAT" and g2[0][1][0] == 1 and str(g2[0][1][1]) == "MAXREPEAT" \
            and [str(a) for a, _ in g2[0][1][2]] == ["IN"] and "CATEGORY_DIGIT" in str(g2[0][1][2][0][1])
    ctx.check(bool(ok), "C19.R3", "REG_INDEX_PATTERN: grammar", m.path, pat.lineno,
              r"the indexed-tag grammar must be ^ ([a-z][\w_]*) \[ (\d+) \] $ with exactly the two groups name and index", pat, found=src)
    doc = ast.get_docstring(m.tree) or ""
    ctx.check(src in doc, "C19.R3", "REG_INDEX_PATTERN: documented", m.path, pat.lineno,
              "the pattern in the code differs from the one the module documentation quotes", pat, found=src)


def r4_write_semantics(ctx, m, shot, lp) -> None:
    fn = shot.methods["to_register_bits"]
    tagv, datav = (u(lp.target.elts[0]), u(lp.target.elts[1])) if isinstance(lp.target, ast.Tuple) else ("?", "?")
    # locate the indexed arm
    ifs = [n for n in lp.body if isinstance(n, ast.If) and "match" in u(n.test) and "None" in u(n.test)]
    ma = [s for s in lp.body if isinstance(s, ast.Assign) and isinstance(s.value, ast.Call) and u(s.value.func) in ("re.match", "REG_INDEX_PATTERN.match", "re.fullmatch", "REG_INDEX_PATTERN.fullmatch")]
    ok = len(ma) == 1 and ("REG_INDEX_PATTERN" in u(ma[0].value)) and tagv in [u(a) for a in ma[0].value.args]
    ctx.check(ok, "C19.R4", "to_register_bits: tags are parsed with REG_INDEX_PATTERN", m.path, lp.lineno, "", lp)
    if len(ifs) != 1:
        ctx.broken("to_register_bits: indexed arm not found")
    arm = ifs[0]
    src = u(arm)
    grp = [s for s in arm.body if isinstance(s, ast.Assign) and isinstance(s.targets[0], ast.Tuple) and "groups()" in u(s.value)]
    ok = len(grp) == 1 and len(grp[0].targets[0].elts) == 2
    name_v, idx_s = (u(grp[0].targets[0].elts[0]), u(grp[0].targets[0].elts[1])) if ok else ("?", "?")
    idx_assign = [s for s in arm.body if isinstance(s, ast.Assign) and u(s.value) == f"int({idx_s})"]
    ok = ok and len(idx_assign) == 1
    idx_v = u(idx_assign[0].targets[0]) if ok else "?"
    ctx.check(ok, "C19.R4", "to_register_bits: name and index come from the two groups in order", m.path, arm.lineno,
              "group 1 is the register name, group 2 its decimal index", arm)
    # creation, growth, assignment
    create = [n for n in ast.walk(arm) if isinstance(n, ast.If) and u(n.test) in (f"{name_v} not in reg_bits",)]
    ok_c = len(create) == 1 and any(isinstance(s, ast.Assign) and u(s.targets[0]) == f"reg_bits[{name_v}]" and u(s.value) in (f"['0'] * ({idx_v} + 1)", f"['0' for _ in range({idx_v} + 1)]") for s in create[0].body)
    ctx.check(ok_c, "C19.R4", "to_register_bits: register created with index+1 zeros", m.path, arm.lineno,
              "an indexed write to an unknown register creates it with n+1 zero bits", arm)
    grow = [n for n in ast.walk(arm) if isinstance(n, ast.If) and u(n.test) in (f"{idx_v} >= len(bitlst)", f"len(bitlst) <= {idx_v}", f"len(bitlst) < {idx_v} + 1")]
    ok_g = len(grow) == 1 and any(u(s) in (f"bitlst += ['0'] * ({idx_v} - len(bitlst) + 1)", f"bitlst.extend(['0'] * ({idx_v} - len(bitlst) + 1))", f"bitlst.extend(['0'] * ({idx_v} + 1 - len(bitlst)))") for s in grow[0].body)
    alias = any(isinstance(s, ast.Assign) and u(s.targets[0]) == "bitlst" and u(s.value) == f"reg_bits[{name_v}]" for s in arm.body)
    ctx.check(ok_g and alias, "C19.R4", "to_register_bits: register grown with zeros to index+1", m.path, arm.lineno,
              "a write beyond the current length grows the register in place with '0' up to n+1 bits", arm)
    wr = [s for s in arm.body if isinstance(s, ast.Assign) and u(s.targets[0]) == f"bitlst[{idx_v}]"]
    ok_w = len(wr) == 1 and u(wr[0].value) == f"_cast_primitive_bit({datav})"
    ctx.check(ok_w, "C19.R4", "to_register_bits: one bit written at position n", m.path, arm.lineno, "the indexed arm writes exactly position n with the casted bit", arm)
    ctx.check(isinstance(arm.body[-1], ast.Continue) or bool(arm.orelse), "C19.R4", "to_register_bits: arms are exclusive", m.path, arm.lineno,
              "an indexed tag must not also be treated as a whole-register write", arm)
    # whole-register arm
    rest = lp.body[lp.body.index(arm) + 1:] + arm.orelse
    whole = [s for n in rest for s in ast.walk(n) if isinstance(s, ast.Assign) and u(s.targets[0]) == f"reg_bits[{tagv}]"]
    vals = sorted(u(s.value) for s in whole)
    ok = len(whole) == 2 and any(v == f"[_cast_primitive_bit({datav})]" for v in vals) and any(
        v.startswith("[_cast_primitive_bit(") and " for " in v and v.endswith(" in vs]") for v in vals)
    ctx.check(ok, "C19.R4", "to_register_bits: whole-register write overwrites", m.path, lp.lineno,
              "any other tag overwrites the whole register with the casted bit or list of bits", lp, found="; ".join(vals))
    # every stored character is a casted bit or the literal '0'
    stores = [s for s in ast.walk(lp) if isinstance(s, (ast.Assign, ast.AugAssign)) and ("reg_bits[" in u(s.targets[0] if isinstance(s, ast.Assign) else s.target) or "bitlst" in u(s.targets[0] if isinstance(s, ast.Assign) else s.target))]
    bad = [s for s in stores if not ("_cast_primitive_bit(" in u(s.value) or "'0'" in u(s.value) or u(s.value) == f"reg_bits[{name_v}]")]
    ctx.check(not bad, "C19.R4", "to_register_bits: alphabet of stored characters", m.path, (bad[0].lineno if bad else lp.lineno),
              "every character stored must come from _cast_primitive_bit or be the filler '0'", bad[0] if bad else None)
    rets = [r for r in ast.walk(fn) if isinstance(r, ast.Return)]
    ok = len(rets) == 1 and u(rets[0].value) == "{reg: ''.join(bits) for reg, bits in reg_bits.items()}"
    ctx.check(ok, "C19.R4", "to_register_bits: bitstrings joined in position order", m.path, fn.lineno, "", fn, found=u(rets[0].value) if rets else "")


def r5_strict(ctx, m, res) -> None:
    fn = res.methods.get("register_bitstrings")
    if fn is None:
        ctx.broken("anchor vanished: QsysResult.register_bitstrings")
    g = CFG(real_body(fn))
    merges = g.where(lambda s: isinstance(s, ast.Expr) and "shot_dct[" in u(s) and ".append(" in u(s))
    if len(merges) != 1:
        ctx.fail("C19.R5", "register_bitstrings: per-shot strings in shot order", m.path, fn.lineno,
                 "register_bitstrings must append each shot's bitstring to its register's list (shot_dct[reg].append(bitstr)) exactly once per register and shot", fn)
        return
    mg = merges[0]
    for flag, what in (("strict_names", "register sets"), ("strict_lengths", "lengths")):
        tests = [n for n, s in g.stmt.items() if g.kind.get(n) == "test" and flag in u(s)]
        ok = len(tests) == 1
        if ok:
            t = tests[0]
            # the failing branch raises ValueError
            succ_raise = [x for x in g.succ[t] if g.label.get((t, x)) == "T"]
            ok = bool(succ_raise) and RAISE in g.reachable(succ_raise[0], avoid={mg}) and "ValueError" in "".join(u(s) for s in g.stmt.values() if isinstance(s, ast.Raise))
        ctx.check(ok, "C19.R5", f"register_bitstrings: {flag} raises ValueError", m.path, fn.lineno, f"differing {what} must be rejected with ValueError when {flag} is set", fn)
        if not ok:
            continue
        t = tests[0]
        # check-before-update: within one shot, the test that compares the item with the accumulator must be evaluated
        # before the item is merged into it: no path from the merge back to the test without passing the shot-loop head
        loops = [n for n, s in g.stmt.items() if g.kind.get(n) == "loop"]
        outer = [n for n in loops if "self.results" in u(g.stmt[n])]
        if len(outer) != 1:
            ctx.broken("register_bitstrings: loop over self.results not found")
        avoid = {outer[0]}
        if flag == "strict_lengths":
            # per-register test: compared against earlier shots' entry for the same register: merging the *same item* first would be wrong
            reach = g.reachable(mg, avoid=avoid | {n for n in loops if n != outer[0]})
        else:
            reach = g.reachable(mg, avoid=avoid)
        after_merge = t in reach
        ctx.check(not after_merge, "C19.R5", f"register_bitstrings: {flag} tested before the shot is merged", m.path, g.stmt[t].lineno,
                  f"the {flag} test compares this shot's {what} with the accumulated ones *after* the shot has been merged into them: registers that "
                  "appear for the first time in a later shot are already in the accumulator, so only missing registers are ever noticed", g.stmt[t],
                  detail="test precedes the merge within a shot")
        if flag == "strict_names":
            s = u(g.stmt[t])
            cmp_ok = ("bitstrs.keys() != shot_dct.keys()" in s or "shot_dct.keys() != bitstrs.keys()" in s or "set(bitstrs) != set(shot_dct)" in s)
            ctx.check(cmp_ok, "C19.R5", "register_bitstrings: strict_names compares the register sets", m.path, g.stmt[t].lineno, "", g.stmt[t], found=s)
            # first shot exempt
            if not after_merge:
                # the exemption of the first shot must be positional (the loop's enumerate index / a first-iteration flag):
                # exempting "while the accumulator is empty" also exempts every shot that follows shots without registers
                tnode = g.stmt[t]
                operands = tnode.values if isinstance(tnode, ast.BoolOp) and isinstance(tnode.op, ast.And) else [tnode]
                others = [o for o in operands if u(o) != flag and not (isinstance(o, ast.Compare) and "keys()" in u(o)) and "set(" not in u(o)]
                lps = [n for n in ast.walk(fn) if isinstance(n, ast.For) and "self.results" in u(n.iter)]
                idx = None
                if lps and isinstance(lps[0].iter, ast.Call) and u(lps[0].iter.func) == "enumerate" and isinstance(lps[0].target, ast.Tuple):
                    idx = u(lps[0].target.elts[0])
                positional = bool(others) and all(idx is not None and idx in [x.id for x in ast.walk(o) if isinstance(x, ast.Name)] for o in others)
                by_content = [o for o in others if "shot_dct" in u(o)]
                ctx.check(positional and not by_content, "C19.R5", "register_bitstrings: only the first shot is exempt from the strict_names test", m.path, tnode.lineno,
                          "the first shot defines the register set and must be the only one exempt from the comparison; the exemption here is "
                          f"`{' and '.join(u(o) for o in others) or '<none>'}`" + (", which depends on the accumulator's content: every shot following shots "
                          "without registers is exempt too, so differing register sets are accepted" if by_content else ""), tnode,
                          expected="<shot index> > 0", found=" and ".join(u(o) for o in others))
        else:
            s = u(g.stmt[t])
            ctx.check("len(shot_dct[reg][0]) != len(bitstr)" in s and "reg in shot_dct" in s, "C19.R5", "register_bitstrings: strict_lengths compares with the first recorded length",
                      m.path, g.stmt[t].lineno, "", g.stmt[t], found=s)
    lp = [n for n in ast.walk(fn) if isinstance(n, ast.For) and "self.results" in u(n.iter)]
    ok = len(lp) == 1 and any(isinstance(s, ast.Assign) and u(s.value) == f"{u(lp[0].target) if not isinstance(lp[0].target, ast.Tuple) else u(lp[0].target.elts[-1])}.to_register_bits()" for s in lp[0].body)
    ctx.check(ok, "C19.R5", "register_bitstrings: per-shot strings in shot order", m.path, fn.lineno,
              "per-register lists are the per-shot strings of to_register_bits() in shot order", fn)


def r6_wrappers(ctx, m, res) -> None:
    rc = res.methods.get("register_counts")
    c = [x for x in calls_in(rc, "register_bitstrings")] if rc else []
    ok = len(c) == 1 and kwarg(c[0], "strict_lengths", 1) is not None and u(kwarg(c[0], "strict_lengths", 1)) == "strict_lengths" \
        and kwarg(c[0], "strict_names", 0) is not None and u(kwarg(c[0], "strict_names", 0)) == "strict_names"
    ctx.check(ok, "C19.R6", "QsysResult.register_counts forwards both flags", m.path, rc.lineno if rc else 1,
              "register_counts must pass strict_names and strict_lengths on to register_bitstrings under the same names", rc)
    ok = rc is not None and "Counter(bitstrs)" in u(rc)
    ctx.check(ok, "C19.R6", "QsysResult.register_counts counts the per-shot strings", m.path, rc.lineno if rc else 1, "", rc)
    cc = res.methods.get("collated_counts")
    src = u(cc) if cc else ""
    ok = "tuple(((tag, _flat_bitstring(data)) for tag, data in d.items()))" in src.replace("tuple((tag, _flat_bitstring(data)) for tag, data in d.items())", "tuple(((tag, _flat_bitstring(data)) for tag, data in d.items()))") \
        and "for d in self._collated_shots_iter()" in src
    ctx.check(ok, "C19.R6", "QsysResult.collated_counts", m.path, cc.lineno if cc else 1, "collated counts pair every tag with the flattened bitstring of its collated values, per shot", cc)
    fb = m.functions.get("_flat_bitstring")
    ok = fb is not None and u(real_body(fb)[-1]) == f"return ''.join((_cast_primitive_bit(prim) for prim in _flatten({fb.args.args[0].arg})))"
    ctx.check(ok, "C19.R6", "_flat_bitstring casts every flattened primitive in order", m.path, fb.lineno if fb else 1, "", fb, found=u(real_body(fb)[-1]) if fb else "")
    fl = m.functions.get("_flatten")
    src = u(fl) if fl else ""
    ok = "yield from _flatten(i)" in src and "isinstance(i, list)" in src and "yield i" in src
    ctx.check(ok, "C19.R6", "_flatten recurses into lists in order", m.path, fl.lineno if fl else 1, "", fl)
    it = res.methods.get("_collated_shots_iter")
    src = u(it) if it else ""
    ctx.check("for shot in self.results" in src and "yield shot.collate_tags()" in src, "C19.R6", "QsysResult._collated_shots_iter", m.path, it.lineno if it else 1, "", it)
    ad = ctx.program.cls(f"{MOD}.QsysShot").methods.get("as_dict")
    ctx.check(ad is not None and u(real_body(ad)[-1]) == "return dict(self.entries)", "C19.R6", "QsysShot.as_dict", m.path, ad.lineno if ad else 1, "", ad)


def run(ctx) -> None:
    ctx.rule("C19.R1", "_cast_primitive_bit: guard admits int/bool in {0,1}; the returned string is '0'/'1' for both classes; ValueError otherwise", floor=3)
    ctx.rule("C19.R2", "register bits are replayed over self.entries in order (as collate_tags does)", floor=2)
    ctx.rule("C19.R3", "tag grammar: regex AST of REG_INDEX_PATTERN and its documentation", floor=2)
    ctx.rule("C19.R4", "write semantics of the indexed and whole-register arms; every stored character is a casted bit or the filler '0'", floor=9)
    ctx.rule("C19.R5", "strict options raise ValueError and are tested before the shot is merged into the accumulator", floor=6)
    ctx.rule("C19.R6", "register_counts / collated_counts / flattening wrappers", floor=7)
    m = ctx.program.module(MOD)
    shot = m.classes.get("QsysShot")
    res = m.classes.get("QsysResult")
    if shot is None or res is None:
        ctx.broken("anchor vanished: QsysShot / QsysResult")
    r1_alphabet(ctx, m)
    lp = r2_replay_order(ctx, m, shot)
    r3_grammar(ctx, m)
    r4_write_semantics(ctx, m, shot, lp)
    r5_strict(ctx, m, res)
    r6_wrappers(ctx, m, res)
    from .. import lints
    lints.arm(ctx)



# ---------------------------------------------------------------------------------------
Q = "hugr-py/src/hugr/qsystem/result.py"
MUTANTS = [
    dict(name="str-of-bool", file=Q, expect="C19.R1", old="        return str(int(data))  # type: ignore[return-value]", new="        return str(data)  # type: ignore[return-value]"),
    dict(name="guard-accepts-two", file=Q, expect="C19.R1", old="    if isinstance(data, int) and data in {0, 1}:", new="    if isinstance(data, int) and data in {0, 1, 2}:"),
    dict(name="guard-accepts-floats", file=Q, expect="C19.R1", old="    if isinstance(data, int) and data in {0, 1}:", new="    if data in {0, 1}:"),
    dict(name="no-valueerror", file=Q, expect="C19.R1", old="    msg = f\"Expected bit data for register value found {data}\"\n    raise ValueError(msg)", new="    return \"0\""),
    dict(name="replay-over-dict", file=Q, expect="C19.R2", old="        for tag, data in self.entries:\n            match = re.match", new="        for tag, data in self.as_dict().items():\n            match = re.match"),
    dict(name="replay-reversed", file=Q, expect="C19.R2", old="        for tag, data in self.entries:\n            match = re.match", new="        for tag, data in reversed(self.entries):\n            match = re.match"),
    dict(name="collate-last-only", file=Q, expect="C19.R2", old="        for tag, data in self.entries:\n            tags[tag].append(data)", new="        for tag, data in self.as_dict().items():\n            tags[tag].append(data)"),
    dict(name="regex-uppercase", file=Q, expect="C19.R3", old="REG_INDEX_PATTERN = re.compile(r\"^([a-z][\\w_]*)\\[(\\d+)\\]$\")", new="REG_INDEX_PATTERN = re.compile(r\"^([a-zA-Z][\\w_]*)\\[(\\d+)\\]$\")"),
    dict(name="regex-unanchored", file=Q, expect="C19.R3", old="REG_INDEX_PATTERN = re.compile(r\"^([a-z][\\w_]*)\\[(\\d+)\\]$\")", new="REG_INDEX_PATTERN = re.compile(r\"([a-z][\\w_]*)\\[(\\d+)\\]$\")"),
    dict(name="regex-single-digit", file=Q, expect="C19.R3", old="REG_INDEX_PATTERN = re.compile(r\"^([a-z][\\w_]*)\\[(\\d+)\\]$\")", new="REG_INDEX_PATTERN = re.compile(r\"^([a-z][\\w_]*)\\[(\\d)\\]$\")"),
    dict(name="create-too-short", file=Q, expect="C19.R4", old="                    reg_bits[reg_name] = [\"0\"] * (reg_index + 1)", new="                    reg_bits[reg_name] = [\"0\"] * reg_index"),
    dict(name="grow-off-by-one", file=Q, expect="C19.R4", old="                    bitlst += [\"0\"] * (reg_index - len(bitlst) + 1)", new="                    bitlst += [\"0\"] * (reg_index - len(bitlst))"),
    dict(name="grow-with-ones", file=Q, expect="C19.R4", old="                    bitlst += [\"0\"] * (reg_index - len(bitlst) + 1)", new="                    bitlst += [\"1\"] * (reg_index - len(bitlst) + 1)"),
    dict(name="indexed-write-uncast", file=Q, expect="C19.R4", old="                bitlst[reg_index] = _cast_primitive_bit(data)", new="                bitlst[reg_index] = str(data)  # type: ignore[assignment]"),
    dict(name="indexed-falls-through", file=Q, expect="C19.R4", old="                bitlst[reg_index] = _cast_primitive_bit(data)\n                continue", new="                bitlst[reg_index] = _cast_primitive_bit(data)"),
    dict(name="whole-register-appends", file=Q, expect="C19.R4", old="                    reg_bits[tag] = [_cast_primitive_bit(v) for v in vs]", new="                    reg_bits[tag] = reg_bits.get(tag, []) + [_cast_primitive_bit(v) for v in vs]"),
    dict(name="groups-swapped", file=Q, expect="C19.R4", old="                reg_name, reg_index_str = match.groups()", new="                reg_index_str, reg_name = match.groups()"),
    dict(name="strict-names-after-merge", file=Q, expect="C19.R5",
         old="            if strict_names and shot_idx > 0 and bitstrs.keys() != shot_dct.keys():\n                msg = \"All shots must have the same registers.\"\n                raise ValueError(msg)\n            for reg, bitstr in bitstrs.items():",
         new="            for reg, bitstr in bitstrs.items():"),
    dict(name="strict-lengths-ignored", file=Q, expect="C19.R5", old="                    strict_lengths\n                    and reg in shot_dct", new="                    False\n                    and reg in shot_dct"),
    dict(name="strict-lengths-after-append", file=Q, expect="C19.R5",
         old="                    msg = \"All register bitstrings must have the same length.\"\n                    raise ValueError(msg)\n                shot_dct[reg].append(bitstr)",
         new="                    msg = \"All register bitstrings must have the same length.\"\n                    raise ValueError(msg)\n                pass"),
    dict(name="counts-flags-crossed", file=Q, expect="C19.R6", old="                strict_lengths=strict_lengths, strict_names=strict_names", new="                strict_lengths=strict_names, strict_names=strict_lengths"),
    dict(name="counts-flags-dropped", file=Q, expect="C19.R6", old="                strict_lengths=strict_lengths, strict_names=strict_names\n", new="\n"),
    dict(name="flatten-skips-nested", file=Q, expect="C19.R6", old="            yield from _flatten(i)", new="            yield from i"),
]
TWINS = [
    dict(name="twin-fullmatch", file=Q, old="            match = re.match(REG_INDEX_PATTERN, tag)", new="            match = REG_INDEX_PATTERN.match(tag)"),
    dict(name="twin-conditional-bit", file=Q, old="        return str(int(data))  # type: ignore[return-value]", new="        return \"1\" if data else \"0\""),
    dict(name="twin-entries-local", file=Q, old="        for tag, data in self.entries:\n            match = re.match", new="        entries = self.entries\n        for tag, data in entries:\n            match = re.match"),
]


def thorough(ctx):
    from ..selftest import run_battery
    return run_battery(ctx, MUTANTS, TWINS)
