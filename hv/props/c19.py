"""C19 -- shot results convert to register bitstrings by the documented convention.

R1 result alphabet of _cast_primitive_bit (finite type lattice); R2 replay order; R3 tag grammar (regex AST);
R4 write semantics of the two arms; R5 strict options are checked before the item is merged; R6 wrappers.
"""
from __future__ import annotations

import ast
import re

from ..cfg import CFG, EXIT, RAISE
from ..model import calls_in, call_name, kwarg, real_body, u

MOD = "hugr.qsystem.result"
from ..paths import summaries
from ..tmpl import T, tfind, tmatch


def _where(ctx, m, name):
    """(module, value) of a function / constant of the result module, followed through a re-import when it was moved to a sibling module"""
    if name in m.functions:
        return m, m.functions[name]
    if name in m.assigns:
        return m, m.assigns[name]
    dotted = m.imports.get(name)
    if dotted:
        mn, _, nm = dotted.rpartition(".")
        m2 = ctx.program.modules.get(mn)
        if m2 is not None:
            if nm in m2.functions:
                return m2, m2.functions[nm]
            if nm in m2.assigns:
                return m2, m2.assigns[nm]
    return m, None


def r1_alphabet(ctx, m) -> None:
    """path summaries of _cast_primitive_bit: guard-clause, if/else and negated spellings coincide"""
    m, fn = _where(ctx, m, "_cast_primitive_bit")
    if fn is None:
        ctx.broken("anchor vanished: _cast_primitive_bit")
    p = fn.args.args[0].arg
    ps = ctx.paths(f"{MOD}._cast_primitive_bit")
    rets = [q for q in ps if q.kind == "return"]
    others = [q for q in ps if q.kind != "return"]
    ctx.check(bool(others) and all(q.kind == "raise" and q.value is not None and "ValueError" in u(q.value) for q in others), "C19.R1", "_cast_primitive_bit: rejects non-bits",
              m.path, fn.lineno, "a value that is not a bit must be rejected with ValueError", fn)
    for q in rets:
        taken = [u(t) for t, k in q.tests if k]
        guard = " and ".join(taken)
        admits_int = any(t in (f"isinstance({p}, int)", f"isinstance({p}, (int, bool))", f"isinstance({p}, (bool, int))", f"isinstance({p}, int | bool)", f"isinstance({p}, bool | int)") for t in taken)
        in01 = any(t.replace(" ", "") in (f"{p}in{{0,1}}", f"{p}in(0,1)", f"{p}in[0,1]", f"{p}in{{1,0}}", f"{p}in(1,0)", f"{p}in[1,0]") for t in taken) or \
            any({(u(t), k) for t, k in q.tests} >= s_ for s_ in ({(f"{p} == 0", False), (f"{p} == 1", True)}, {(f"{p} == 0", True)}))
        node = q.node or fn
        if not ctx.check(admits_int and in01, "C19.R1", "_cast_primitive_bit: guard", m.path, node.lineno,
                         f"every path that returns a character must be guarded by isinstance({p}, int) and {p} in {{0, 1}}; other values must raise ValueError", node, found=guard or "<unguarded>"):
            continue
        # result alphabet: bool is a subclass of int, so the admitted classes are {int, bool}; str(True) == 'True'
        se = q.value_text()
        idiom = None
        if se in (f"str(int({p}))", f"'1' if {p} else '0'", f"'01'[{p}]", f"'01'[int({p})]", f"'0' if not {p} else '1'", f"'1' if {p} == 1 else '0'", f"'0' if {p} == 0 else '1'", "'0'", "'1'"):
            idiom = "maps both int and bool to '0'/'1'"
        bad = se in (f"str({p})", f"repr({p})", f"f'{{{p}}}'", f"format({p})", f"'{{}}'.format({p})", f"'%s' % {p}")
        if bad:
            ctx.fail("C19.R1", "_cast_primitive_bit: alphabet", m.path, node.lineno,
                     f"`{se}` renders a bool as 'True'/'False': bools pass the isinstance(int) guard, so characters other than '0'/'1' are produced", node,
                     expected="str(int(data))", found=se)
        elif idiom:
            ctx.ok("C19.R1", "_cast_primitive_bit: alphabet", f"{se}: {idiom}")
        else:
            ctx.broken(f"_cast_primitive_bit: return expression `{se}` is outside the enumerated idioms")


def r2_replay_order(ctx, m, shot) -> ast.For | None:
    fn_o = shot.methods.get("to_register_bits")
    if fn_o is None:
        ctx.broken("anchor vanished: QsysShot.to_register_bits")
    fn = ctx.cfn(f"{MOD}.QsysShot.to_register_bits")
    loops = [n for n in fn.body if isinstance(n, ast.For)]
    if len(loops) != 1:
        ctx.broken("QsysShot.to_register_bits: expected one replay loop")
    lp = loops[0]
    it = lp.iter
    seen = set()
    while isinstance(it, ast.Name) and it.id not in seen:
        seen.add(it.id)
        b = [s_.value for s_ in fn.body if isinstance(s_, ast.Assign) and isinstance(s_.targets[0], ast.Name) and s_.targets[0].id == it.id]
        if len(b) != 1:
            break
        it = b[0]
    src = u(it)
    ok = src in ("self.entries", "iter(self.entries)", "[*self.entries]", "(*self.entries,)")
    ctx.check(ok, "C19.R2", "QsysShot.to_register_bits: replay order", m.path, lp.lineno,
              f"the entries must be replayed in order as writes, but the loop iterates `{src}`: a dictionary keeps each tag at its *first* position, so with "
              "interleaved writes (a[0]=1; a=[0,0]; a[0]=1) a later write is applied before an earlier one and 'later writes override earlier ones' fails", lp,
              expected="self.entries", found=src)
    ct_o = shot.methods.get("collate_tags")
    ok = False
    if ct_o is not None:
        ct = ctx.cfn(f"{MOD}.QsysShot.collate_tags", subst=False)
        cl = [n for n in ct.body if isinstance(n, ast.For)]
        if len(cl) == 1 and u(cl[0].iter) == "self.entries" and isinstance(cl[0].target, ast.Tuple) and len(cl[0].target.elts) == 2:
            t_, d_ = u(cl[0].target.elts[0]), u(cl[0].target.elts[1])
            lps = summaries(ct.body[: ct.body.index(cl[0])] + cl[0].body)
            ok = bool(lps)
            acc = None
            for q in lps:
                h = q.find_effect(f"L_acc[{t_}].append({d_})") or q.find_effect(f"L_acc.setdefault({t_}, []).append({d_})")
                ok = ok and len(h) == 1 and q.kind == "fall" and not q.tests
                acc = h[0][2]["L_acc"] if h else acc
            rets = [r for r in ast.walk(ct) if isinstance(r, ast.Return)]
            ok = ok and acc is not None and len(rets) == 1 and u(rets[0].value) in (acc, f"dict({acc})", f"{{**{acc}}}")
            # acc[t].append needs a default list per key
            if ok and not any(q.find_effect(f"L_acc.setdefault({t_}, []).append({d_})") for q in lps):
                init = [s_ for s_ in ct.body if isinstance(s_, (ast.Assign, ast.AnnAssign)) and u(s_.targets[0] if isinstance(s_, ast.Assign) else s_.target) == acc]
                ok = len(init) == 1 and u(init[0].value) == "defaultdict(list)"
    ctx.check(ok, "C19.R2", "QsysShot.collate_tags: entry order", m.path, ct_o.lineno if ct_o else 1,
              "collation appends, per tag, every value of the shot in entry order", ct_o)
    return lp


def r3_grammar(ctx, m) -> None:
    m, pat = _where(ctx, m, "REG_INDEX_PATTERN")
    if not (isinstance(pat, ast.Call) and u(pat.func) == "re.compile" and isinstance(pat.args[0], ast.Constant)):
        ctx.broken("anchor vanished: REG_INDEX_PATTERN = re.compile(<literal>)")
    src = pat.args[0].value
    try:
        import re._parser as sre_parse  # type: ignore[import-not-found]
    except ImportError:  # pragma: no cover
        import sre_parse  # type: ignore[no-redef]
    tree = sre_parse.parse(src)
    items = list(tree)
    names = [str(op) for op, _ in items]
    ok = names == ["AT", "SUBPATTERN", "LITERAL", "SUBPATTERN", "LITERAL", "AT"] and str(items[0][1]) == "AT_BEGINNING" and str(items[5][1]) in ("AT_END",) \
        and items[2][1] == ord("[") and items[4][1] == ord("]") and tree.state.groups == 3
    if ok:
        g1 = list(items[1][1][3])
        g2 = list(items[3][1][3])
        ok = len(g1) == 2 and str(g1[0][0]) == "IN" and [(str(a), b) for a, b in g1[0][1]] == [("RANGE", (ord("a"), ord("z")))] \
            and str(g1[1][0]) == "MAX_REPEAT" and g1[1][1][0] == 0 and str(g1[1][1][1]) == "MAXREPEAT" \
            and len(g2) == 1 and str(g2[0][0]) == "MAX_REPEAT" and g2[0][1][0] == 1 and str(g2[0][1][1]) == "MAXREPEAT" \
            and [str(a) for a, _ in g2[0][1][2]] == ["IN"] and "CATEGORY_DIGIT" in str(g2[0][1][2][0][1])
    ctx.check(bool(ok), "C19.R3", "REG_INDEX_PATTERN: grammar", m.path, pat.lineno,
              r"the indexed-tag grammar must be ^ ([a-z][\w_]*) \[ (\d+) \] $ with exactly the two groups name and index", pat, found=src)
    doc = ast.get_docstring(m.tree) or ""
    ctx.check(src in doc, "C19.R3", "REG_INDEX_PATTERN: documented", m.path, pat.lineno,
              "the pattern in the code differs from the one the module documentation quotes", pat, found=src)


class _ArmGiveUp(Exception):
    pass


def indexed_arm_outcomes(stmts, acc: str, mvar: str, datav: str):
    """abstract execution of the indexed arm of the replay loop (canonical statements): the register `acc[<group 1>]` is followed as
    (exists?, length as a linear expression over L = its length before and n = int(<group 2>), fill character, writes).
    Returns the list of final states, one per feasible path; raises _ArmGiveUp on a statement it cannot follow."""
    from ..lin import Lin, constraint, infeasible, lin_of
    G0, G1 = f"{mvar}.groups()[0]", f"{mvar}.groups()[1]"
    n, L = Lin.sym("n"), Lin.sym("L")

    class St:
        def __init__(self, exists, length, cons, env, regs, writes, fills, created):
            self.exists, self.length, self.cons, self.env, self.regs, self.writes, self.fills, self.created = exists, length, cons, env, regs, writes, fills, created

        def copy(self):
            return St(self.exists, self.length, list(self.cons), dict(self.env), set(self.regs), list(self.writes), list(self.fills), self.created)

    def sub(e, st):
        from ..norm import _Subst
        import copy as _c
        return _Subst({k: v for k, v in st.env.items() if isinstance(v, ast.AST)}).visit(_c.deepcopy(e))

    def is_name(e, st):
        return u(sub(e, st)) == G0

    def is_reg(e, st):
        t = u(e)
        if t in st.regs:
            return True
        e2 = sub(e, st)
        return isinstance(e2, ast.Subscript) and u(e2.value) == acc and u(e2.slice) == G0

    def atom(st):
        def f(e):
            e2 = sub(e, st)
            if u(e2) == f"int({G1})":
                return n
            if isinstance(e, ast.Name) and isinstance(st.env.get(e.id), Lin):
                return st.env[e.id]
            if isinstance(e2, ast.Call) and u(e2.func) == "len" and len(e2.args) == 1 and (is_reg(e.args[0] if isinstance(e, ast.Call) else e2.args[0], st) or is_reg(e2.args[0], st)):
                if st.exists is not True:
                    raise _ArmGiveUp("length of a register that may not exist")
                return st.length
            return None
        return f

    def zeros(e, st):
        """['0'] * E  /  E * ['0']  /  ['0' for _ in range(E)]  -> E as Lin"""
        if isinstance(e, ast.BinOp) and isinstance(e.op, ast.Mult):
            for a, b in ((e.left, e.right), (e.right, e.left)):
                if isinstance(a, ast.List) and len(a.elts) == 1 and isinstance(a.elts[0], ast.Constant) and a.elts[0].value == "0":
                    return lin_of(b, atom(st))
        if isinstance(e, ast.ListComp) and isinstance(e.elt, ast.Constant) and e.elt.value == "0" and len(e.generators) == 1 and not e.generators[0].ifs \
                and isinstance(e.generators[0].iter, ast.Call) and u(e.generators[0].iter.func) == "range" and len(e.generators[0].iter.args) == 1:
            return lin_of(e.generators[0].iter.args[0], atom(st))
        if isinstance(e, ast.List) and all(isinstance(x, ast.Constant) and x.value == "0" for x in e.elts):
            return Lin({}, len(e.elts))
        return None

    def run(stmts, st):
        """-> list of final states"""
        if not stmts:
            return [st]
        s, rest = stmts[0], stmts[1:]
        if isinstance(s, (ast.Pass, ast.Continue)):
            return [st] if isinstance(s, ast.Continue) else run(rest, st)
        if isinstance(s, ast.If):
            t = s.test
            neg = False
            while isinstance(t, ast.UnaryOp) and isinstance(t.op, ast.Not):
                t, neg = t.operand, not neg
            out = []
            # membership of the register name in the accumulator
            if isinstance(t, ast.Compare) and len(t.ops) == 1 and isinstance(t.ops[0], (ast.In, ast.NotIn)) and is_name(t.left, st) and u(t.comparators[0]) == acc:
                present = isinstance(t.ops[0], ast.In) != neg
                if st.exists is None:
                    raise _ArmGiveUp("membership of an untracked register")
                branch = s.body if st.exists == present else s.orelse
                return run(list(branch) + rest, st)
            for taken, branch in ((True, s.body), (False, s.orelse)):
                c = constraint(t, taken != neg, atom(st))
                if c is None:
                    raise _ArmGiveUp(f"test `{u(s.test)}` is not a comparison of lengths and the index")
                st2 = st.copy()
                st2.cons += c
                if infeasible(st2.cons):
                    continue
                out += run(list(branch) + rest, st2)
            return out
        if isinstance(s, ast.Assign) and len(s.targets) == 1:
            tg, v = s.targets[0], s.value
            # (name, index string) = match.groups()
            if isinstance(tg, ast.Tuple) and len(tg.elts) == 2 and all(isinstance(x, ast.Name) for x in tg.elts) and u(sub(v, st)) == f"{mvar}.groups()":
                st.env[tg.elts[0].id] = ast.parse(G0, mode="eval").body
                st.env[tg.elts[1].id] = ast.parse(G1, mode="eval").body
                return run(rest, st)
            if isinstance(tg, ast.Name):
                v2 = sub(v, st)
                # alias of the register (a plain lookup needs it to exist; setdefault(name, []) creates it empty)
                if isinstance(v2, ast.Subscript) and u(v2.value) == acc and u(v2.slice) == G0:
                    if st.exists is not True:
                        raise _ArmGiveUp("the register is read before it exists (KeyError)")
                    st.regs.add(tg.id)
                    return run(rest, st)
                if isinstance(v2, ast.Call) and u(v2.func) == f"{acc}.setdefault" and len(v2.args) == 2 and u(v2.args[0]) == G0 \
                        and isinstance(v2.args[1], ast.List) and not v2.args[1].elts:
                    if st.exists is False:
                        st.exists, st.length, st.created = True, Lin({}, 0), True
                    st.regs.add(tg.id)
                    return run(rest, st)
                lv = lin_of(v, atom(st))
                if lv is not None:
                    st.env[tg.id] = lv
                    return run(rest, st)
                if u(v2) in (G0, G1, f"int({G1})"):
                    st.env[tg.id] = v2
                    return run(rest, st)
                raise _ArmGiveUp(f"assignment `{u(s)}`")
            if isinstance(tg, ast.Subscript):
                # acc[name] = zeros  : (re)creation
                if u(tg.value) == acc and is_name(tg.slice, st):
                    z = zeros(v, st)
                    if z is None:
                        raise _ArmGiveUp(f"register assigned `{u(v)}`")
                    st.exists, st.length, st.created = True, z, True
                    st.fills.append("0")
                    return run(rest, st)
                # reg[i] = bit
                if is_reg(tg.value, st):
                    i = lin_of(tg.slice, atom(st))
                    if i is None:
                        raise _ArmGiveUp(f"write at `{u(tg.slice)}`")
                    st.writes.append((i, u(sub(v, st)), st.length, list(st.cons)))
                    return run(rest, st)
            raise _ArmGiveUp(f"assignment `{u(s)}`")
        grow = None
        if isinstance(s, ast.AugAssign) and isinstance(s.op, ast.Add) and is_reg(s.target, st):
            grow = s.value
        if isinstance(s, ast.Expr) and isinstance(s.value, ast.Call) and isinstance(s.value.func, ast.Attribute) and s.value.func.attr == "extend" \
                and len(s.value.args) == 1 and is_reg(s.value.func.value, st):
            grow = s.value.args[0]
        if grow is not None:
            if st.exists is not True:
                raise _ArmGiveUp("growth of a register that may not exist")
            z = zeros(grow, st)
            if z is None:
                raise _ArmGiveUp(f"register grown by `{u(grow)}`")
            # ["0"] * z has max(0, z) elements: a count that may be negative splits the state
            out = []
            pos, neg_ = st.copy(), st.copy()
            pos.cons.append(z)
            if not infeasible(pos.cons):
                pos.length = pos.length + z
                pos.fills.append("0")
                out += run(rest, pos)
            neg_.cons.append(-z - 1)
            if not infeasible(neg_.cons):
                out += run(rest, neg_)
            return out
        if isinstance(s, ast.Expr) and isinstance(s.value, ast.Constant):
            return run(rest, st)
        raise _ArmGiveUp(f"statement `{u(s)[:80]}`")
    finals = []
    for exists in (True, False):
        st0 = St(exists, L if exists else None, [L] if exists else [], {}, set(), [], [], False)      # L >= 0
        st0.cons.append(n)                                                                             # n >= 0 (\d+)
        for f in run(list(stmts), st0):
            finals.append((exists, f))
    return finals


def _cast_shape(castfn):
    """_cast_primitive_bit as `if T(p): return R(p) else: raise E(p)` (canonical body, helpers seen through) -> (p, T, R, E) | None"""
    b = [x for x in castfn.body if not (isinstance(x, ast.Expr) and isinstance(x.value, ast.Constant))]
    if len(b) == 1 and isinstance(b[0], ast.If) and len(b[0].body) == 1 and isinstance(b[0].body[0], ast.Return) and b[0].body[0].value is not None \
            and len(b[0].orelse) == 1 and isinstance(b[0].orelse[0], ast.Raise) and b[0].orelse[0].exc is not None and len(castfn.args.args) == 1:
        return castfn.args.args[0].arg, b[0].test, b[0].body[0].value, b[0].orelse[0].exc
    return None


def _repr_normalise(cfull: ast.FunctionDef, castfn: ast.FunctionDef):
    """the registers held in another element type and converted where the bitstrings are read:

        return {k: ''.join(str(b) for b in bits) for k, bits in ACC.items()}

    with ACC a local dict of lists that are only built (displays, [c] * k, comprehensions), grown (extend / += / append), written by
    position and measured (len): converting every element where it is STORED instead gives the same strings, so the body is rewritten
    that way (str(0) is '0') and judged like the direct spelling.  A value checked where it is stored,
    `if T(d): .. R(d) .. else: raise E(d)` with T, R, E those of _cast_primitive_bit, is `.. _cast_primitive_bit(d) ..` (nothing
    survives the refusal: the accumulator is local and the function catches nothing).  None if the body is not of that shape."""
    import copy
    from ..norm import _Subst
    fn = copy.deepcopy(cfull)
    rets = [r for r in ast.walk(fn) if isinstance(r, ast.Return)]
    if len(rets) != 1 or rets[0].value is None or any(isinstance(n, (ast.Try, ast.With)) for n in ast.walk(fn)):
        return None
    e = tmatch(rets[0].value, T("{c0: ''.join((str(c2) for c2 in c1)) for c0, c1 in L_acc.items()}"))
    if e is None:
        return None
    acc = e["L_acc"]
    created = [x for x in fn.body if isinstance(x, ast.Assign) and u(x.targets[0]) == acc]
    if len(created) != 1 or u(created[0].value) != "{}":
        return None
    aliases = {acc}
    for n in ast.walk(fn):
        if isinstance(n, ast.Assign) and len(n.targets) == 1 and isinstance(n.targets[0], ast.Name):
            v = n.value
            if (isinstance(v, ast.Subscript) and u(v.value) == acc) or (isinstance(v, ast.Call) and u(v.func) == f"{acc}.setdefault" and len(v.args) == 2 and u(v.args[1]) == "[]"):
                aliases.add(n.targets[0].id)
    lists = aliases - {acc}
    ok = [True]

    def wrap(v):
        if isinstance(v, ast.Constant) and isinstance(v.value, int) and not isinstance(v.value, bool):
            return ast.Constant(str(v.value))
        if isinstance(v, ast.IfExp):
            return ast.IfExp(test=v.test, body=wrap(v.body), orelse=wrap(v.orelse))
        if isinstance(v, ast.Call) and u(v.func) == "raise_":
            return v
        return ast.Call(func=ast.Name(id="str", ctx=ast.Load()), args=[v], keywords=[])

    def wrap_list(v):
        if isinstance(v, ast.List) and not any(isinstance(x, ast.Starred) for x in v.elts):
            return ast.List(elts=[wrap(x) for x in v.elts], ctx=ast.Load())
        if isinstance(v, ast.BinOp) and isinstance(v.op, ast.Mult):
            if isinstance(v.left, ast.List):
                return ast.BinOp(left=wrap_list(v.left), op=v.op, right=v.right)
            if isinstance(v.right, ast.List):
                return ast.BinOp(left=v.left, op=v.op, right=wrap_list(v.right))
        if isinstance(v, ast.ListComp):
            return ast.ListComp(elt=wrap(v.elt), generators=v.generators)
        ok[0] = False
        return v
    handled = set()

    def is_list_ref(x):
        return (isinstance(x, ast.Name) and x.id in lists) or (isinstance(x, ast.Subscript) and u(x.value) == acc)
    # one-use locals holding a list that is then stored (the canonical form without substitution keeps them)
    defs = {}
    for n in ast.walk(fn):
        if isinstance(n, ast.Assign) and len(n.targets) == 1 and isinstance(n.targets[0], ast.Name):
            defs.setdefault(n.targets[0].id, []).append(n)
    for n in ast.walk(fn):
        if isinstance(n, ast.Assign) and len(n.targets) == 1:
            tg = n.targets[0]
            if isinstance(tg, ast.Subscript) and u(tg.value) == acc:
                n.value = wrap_list(n.value)
                handled.add(id(tg.value))
            elif isinstance(tg, ast.Subscript) and is_list_ref(tg.value):
                n.value = wrap(n.value)
                handled |= {id(x) for x in ast.walk(tg.value)}
            elif isinstance(tg, ast.Name) and tg.id in aliases:
                handled |= {id(x) for x in ast.walk(n.value) if isinstance(x, ast.Name) and x.id == acc}
                handled.add(id(tg))
        elif isinstance(n, ast.AugAssign) and isinstance(n.op, ast.Add) and is_list_ref(n.target):
            n.value = wrap_list(n.value)
            handled |= {id(x) for x in ast.walk(n.target)}
        elif isinstance(n, ast.Call) and isinstance(n.func, ast.Attribute) and is_list_ref(n.func.value) and len(n.args) == 1 and not n.keywords:
            if n.func.attr == "extend":
                n.args = [wrap_list(n.args[0])]
            elif n.func.attr == "append":
                n.args = [wrap(n.args[0])]
            else:
                ok[0] = False
            handled |= {id(x) for x in ast.walk(n.func.value)}
        elif isinstance(n, ast.Call) and u(n.func) == "len" and len(n.args) == 1 and is_list_ref(n.args[0]):
            handled |= {id(x) for x in ast.walk(n.args[0])}
        elif isinstance(n, ast.Compare) and len(n.ops) == 1 and isinstance(n.ops[0], (ast.In, ast.NotIn)) and u(n.comparators[0]) == acc:
            handled.add(id(n.comparators[0]))
    handled |= {id(x) for x in ast.walk(rets[0].value)} | {id(created[0].targets[0])}
    if not ok[0] or any(isinstance(n, ast.Name) and n.id in aliases and id(n) not in handled for n in ast.walk(fn)):
        return None
    rets[0].value = ast.parse(f"{{c0: ''.join(c1) for c0, c1 in {acc}.items()}}", mode="eval").body
    # ---- values checked where they are stored
    shape = _cast_shape(castfn)
    if shape is not None:
        p_, T_, R_, E_ = shape

        def inst(x, d):
            return u(_Subst({p_: d}).visit(copy.deepcopy(x)))

        def subject(test):
            """d with test == T(d): the parameter's occurrences all spell the same expression"""
            cands = {u(n): n for n in ast.walk(test) if isinstance(n, ast.expr)}
            for txt, d in cands.items():
                if inst(T_, d) == u(test):
                    return d
            return None

        class Out(ast.NodeTransformer):
            def __init__(self, d):
                self.d, self.hits = d, 0
                self.want = inst(R_, d)

            def visit(self, node):
                if isinstance(node, ast.expr) and u(node) == self.want:
                    self.hits += 1
                    return ast.Call(func=ast.Name(id=castfn.name, ctx=ast.Load()), args=[copy.deepcopy(self.d)], keywords=[])
                return super().visit(node)

        class IfE(ast.NodeTransformer):
            def visit_IfExp(self, node):
                self.generic_visit(node)
                d = subject(node.test)
                if d is not None and isinstance(node.orelse, ast.Call) and u(node.orelse.func) == "raise_" and len(node.orelse.args) == 1 \
                        and u(node.orelse.args[0]) == inst(E_, d) and u(node.body) == inst(R_, d):
                    return ast.Call(func=ast.Name(id=castfn.name, ctx=ast.Load()), args=[copy.deepcopy(d)], keywords=[])
                return node

        def block(b):
            out = []
            for s_ in b:
                for fld in ("body", "orelse"):
                    bb = getattr(s_, fld, None)
                    if isinstance(bb, list) and bb and isinstance(bb[0], ast.stmt):
                        setattr(s_, fld, block(bb))
                if isinstance(s_, ast.If) and len(s_.orelse) == 1 and isinstance(s_.orelse[0], ast.Raise) and s_.orelse[0].exc is not None:
                    d = subject(s_.test)
                    if d is not None and u(s_.orelse[0].exc) == inst(E_, d):
                        o = Out(d)
                        body = [o.visit(copy.deepcopy(x)) for x in s_.body]
                        if o.hits == 1 and not any(isinstance(n, ast.Attribute) and isinstance(n.ctx, (ast.Store, ast.Del)) for x in body for n in ast.walk(x)):
                            out += body
                            continue
                out.append(s_)
            return out
        from ..norm import forward_subst
        fn.body = forward_subst(fn.body) if any(isinstance(n, ast.Name) and n.id.startswith("t_") for n in ast.walk(fn)) else fn.body
        fn.body = block([IfE().visit(x) for x in fn.body])
    return ast.fix_missing_locations(fn)


def r4_write_semantics(ctx, m, shot, lp) -> None:
    """stated over the path summaries of one iteration of the replay loop: every local is replaced by its definition"""
    fn_o = shot.methods["to_register_bits"]
    fn = ctx.cfn(f"{MOD}.QsysShot.to_register_bits", subst=False)
    cfull = ctx.cfn(f"{MOD}.QsysShot.to_register_bits")
    # (registers held in another element type and converted where they are read: judged as if converted where they are stored)
    alt = _repr_normalise(cfull, ctx.cfn(f"{MOD}._cast_primitive_bit"))
    if alt is not None:
        fn = cfull = alt
        ctx.note("C19.R4: the registers are converted to characters where they are read; judged on the body that converts them where they are stored")
    loops = [n for n in fn.body if isinstance(n, ast.For)]
    lp = loops[0]
    tagv, datav = (u(lp.target.elts[0]), u(lp.target.elts[1])) if isinstance(lp.target, ast.Tuple) else ("?", "?")
    pre = fn.body[: fn.body.index(lp)]
    lps = [q for q in summaries(pre + lp.body)]
    # the accumulator: the dict the result is read from
    rets = [r for r in ast.walk(cfull) if isinstance(r, ast.Return)]
    e = tmatch(rets[0].value, T("{c0: ''.join(c1) for c0, c1 in L_acc.items()}")) if len(rets) == 1 else None
    ctx.check(e is not None, "C19.R4", "to_register_bits: bitstrings joined in position order", m.path, fn_o.lineno, "", fn_o, found=u(rets[0].value) if rets else "")
    if e is None:
        return
    acc = e["L_acc"]
    forms = [f"re.match(REG_INDEX_PATTERN, {tagv})", f"REG_INDEX_PATTERN.match({tagv})", f"re.fullmatch(REG_INDEX_PATTERN, {tagv})", f"REG_INDEX_PATTERN.fullmatch({tagv})"]
    M = None
    for q in lps:
        for t, k in q.tests:
            for f in forms:
                if u(t) == f"{f} is not None":
                    M = f
    ctx.check(M is not None, "C19.R4", "to_register_bits: tags are parsed with REG_INDEX_PATTERN", m.path, lp.lineno, "", lp)
    if M is None:
        ctx.broken("to_register_bits: indexed arm not found")
    indexed = [q for q in lps if any(u(t) == f"{M} is not None" and k for t, k in q.tests)]
    whole = [q for q in lps if any(u(t) == f"{M} is not None" and not k for t, k in q.tests)]
    name, idx = f"{M}.groups()[0]", f"int({M}.groups()[1])"
    reg = f"{acc}[{name}]"

    def stores(q):
        return [x for x in q.effects if isinstance(x, (ast.Assign, ast.AugAssign)) and u(x.targets[0] if isinstance(x, ast.Assign) else x.target).startswith(f"{acc}[")] + \
               [x for x in q.effects if isinstance(x, ast.Expr) and isinstance(x.value, ast.Call) and isinstance(x.value.func, ast.Attribute) and u(x.value.func.value).startswith(f"{acc}[")
                and x.value.func.attr in ("extend", "append", "insert")]
    # ---- the indexed arm, followed abstractly (hv/lin.py): whatever the spelling, after it the register <group 1> exists, has length
    #      max(length before, n + 1) with n = int(<group 2>), was only ever filled with '0', and position n holds the casted bit
    from ..lin import Lin, implies
    clp = [x for x in cfull.body if isinstance(x, ast.For)]
    arm, mv, why = None, None, ""
    if len(clp) == 1:
        bound = {u(x.targets[0]): u(x.value) for x in clp[0].body if isinstance(x, ast.Assign) and isinstance(x.targets[0], ast.Name)}
        for x in clp[0].body:
            if isinstance(x, ast.If):
                t = x.test
                e_ = tmatch(t, T("L_m is not None"))
                if e_ is not None and bound.get(e_["L_m"]) == M.replace(tagv, u(clp[0].target.elts[0])):
                    arm, mv = x.body, e_["L_m"]
    finals = []
    if arm is None:
        why = "the arm taken when the tag matches REG_INDEX_PATTERN was not found in the canonical body"
    else:
        try:
            finals = indexed_arm_outcomes(arm, acc, mv, u(clp[0].target.elts[1]))
        except _ArmGiveUp as ex:
            why = f"the indexed arm contains something the length analysis cannot follow: {ex}"
    n_, L_ = Lin.sym("n"), Lin.sym("L")
    cast = f"_cast_primitive_bit({u(clp[0].target.elts[1]) if clp else datav})"
    ok_n = ok_c = ok_g = ok_w = bool(finals)
    seen_e = set()
    for existed, f in finals:
        seen_e.add(existed)
        if f.exists is not True or len(f.writes) != 1:
            ok_n = ok_w = False
            why = why or "a path through the indexed arm does not write exactly one position of the register"
            continue
        i_, val, len_at, cons = f.writes[0]
        if i_ != n_:
            ok_n = False
            why = why or f"the position written is {i_}, not the integer of group 2"
        if val != cast or len_at != f.length or any(c != "0" for c in f.fills):
            ok_w = False
            why = why or f"the bit written is `{val}` / the register changes after the write"
        if not existed:
            if f.length != n_ + 1:
                ok_c = False
                why = why or f"a register created by an indexed write gets length {f.length}, not n + 1"
        else:
            # the register must end with length max(L, n + 1)
            if implies(f.cons, n_ - L_ + 1, nonneg=("n", "L")):
                good = f.length == n_ + 1
            elif implies(f.cons, L_ - n_ - 1, nonneg=("n", "L")):
                good = f.length == L_
            else:
                good = False
            if not good:
                ok_g = False
                why = why or f"an existing register of length L ends with length {f.length} on the path {[str(c) + ' >= 0' for c in f.cons]}"
    if seen_e != {True, False}:
        ok_c = ok_c and False in seen_e
        ok_g = ok_g and True in seen_e
    ctx.check(ok_n, "C19.R4", "to_register_bits: name and index come from the two groups in order", m.path, lp.lineno,
              "group 1 is the register name, group 2 its decimal index" + (f" [{why}]" if why and not ok_n else ""), lp, found=why)
    ctx.check(ok_c, "C19.R4", "to_register_bits: register created with index+1 zeros", m.path, lp.lineno,
              "an indexed write to an unknown register creates it with n+1 zero bits" + (f" [{why}]" if why and not ok_c else ""), lp)
    ctx.check(ok_g, "C19.R4", "to_register_bits: register grown with zeros to index+1", m.path, lp.lineno,
              "a write beyond the current length grows the register in place with '0' up to n+1 bits; a write inside it leaves the length alone"
              + (f" [{why}]" if why and not ok_g else ""), lp)
    ctx.check(ok_w, "C19.R4", "to_register_bits: one bit written at position n", m.path, lp.lineno,
              "the indexed arm writes exactly position n with the casted bit, after any growth" + (f" [{why}]" if why and not ok_w else ""), lp)
    ok_x = all(not any(isinstance(x, ast.Assign) and u(x.targets[0]) == f"{acc}[{tagv}]" for x in q.effects) for q in indexed) and bool(whole)
    ctx.check(ok_x, "C19.R4", "to_register_bits: arms are exclusive", m.path, lp.lineno,
              "an indexed tag must not also be treated as a whole-register write", lp)
    # whole-register arm
    ok = bool(whole)
    vals = []
    seen = set()
    for q in whole:
        st = stores(q)
        is_list = [k for t, k in q.tests if u(t) == f"isinstance({datav}, list)"]
        vals += [u(x) for x in st]
        if len(st) != 1 or not isinstance(st[0], ast.Assign) or u(st[0].targets[0]) != f"{acc}[{tagv}]" or not is_list:
            ok = False
            continue
        seen.add(is_list[0])
        want = f"[_cast_primitive_bit(c0) for c0 in {datav}]" if is_list[0] else f"[_cast_primitive_bit({datav})]"
        ok = ok and _alpha(u(st[0].value)) == want
    ctx.check(ok and seen == {True, False}, "C19.R4", "to_register_bits: whole-register write overwrites", m.path, lp.lineno,
              "any other tag overwrites the whole register with the casted bit or list of bits", lp, found="; ".join(vals)[:300])
    # every stored character is a casted bit or the literal '0'
    bad = []
    for q in lps:
        for x in stores(q):
            v = x.value if isinstance(x, (ast.Assign, ast.AugAssign)) else x.value.args[0]
            txt = u(v)
            if not ("_cast_primitive_bit(" in txt or "'0'" in txt):
                bad.append(x)
    ctx.check(not bad, "C19.R4", "to_register_bits: alphabet of stored characters", m.path, (getattr(bad[0], "lineno", lp.lineno) if bad else lp.lineno),
              "every character stored must come from _cast_primitive_bit or be the filler '0'", bad[0] if bad else None)


def _alpha(txt: str) -> str:
    """comprehension variables renamed c0, c1, .. (path substitution keeps the source's names)"""
    from ..canon import expr_norm
    try:
        st = ast.parse(txt, mode="exec").body
        return u(expr_norm(st)[0].value)
    except SyntaxError:
        return txt


def r5_strict(ctx, m, res) -> None:
    """stated over path summaries: the refusals are the paths that end in ValueError inside the shot loop"""
    fn = res.methods.get("register_bitstrings")
    if fn is None:
        ctx.broken("anchor vanished: QsysResult.register_bitstrings")
    Q = f"{MOD}.QsysResult.register_bitstrings"
    ps = ctx.paths(Q)
    rets = [q for q in ps if q.kind == "return"]
    acc = None
    for q in rets:
        e = tmatch(q.value, T("dict(L_acc)")) or tmatch(q.value, T("L_acc"))
        acc = e["L_acc"] if e else acc
    cfn = ctx.cfn(Q, subst=False)
    outer = [n for n in cfn.body if isinstance(n, ast.For) and "self.results" in u(n.iter)]
    if acc is None or len(outer) != 1:
        ctx.fail("C19.R5", "register_bitstrings: per-shot strings in shot order", m.path, fn.lineno,
                 "register_bitstrings must loop over self.results in order and return the accumulated per-register lists", fn)
        return
    olp = outer[0]
    idx = u(olp.target.elts[0]) if isinstance(olp.target, ast.Tuple) and u(olp.iter).startswith("enumerate(") else None
    shot = u(olp.target.elts[-1]) if isinstance(olp.target, ast.Tuple) else u(olp.target)
    S = f"{shot}.to_register_bits()"
    in_loop = [q for q in ps if any(isinstance(t, ast.Call) and u(t.func) == "in_loop_" and "self.results" in u(t.args[0]) for t, _ in q.tests)]

    def mutates_acc(q):
        return [x for x in q.effects if (isinstance(x, (ast.Assign, ast.AugAssign)) and u(x.targets[0] if isinstance(x, ast.Assign) else x.target).startswith(acc + "[")) or
                (isinstance(x, ast.Expr) and isinstance(x.value, ast.Call) and isinstance(x.value.func, ast.Attribute) and u(x.value.func.value).startswith(acc)
                 and x.value.func.attr in ("append", "extend", "setdefault", "update", "insert"))]
    keys_forms = {f"{S}.keys() == {acc}.keys()", f"{acc}.keys() == {S}.keys()", f"set({S}) == set({acc})", f"set({acc}) == set({S})"}
    # a snapshot of the first shot's register set: X = None before the loop; inside it, X = set(<this shot's registers>) exactly on the
    # path where X is still None.  Comparing with X is comparing with the first shot; "X is not None" is "not the first shot".
    bound_S = {u(s_.targets[0]) for s_ in olp.body if isinstance(s_, ast.Assign) and u(s_.value) == S} | {S}
    snap_vals = {f(b_) for b_ in bound_S for f in (lambda x: f"set({x})", lambda x: f"{x}.keys()", lambda x: f"set({x}.keys())", lambda x: f"frozenset({x})")}
    snapshots = set()
    for s_ in cfn.body[: cfn.body.index(olp)]:
        if isinstance(s_, ast.Assign) and isinstance(s_.targets[0], ast.Name) and isinstance(s_.value, ast.Constant) and s_.value.value is None:
            x_ = s_.targets[0].id
            sets_ = [n for n in ast.walk(olp) if isinstance(n, ast.Assign) and u(n.targets[0]) == x_]
            def sets_x(q):
                return x_ in q.env and u(q.env[x_]) in snap_vals

            def still_none(q):
                return any(re.sub(r"_u\d+", "", u(t)) == f"{x_} is not None" and not k for t, k in q.tests)
            body_qs = summaries(olp.body)
            if len(sets_) == 1 and u(sets_[0].value) in snap_vals and any(sets_x(q) for q in body_qs) and all(still_none(q) for q in body_qs if sets_x(q)) \
                    and not any(x_ in q.env and not sets_x(q) and u(q.env[x_]) != x_ for q in body_qs):
                snapshots.add(x_)
                keys_forms |= {f"{S}.keys() == {x_}", f"{x_} == {S}.keys()", f"set({S}) == {x_}", f"{x_} == set({S})"}
    # a record of the first length seen per register: L = {} before the loop, only ever touched as L.setdefault(reg, len(bits))
    len_records = set()
    for s_ in cfn.body[: cfn.body.index(olp)]:
        if isinstance(s_, ast.Assign) and isinstance(s_.targets[0], ast.Name) and isinstance(s_.value, ast.Dict) and not s_.value.keys:
            x_ = s_.targets[0].id
            uses = [n for n in ast.walk(cfn) if isinstance(n, ast.Name) and n.id == x_ and isinstance(n.ctx, ast.Load)]
            calls_ = [n for n in ast.walk(cfn) if isinstance(n, ast.Call) and isinstance(n.func, ast.Attribute) and n.func.attr == "setdefault" and u(n.func.value) == x_]
            if uses and len(uses) == len(calls_) and x_ != acc:
                len_records.add(x_)

    # a first-iteration flag: F = True before the loop, F = False unconditionally in the loop body (once), nothing else stores it:
    # inside the body, before that store, `F` is true exactly in the first iteration -- as positional as an enumerate index
    first_flags = set()
    for s_ in cfn.body[: cfn.body.index(olp)]:
        if isinstance(s_, ast.Assign) and isinstance(s_.targets[0], ast.Name) and isinstance(s_.value, ast.Constant) and s_.value.value is True:
            x_ = s_.targets[0].id
            st_all = [n for n in ast.walk(cfn) if isinstance(n, ast.Name) and n.id == x_ and isinstance(n.ctx, (ast.Store, ast.Del))]
            top = [b_ for b_ in olp.body if isinstance(b_, ast.Assign) and u(b_.targets[0]) == x_ and isinstance(b_.value, ast.Constant) and b_.value.value is False]
            if len(st_all) == 2 and len(top) == 1:
                # read only before the store within the body
                k_ = olp.body.index(top[0])
                late = [n for b_ in olp.body[k_ + 1:] for n in ast.walk(b_) if isinstance(n, ast.Name) and n.id == x_]
                if not late:
                    first_flags.add(x_)

    def norm_t(t):
        return re.sub(r"_u\d+", "", u(t))
    for flag, what in (("strict_names", "register sets"), ("strict_lengths", "lengths")):
        cand = [q for q in in_loop if any(u(t) == flag and k for t, k in q.tests)]
        if flag == "strict_names":
            differ = [q for q in cand if any(norm_t(t) in keys_forms and not k for t, k in q.tests)]
        else:
            differ = [q for q in cand if any(isinstance(t, ast.Compare) and isinstance(t.ops[0], ast.Eq) and "len(" in u(t.left) and "len(" in u(t.comparators[0]) and not k for t, k in q.tests)]
        ok = bool(differ) and all(q.kind == "raise" and q.value is not None and "ValueError" in u(q.value) for q in differ)
        ctx.check(ok, "C19.R5", f"register_bitstrings: {flag} raises ValueError", m.path, fn.lineno, f"differing {what} must be rejected with ValueError when {flag} is set", fn,
                  found="; ".join(q.describe() for q in cand)[:300])
        if not ok:
            continue
        # check-before-update: on the refusing paths the shot has not been merged into the accumulator yet
        merged_first = [q for q in differ if mutates_acc(q)]
        node = differ[0].node
        ctx.check(not merged_first, "C19.R5", f"register_bitstrings: {flag} tested before the shot is merged", m.path, getattr(node, "lineno", fn.lineno),
                  f"the {flag} test compares this shot's {what} with the accumulated ones *after* the shot has been merged into them: registers that "
                  "appear for the first time in a later shot are already in the accumulator, so only missing registers are ever noticed", node,
                  detail="test precedes the merge within a shot")
        if flag == "strict_names":
            ctx.ok("C19.R5", "register_bitstrings: strict_names compares the register sets", "keys of this shot vs keys accumulated")
            if not merged_first:
                # the exemption of the first shot must be positional (the loop's enumerate index): exempting "while the accumulator
                # is empty" also exempts every shot that follows shots without registers
                q = differ[0]
                others = [(t, k) for t, k in q.tests if u(t) != flag and norm_t(t) not in keys_forms and not (isinstance(t, ast.Call) and u(t.func) == "in_loop_")]
                positional = bool(others) and all((idx is not None and {x.id for x in ast.walk(t) if isinstance(x, ast.Name)} == {idx}) or
                                                  (k and any(norm_t(t) == f"{x_} is not None" for x_ in snapshots)) or
                                                  (not k and norm_t(t) in first_flags) for t, k in others)
                by_content = [t for t, k in others if acc in u(t) or S in u(t)]
                ctx.check(positional and not by_content, "C19.R5", "register_bitstrings: only the first shot is exempt from the strict_names test", m.path, getattr(node, "lineno", fn.lineno),
                          "the first shot defines the register set and must be the only one exempt from the comparison; the exemption here is "
                          f"`{' and '.join(('' if k else 'not ') + u(t) for t, k in others) or '<none>'}`" + (", which depends on the accumulator's content: every shot following shots "
                          "without registers is exempt too, so differing register sets are accepted" if by_content else ""), node,
                          expected="<shot index> > 0", found=" and ".join(("" if k else "not ") + u(t) for t, k in others))
        else:
            q = differ[0]
            regs = [t for t, k in q.tests if isinstance(t, ast.Call) and u(t.func) == "in_loop_" and u(t.args[0]) == f"{S}.items()"]
            r_, b_ = (u(regs[0].args[1].elts[0]), u(regs[0].args[1].elts[1])) if regs and len(regs[0].args) > 1 and isinstance(regs[0].args[1], ast.Tuple) else ("?", "?")
            # (with the test made before every append, all strings recorded for a register have one length: the first and the last
            #  recorded one are as good as each other)
            lists = (f"{acc}[{r_}]", f"{acc}.get({r_})", f"{acc}.setdefault({r_}, [])")
            # (a local of the iteration bound to one of these -- the summary of a loop body keeps the names bound in it)
            lists += tuple(n.targets[0].id for n in ast.walk(olp) if isinstance(n, ast.Assign) and isinstance(n.targets[0], ast.Name) and u(n.value) in lists)
            present = any(u(t) in (f"{r_} in {acc}", f"{acc}.get({r_}) is not None") + lists[1:] and k for t, k in q.tests)
            cmp_ = any(u(t) in [f for l_ in lists for i_ in ("0", "-1") for f in (f"len({l_}[{i_}]) == len({b_})", f"len({b_}) == len({l_}[{i_}])")]
                       and not k for t, k in q.tests)
            rec = any(norm_t(t) in (f"{x_}.setdefault({r_}, len({b_})) == len({b_})", f"len({b_}) == {x_}.setdefault({r_}, len({b_}))") and not k
                      for t, k in q.tests for x_ in len_records)
            ctx.check((present and cmp_) or rec, "C19.R5", "register_bitstrings: strict_lengths compares with the first recorded length",
                      m.path, getattr(node, "lineno", fn.lineno), "", node, found=q.describe()[:300])
    # per-shot strings in shot order: each register's string of each shot is appended to that register's list
    inner = [n for n in ast.walk(olp) if isinstance(n, ast.For) and n is not olp]
    ok = len(inner) == 1 and isinstance(inner[0].target, ast.Tuple) and len(inner[0].target.elts) == 2
    if ok:
        r_, b_ = u(inner[0].target.elts[0]), u(inner[0].target.elts[1])
        pre = [s_ for s_ in olp.body if isinstance(s_, (ast.Assign, ast.AnnAssign))]
        body_ps = [q for q in summaries(pre + inner[0].body) if q.kind != "raise"]
        ok = bool(body_ps)
        for q in body_ps:
            mu = mutates_acc(q)
            # `l = acc.setdefault(r, [])` evaluated on its own, then appended to: the setdefault-append idiom in two steps
            if len(mu) == 2 and u(mu[0]) == f"{acc}.setdefault({r_}, [])" and u(mu[1]) == f"{acc}.setdefault({r_}, []).append({b_})":
                mu = mu[1:]
            # .. or through a local of the iteration bound to it
            al = [n.targets[0].id for n in ast.walk(inner[0]) if isinstance(n, ast.Assign) and isinstance(n.targets[0], ast.Name) and u(n.value) == f"{acc}.setdefault({r_}, [])"]
            if len(al) == 1 and len(mu) <= 1 and all(u(x) == f"{acc}.setdefault({r_}, [])" for x in mu):
                app = [x for x in q.effects if isinstance(x, ast.Expr) and u(x) == f"{al[0]}.append({b_})"]
                bind = [x for x in q.effects if isinstance(x, ast.Assign) and u(x) == f"{al[0]} = {acc}.setdefault({r_}, [])"]
                other = [x for x in q.effects if isinstance(x, ast.Expr) and isinstance(x.value, ast.Call) and isinstance(x.value.func, ast.Attribute)
                         and u(x.value.func.value) == al[0] and x not in app]
                if len(app) == 1 and (len(bind) == 1 or mu) and not other and q.effects.index(app[0]) > (q.effects.index(bind[0]) if bind else -1):
                    mu = [ast.parse(f"{acc}.setdefault({r_}, []).append({b_})").body[0]]
            present = [k for t, k in q.tests if u(t) in (f"{r_} in {acc}", f"{acc}.get({r_}) is not None")]
            good = len(mu) == 1 and (u(mu[0]) in (f"{acc}[{r_}].append({b_})", f"{acc}.setdefault({r_}, []).append({b_})") or
                                     (present and present[0] and u(mu[0]) == f"{acc}.get({r_}).append({b_})") or
                                     (present and not present[0] and u(mu[0]) == f"{acc}[{r_}] = [{b_}]"))
            ok = ok and good
        it_ok = any(isinstance(s_, ast.Assign) and u(s_.value) == S and u(inner[0].iter) == f"{u(s_.targets[0])}.items()" for s_ in olp.body) or u(inner[0].iter) == f"{S}.items()"
        ok = ok and it_ok
    ctx.check(ok, "C19.R5", "register_bitstrings: per-shot strings in shot order", m.path, fn.lineno,
              "per-register lists are the per-shot strings of to_register_bits() in shot order", fn)


def _flatmap(m, name, ctx=None):
    """H when the module function `name` is  def F(xs): for x in xs: if isinstance(x, list): yield from F(x) else: yield H(x)
    (depth-first flattening of nested lists with H applied to the leaves; H = "" for the identity); None otherwise"""
    fn = m.functions.get(name)
    owner = None
    if fn is None and name.count(".") == 1 and name.split(".")[0] in m.classes:
        # a static method of a (namespace) class of the module, called through the class
        owner = m.classes[name.split(".")[0]]
        fn = owner.methods.get(name.split(".")[1])
        if fn is not None and not any(u(d) == "staticmethod" for d in fn.decorator_list):
            fn = None
    if fn is None or len(fn.args.args) != 1 or fn.args.vararg or fn.args.kwarg:
        return None
    p = fn.args.args[0].arg
    b = real_body(fn)
    if ctx is not None:
        try:
            b = (ctx.canon.fn(fn, m, owner) if owner is not None else ctx.cfn(f"{m.name}.{name}")).body        # guard-clause / continue layouts coincide
        except Exception:
            pass
    if len(b) != 1 or not isinstance(b[0], ast.For) or b[0].orelse or u(b[0].iter) != p or not isinstance(b[0].target, ast.Name) or len(b[0].body) != 1:
        return None
    x = b[0].target.id
    st = b[0].body[0]
    if not (isinstance(st, ast.If) and u(st.test) == f"isinstance({x}, list)" and len(st.body) == 1 and len(st.orelse) == 1):
        return None
    rec, leaf = st.body[0], st.orelse[0]
    short = name.split(".")[-1]
    if not (isinstance(rec, ast.Expr) and isinstance(rec.value, ast.YieldFrom) and u(rec.value.value) in (f"{name}({x})", f"{short}({x})", f"{short}({p}={x})", f"{name}({p}={x})")):
        return None
    if not (isinstance(leaf, ast.Expr) and isinstance(leaf.value, ast.Yield) and leaf.value.value is not None):
        return None
    v = leaf.value.value
    if isinstance(v, ast.Name) and v.id == x:
        return ""
    if isinstance(v, ast.Call) and isinstance(v.func, ast.Name) and len(v.args) == 1 and not v.keywords and u(v.args[0]) == x:
        return v.func.id
    return None


def _flat_bits_of(ctx, m, g):
    """(leaf function, data) when the iterable g yields leaf(p) for every primitive p of the nested lists in data, depth first:
    F(data) with F a flattening generator, or (H(p) for p in F(data)) with F flattening with the identity on leaves"""
    if isinstance(g, ast.Call) and isinstance(g.func, (ast.Name, ast.Attribute)) and len(g.args) == 1 and not g.keywords:
        h = _flatmap(m, u(g.func), ctx)
        if h:
            return h, u(g.args[0])
    if isinstance(g, (ast.GeneratorExp, ast.ListComp)) and len(g.generators) == 1 and not g.generators[0].ifs and isinstance(g.generators[0].target, ast.Name):
        it, v = g.generators[0].iter, g.generators[0].target.id
        if isinstance(it, ast.Call) and isinstance(it.func, (ast.Name, ast.Attribute)) and len(it.args) == 1 and not it.keywords and _flatmap(m, u(it.func), ctx) == "" \
                and isinstance(g.elt, ast.Call) and isinstance(g.elt.func, ast.Name) and len(g.elt.args) == 1 and not g.elt.keywords and u(g.elt.args[0]) == v:
            return g.elt.func.id, u(it.args[0])
    return None


def r6_wrappers(ctx, m, res) -> None:
    from ..tmpl import thas
    RQ = f"{MOD}.QsysResult"
    rc_o = res.methods.get("register_counts")
    rc = ctx.cfn(f"{RQ}.register_counts") if rc_o else None
    c = [x for x in calls_in(rc, "register_bitstrings")] if rc else []
    ok = len(c) == 1 and kwarg(c[0], "strict_lengths", 1) is not None and u(kwarg(c[0], "strict_lengths", 1)) == "strict_lengths" \
        and kwarg(c[0], "strict_names", 0) is not None and u(kwarg(c[0], "strict_names", 0)) == "strict_names"
    ctx.check(ok, "C19.R6", "QsysResult.register_counts forwards both flags", m.path, rc_o.lineno if rc_o else 1,
              "register_counts must pass strict_names and strict_lengths on to register_bitstrings under the same names", rc_o)
    ok = rc is not None and thas(rc, "return {c0: Counter(c1) for c0, c1 in self.register_bitstrings(ANY_, ANY_).items()}")
    ctx.check(ok, "C19.R6", "QsysResult.register_counts counts the per-shot strings", m.path, rc_o.lineno if rc_o else 1, "", rc_o)
    cc_o = res.methods.get("collated_counts")
    ok = False
    if cc_o is not None:
        # canonical body with the two small helpers of the original seen through; the string of a tag is the bit characters of every
        # primitive in its (arbitrarily nested) collated values, depth first
        from ..tmpl import T, tmatch
        cc = ctx.cfn(f"{RQ}.collated_counts", inline=("_collated_shots_iter", "_flat_bitstring"))
        rets = [r for r in ast.walk(cc) if isinstance(r, ast.Return)]
        e = tmatch(rets[0].value, T("Counter(((*((L_t, ''.join(E_g)) for L_t, L_d in L_s.collate_tags().items()),) for L_s in self.results))")) \
            if len(rets) == 1 and len(cc.body) == 1 and rets[0].value is not None else None
        if e is not None:
            ok = _flat_bits_of(ctx, m, ast.parse(e["E_g"], mode="eval").body) == ("_cast_primitive_bit", e["L_d"])
    ctx.check(ok, "C19.R6", "QsysResult.collated_counts", m.path, cc_o.lineno if cc_o else 1, "collated counts pair every tag with the flattened bitstring of its collated values, per shot", cc_o)
    cc_ok = ok
    fb = m.functions.get("_flat_bitstring")
    # (the two helpers are judged on their own while they exist; without them the rule above has already followed whatever
    #  flattening generator collated_counts uses, down to its leaves)
    ok = (fb is None and cc_ok) or fb is not None and thas(ctx.cfn(f"{MOD}._flat_bitstring"), f"return ''.join((_cast_primitive_bit(c0) for c0 in _flatten({fb.args.args[0].arg})))")
    ctx.check(ok, "C19.R6", "_flat_bitstring casts every flattened primitive in order", m.path, fb.lineno if fb else 1, "", fb, found=u(real_body(fb)[-1]) if fb else "")
    fl = m.functions.get("_flatten")
    ok = False
    if fl is not None:
        # canonical body + loop-body summaries: a list element is flattened in place, anything else is yielded, nothing is skipped
        cf_ = ctx.cfn(f"{MOD}._flatten", subst=False)
        lps_ = [n for n in cf_.body if isinstance(n, ast.For)]
        if len(lps_) == 1 and len(cf_.body) == 1 and isinstance(lps_[0].target, ast.Name) and u(lps_[0].iter) == fl.args.args[0].arg:
            v_ = lps_[0].target.id
            qs = summaries(lps_[0].body)
            ok = bool(qs)
            kinds = set()
            for q in qs:
                il = [k for t, k in q.tests if u(t) == f"isinstance({v_}, list)"]
                effs = q.effect_texts()
                if il and il[0]:
                    kinds.add("list")
                    ok = ok and effs == [f"yield from _flatten({v_})"] and q.kind in ("fall", "continue")
                elif il:
                    kinds.add("leaf")
                    ok = ok and effs == [f"yield {v_}"] and q.kind in ("fall", "continue")
                else:
                    ok = False
            ok = ok and kinds == {"list", "leaf"}
    ctx.check(ok or (fl is None and cc_ok), "C19.R6", "_flatten recurses into lists in order", m.path, fl.lineno if fl else 1, "", fl)
    it = res.methods.get("_collated_shots_iter")
    ok = (it is None and cc_ok) or it is not None and thas(ctx.cfn(f"{RQ}._collated_shots_iter"), "return (c0.collate_tags() for c0 in self.results)")
    ctx.check(ok, "C19.R6", "QsysResult._collated_shots_iter", m.path, it.lineno if it else 1, "one collated dictionary per shot, in shot order", it)
    ad = ctx.program.cls(f"{MOD}.QsysShot").methods.get("as_dict")
    ctx.check(ad is not None and u(real_body(ad)[-1]) == "return dict(self.entries)", "C19.R6", "QsysShot.as_dict", m.path, ad.lineno if ad else 1, "", ad)


def run(ctx) -> None:
    ctx.rule("C19.R1", "_cast_primitive_bit: guard admits int/bool in {0,1}; the returned string is '0'/'1' for both classes; ValueError otherwise", floor=3)
    ctx.rule("C19.R2", "register bits are replayed over self.entries in order (as collate_tags does)", floor=2)
    ctx.rule("C19.R3", "tag grammar: regex AST of REG_INDEX_PATTERN and its documentation", floor=2)
    ctx.rule("C19.R4", "write semantics of the indexed and whole-register arms; every stored character is a casted bit or the filler '0'", floor=9)
    ctx.rule("C19.R5", "strict options raise ValueError and are tested before the shot is merged into the accumulator", floor=6)
    ctx.rule("C19.R6", "register_counts / collated_counts / flattening wrappers", floor=7)
    m = ctx.program.module(MOD)
    shot = m.classes.get("QsysShot")
    res = m.classes.get("QsysResult")
    if shot is None or res is None:
        ctx.broken("anchor vanished: QsysShot / QsysResult")
    r1_alphabet(ctx, m)
    lp = r2_replay_order(ctx, m, shot)
    r3_grammar(ctx, m)
    r4_write_semantics(ctx, m, shot, lp)
    r5_strict(ctx, m, res)
    r6_wrappers(ctx, m, res)
    # the entries are replayed once per conversion (to_register_bits, collate_tags, as_dict, ..): the shot must own a LIST of them,
    # whatever iterable it was built from
    ctx.rule("C19.R7", "a shot owns its entries as a list: the constructor materialises the iterable it is given", floor=1)
    init = shot.find_method("__init__")[1]
    if init is None:
        ctx.fail("C19.R7", "QsysShot.__init__: entries materialised", m.path, shot.node.lineno,
                 "QsysShot has no constructor of its own: the generated one keeps the `entries` argument as given, so a one-shot iterable "
                 "(zip, generator) is emptied by the first conversion and every later one replays nothing", shot.node)
    else:
        from ..rulekit import need_exact
        need_exact(ctx, "C19.R7", f"{MOD}.QsysShot.__init__", "QsysShot.__init__: entries materialised",
                   [["self.entries = list(L_e or [])"], ["self.entries = list(L_e) if L_e else []"], ["self.entries = [] if L_e is None else list(L_e)"],
                    ["self.entries = list(L_e) if L_e is not None else []"], ["self.entries = [*(L_e or [])]"], ["self.entries = [*(L_e or ())]"], ["self.entries = list(L_e or ())"]],
                   "the entries must be copied into a list")
    from .. import lints
    lints.arm(ctx)



# ---------------------------------------------------------------------------------------
Q = "hugr-py/src/hugr/qsystem/result.py"
MUTANTS = [
    dict(name="entries-kept-as-given", file=Q, expect="C19.R7", old="        self.entries = list(entries or [])", new="        self.entries = entries or []"),
    dict(name="str-of-bool", file=Q, expect="C19.R1", old="        return str(int(data))  # type: ignore[return-value]", new="        return str(data)  # type: ignore[return-value]"),
    dict(name="guard-accepts-two", file=Q, expect="C19.R1", old="    if isinstance(data, int) and data in {0, 1}:", new="    if isinstance(data, int) and data in {0, 1, 2}:"),
    dict(name="guard-accepts-floats", file=Q, expect="C19.R1", old="    if isinstance(data, int) and data in {0, 1}:", new="    if data in {0, 1}:"),
    dict(name="no-valueerror", file=Q, expect="C19.R1", old="    msg = f\"Expected bit data for register value found {data}\"\n    raise ValueError(msg)", new="    return \"0\""),
    dict(name="replay-over-dict", file=Q, expect="C19.R2", old="        for tag, data in self.entries:\n            match = re.match", new="        for tag, data in self.as_dict().items():\n            match = re.match"),
    dict(name="replay-reversed", file=Q, expect="C19.R2", old="        for tag, data in self.entries:\n            match = re.match", new="        for tag, data in reversed(self.entries):\n            match = re.match"),
    dict(name="collate-last-only", file=Q, expect="C19.R2", old="        for tag, data in self.entries:\n            tags[tag].append(data)", new="        for tag, data in self.as_dict().items():\n            tags[tag].append(data)"),
    dict(name="regex-uppercase", file=Q, expect="C19.R3", old="REG_INDEX_PATTERN = re.compile(r\"^([a-z][\\w_]*)\\[(\\d+)\\]$\")", new="REG_INDEX_PATTERN = re.compile(r\"^([a-zA-Z][\\w_]*)\\[(\\d+)\\]$\")"),
    dict(name="regex-unanchored", file=Q, expect="C19.R3", old="REG_INDEX_PATTERN = re.compile(r\"^([a-z][\\w_]*)\\[(\\d+)\\]$\")", new="REG_INDEX_PATTERN = re.compile(r\"([a-z][\\w_]*)\\[(\\d+)\\]$\")"),
    dict(name="regex-single-digit", file=Q, expect="C19.R3", old="REG_INDEX_PATTERN = re.compile(r\"^([a-z][\\w_]*)\\[(\\d+)\\]$\")", new="REG_INDEX_PATTERN = re.compile(r\"^([a-z][\\w_]*)\\[(\\d)\\]$\")"),
    # (behaviour-preserving: the growth step that follows pads the shorter new register to n + 1 -- the length analysis sees that; the earlier
    #  syntactic rule flagged it)
    dict(name="create-two-short", file=Q, expect="C19.R4", old="                    reg_bits[reg_name] = [\"0\"] * (reg_index + 1)", new="                    reg_bits[reg_name] = [\"0\"] * (reg_index + 2)"),
    dict(name="grow-off-by-one", file=Q, expect="C19.R4", old="                    bitlst += [\"0\"] * (reg_index - len(bitlst) + 1)", new="                    bitlst += [\"0\"] * (reg_index - len(bitlst))"),
    dict(name="grow-with-ones", file=Q, expect="C19.R4", old="                    bitlst += [\"0\"] * (reg_index - len(bitlst) + 1)", new="                    bitlst += [\"1\"] * (reg_index - len(bitlst) + 1)"),
    dict(name="indexed-write-uncast", file=Q, expect="C19.R4", old="                bitlst[reg_index] = _cast_primitive_bit(data)", new="                bitlst[reg_index] = str(data)  # type: ignore[assignment]"),
    dict(name="indexed-falls-through", file=Q, expect="C19.R4", old="                bitlst[reg_index] = _cast_primitive_bit(data)\n                continue", new="                bitlst[reg_index] = _cast_primitive_bit(data)"),
    dict(name="whole-register-appends", file=Q, expect="C19.R4", old="                    reg_bits[tag] = [_cast_primitive_bit(v) for v in vs]", new="                    reg_bits[tag] = reg_bits.get(tag, []) + [_cast_primitive_bit(v) for v in vs]"),
    dict(name="groups-swapped", file=Q, expect="C19.R4", old="                reg_name, reg_index_str = match.groups()", new="                reg_index_str, reg_name = match.groups()"),
    dict(name="strict-names-after-merge", file=Q, expect="C19.R5",
         old="            if strict_names and shot_idx > 0 and bitstrs.keys() != shot_dct.keys():\n                msg = \"All shots must have the same registers.\"\n                raise ValueError(msg)\n            for reg, bitstr in bitstrs.items():",
         new="            for reg, bitstr in bitstrs.items():"),
    dict(name="strict-lengths-ignored", file=Q, expect="C19.R5", old="                    strict_lengths\n                    and reg in shot_dct", new="                    False\n                    and reg in shot_dct"),
    dict(name="strict-lengths-after-append", file=Q, expect="C19.R5",
         old="                    msg = \"All register bitstrings must have the same length.\"\n                    raise ValueError(msg)\n                shot_dct[reg].append(bitstr)",
         new="                    msg = \"All register bitstrings must have the same length.\"\n                    raise ValueError(msg)\n                pass"),
    dict(name="counts-flags-crossed", file=Q, expect="C19.R6", old="                strict_lengths=strict_lengths, strict_names=strict_names", new="                strict_lengths=strict_names, strict_names=strict_lengths"),
    dict(name="counts-flags-dropped", file=Q, expect="C19.R6", old="                strict_lengths=strict_lengths, strict_names=strict_names\n", new="\n"),
    dict(name="flatten-skips-nested", file=Q, expect="C19.R6", old="            yield from _flatten(i)", new="            yield from i"),
]
TWINS = [
    dict(name="twin-create-one-short", file=Q, old="                    reg_bits[reg_name] = [\"0\"] * (reg_index + 1)", new="                    reg_bits[reg_name] = [\"0\"] * reg_index"),
    dict(name="twin-fullmatch", file=Q, old="            match = re.match(REG_INDEX_PATTERN, tag)", new="            match = REG_INDEX_PATTERN.match(tag)"),
    dict(name="twin-conditional-bit", file=Q, old="        return str(int(data))  # type: ignore[return-value]", new="        return \"1\" if data else \"0\""),
    dict(name="twin-entries-local", file=Q, old="        for tag, data in self.entries:\n            match = re.match", new="        entries = self.entries\n        for tag, data in entries:\n            match = re.match"),
]


def thorough(ctx):
    from ..selftest import run_battery
    return run_battery(ctx, MUTANTS, TWINS)
