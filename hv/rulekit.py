"""Small vocabulary shared by the property checkers for rules stated over canonical bodies and templates."""
from __future__ import annotations

import ast

from .model import u
from .tmpl import tall, tfirst_missing


def _unconditional(body) -> list[ast.stmt]:
    """the statements that run whenever the function gets past its refusals: the top level (and `with` bodies there), not the arms of
    if / loops / try"""
    out = []
    for s_ in body:
        if isinstance(s_, (ast.With, ast.AsyncWith)):
            out.append(ast.Expr(value=ast.Tuple(elts=[i_.context_expr for i_ in s_.items], ctx=ast.Load())))
            out += _unconditional(s_.body)
        elif isinstance(s_, (ast.If, ast.For, ast.While, ast.Try, ast.Match, ast.FunctionDef, ast.AsyncFunctionDef, ast.ClassDef)):
            if isinstance(s_, ast.If):
                out.append(ast.Expr(value=s_.test))
            elif isinstance(s_, ast.For):
                out.append(ast.Expr(value=s_.iter))
        else:
            out.append(s_)
    return out


def need(ctx, rule: str, qual: str, title: str, templates: list[str], why: str = "", env: dict | None = None, always: bool = False, **kw):
    """all templates occur in the canonical body of `qual` under one consistent binding of the metavariables.
    always=True: .. among the statements that run unconditionally (a guard put around one of them is then a violation)"""
    fn = ctx.cfn(qual, **kw)
    orig, m, _ = ctx.locate(qual)
    e = tall(_unconditional(fn.body) if always else fn.body, templates, env)
    if e is not None:
        ctx.ok(rule, title, "; ".join(templates)[:300])
        return e
    if always and tall(fn.body, templates, env) is not None:
        ctx.fail(rule, title, m.path, orig.lineno, (why + " " if why else "") + f"[in {qual.split('.')[-1]} only under a condition: `{'; '.join(templates)[:200]}`]", orig,
                 expected="; ".join(templates)[:300], found=" ; ".join(u(s) for s in fn.body)[:400])
        return None
    missing = tfirst_missing(fn.body, templates, env)
    ctx.fail(rule, title, m.path, orig.lineno, (why + " " if why else "") + f"[not found in {qual.split('.')[-1]}: `{missing}`]", orig,
             expected=str(missing), found=" ; ".join(u(s) for s in fn.body)[:400])
    return None


def need_any(ctx, rule: str, qual: str, title: str, alternatives: list[list[str]], why: str = "", env: dict | None = None, always: bool = False, **kw):
    """like need(), with several spellings of the same requirement (e.g. a value held in a local or written where it is used)"""
    fn = ctx.cfn(qual, **kw)
    orig, m, _ = ctx.locate(qual)
    for templates in alternatives:
        e = tall(_unconditional(fn.body) if always else fn.body, templates, dict(env) if env else None)
        if e is not None:
            ctx.ok(rule, title, "; ".join(templates)[:300])
            return e
    missing = tfirst_missing(fn.body, alternatives[0], env)
    ctx.fail(rule, title, m.path, orig.lineno, (why + " " if why else "") + f"[not found in {qual.split('.')[-1]}: `{missing}`]", orig,
             expected=str(missing), found=" ; ".join(u(s) for s in fn.body)[:400])
    return None


def need_exact(ctx, rule: str, qual: str, title: str, alternatives: list[list[str]], why: str = "", **kw):
    """the canonical body of `qual` IS one of the statement lists (one for one, nothing before, around or after them; asserts aside):
    for short methods whose whole effect the rule states -- a guard around the statement, a parameter rebound before it or a second
    statement after it changes what the method does for some argument"""
    from .tmpl import tseq
    fn = ctx.cfn(qual, **kw)
    orig, m, _ = ctx.locate(qual)
    body = [s for s in fn.body if not isinstance(s, (ast.Assert, ast.Pass))]
    for templates in alternatives:
        e = tseq(body, templates)
        if e is not None:
            ctx.ok(rule, title, "; ".join(templates)[:300])
            return e
    ctx.fail(rule, title, m.path, orig.lineno, (why + " " if why else "") + f"[{qual.split('.')[-1]} is not exactly `{'; '.join(alternatives[0])}`]", orig,
             expected="; ".join(alternatives[0]), found=" ; ".join(u(s) for s in fn.body)[:400])
    return None


def absent(ctx, rule: str, qual: str, title: str, templates: list[str], why: str = "", **kw):
    fn = ctx.cfn(qual, **kw)
    orig, m, _ = ctx.locate(qual)
    from .tmpl import tfind
    for t in templates:
        hits = tfind(fn.body, t)
        if hits:
            n = hits[0][0]
            ctx.fail(rule, title, m.path, getattr(n, "lineno", orig.lineno), why + f" [found `{u(n)[:120]}`]", n, found=u(n)[:200])
            return False
    ctx.ok(rule, title, "none of: " + "; ".join(templates)[:200])
    return True


def returns(paths):
    return [p for p in paths if p.kind == "return"]


def raises(paths):
    return [p for p in paths if p.kind == "raise"]


def unold(node_or_text):
    """drop the old_(..) wrappers path summaries put around values computed before a later mutation"""
    import copy
    if isinstance(node_or_text, str):
        node = ast.parse(node_or_text, mode="eval").body
    else:
        node = copy.deepcopy(node_or_text)

    class U(ast.NodeTransformer):
        def visit_Call(self, n):
            self.generic_visit(n)
            if isinstance(n.func, ast.Name) and n.func.id == "old_" and len(n.args) == 1:
                return n.args[0]
            return n
    return u(U().visit(node))


def arg_of(ctx, call: ast.Call, name: str, module, cls=None):
    """the argument bound to parameter `name` of a (canonical-layout) call, by keyword or by the callee's position"""
    for k in call.keywords:
        if k.arg == name:
            return k.value
    sig = ctx.canon._callee_sig(call, module, cls)
    if sig is not None and name in sig[0]:
        i = sig[0].index(name)
        if i < len(call.args) and not any(isinstance(a, ast.Starred) for a in call.args[: i + 1]):
            return call.args[i]
    return None


def unold_ast(node):
    """like unold, returning the expression"""
    return ast.parse(unold(node), mode="eval").body


def raised_privately(fn) -> set[str]:
    """names of the exception classes a helper raises directly (`raise E` / `raise E(..)`): a helper may say "no answer" by returning
    None or by raising a private exception; callers then test `is None` or catch it"""
    out = set()
    for n in ast.walk(fn):
        if isinstance(n, ast.Raise) and n.exc is not None:
            e = n.exc.func if isinstance(n.exc, ast.Call) else n.exc
            out.add(u(e).split(".")[-1])
    return out


def answered(p, call_text: str, excs: set[str]):
    """did the helper call answer on this path?  True: `<call> is not None` taken, or the call was made and none of its private
    exceptions was caught;  False: `<call> is not None` refused, or one of them was caught;  None: the path does not say"""
    for t, k in p.tests:
        if u(t) == f"{call_text} is not None":
            return k
    caught = [u(t.args[0]).split(".")[-1] for t, k in p.tests if k and isinstance(t, ast.Call) and u(t.func) == "except_" and t.args]
    if any(c in excs for c in caught):
        return False
    if excs and any(call_text in u(x) for x in list(p.effects) + [t for t, _ in p.tests] + ([p.value] if p.value is not None else [])):
        return True
    return None


def final_list_value(p, target: str):
    """the list a path leaves in `target` (text of a Name / attribute chain): the last plain assignment to it on the path, followed by
    the append / extend / += effects after it, written as one display.  None when the target is not assigned on the path or is
    changed in another way."""
    import copy
    val = None
    for e in p.effects:
        if isinstance(e, ast.Assign) and any(u(t) == target for t in e.targets):
            val = copy.deepcopy(e.value)
            continue
        if val is None:
            continue
        if isinstance(e, ast.AugAssign) and u(e.target) == target and isinstance(e.op, ast.Add):
            val = ast.List(elts=[ast.Starred(value=val, ctx=ast.Load()), ast.Starred(value=copy.deepcopy(e.value), ctx=ast.Load())], ctx=ast.Load())
            continue
        c = e.value if isinstance(e, ast.Expr) else None
        if isinstance(c, ast.Call) and isinstance(c.func, ast.Attribute) and u(c.func.value) == target:
            if c.func.attr == "append" and len(c.args) == 1:
                val = ast.List(elts=[ast.Starred(value=val, ctx=ast.Load()), copy.deepcopy(c.args[0])], ctx=ast.Load())
            elif c.func.attr == "extend" and len(c.args) == 1:
                val = ast.List(elts=[ast.Starred(value=val, ctx=ast.Load()), ast.Starred(value=copy.deepcopy(c.args[0]), ctx=ast.Load())], ctx=ast.Load())
            else:
                return None
        elif any(isinstance(n, (ast.Subscript, ast.Attribute)) and isinstance(n.ctx, (ast.Store, ast.Del)) and u(n.value) == target for n in ast.walk(e)):
            return None
    if val is None:
        return None
    from .canon import expr_norm
    st = ast.fix_missing_locations(ast.Expr(value=val))
    ast.copy_location(st, p.effects[0]) if p.effects else None
    return expr_norm([ast.fix_missing_locations(ast.Module(body=[st], type_ignores=[]).body[0])])[0].value
