"""Search loops in normal form.

Two pieces that let a rule about *what a loop looks for* hold for every way of writing the loop:

1. `lower_next` + `inline_generator_loops` (canonicalisation, used by hv/canon.py before helper inlining)

       return next((E for T in G(a) if C), D)      ->   for T in G(a):            for T in G(a): BODY  with G a generator helper
                                                            if C: return E    ->   G's body with `yield X` replaced by `T = X; BODY`,
                                                        return D                   G's `return` / BODY's `break` leaving G's loop

   Only loops over *unknown private generator helpers* (the same "seen through" criterion as for ordinary helpers) are touched.

2. `search_loop(stmts)`: the loop of a function `prefix; while ..: ..; suffix` as a list of per-iteration outcomes
   (`Iter`): the tests taken, and either the value the function answers (a `return` inside the loop, or a `break` / false
   loop condition followed by what the suffix returns) or the update of the loop state.  Everything is expressed over the
   loop state at the start of the iteration; state variables that are functions of the others on entry and after every
   iteration (`parent` is always `h[node].parent`) are eliminated, the remaining ones are named s0, s1, ...
"""
from __future__ import annotations

import ast
import copy
from dataclasses import dataclass, field

from . import norm
from .model import real_body, u


# ---------------------------------------------------------------------------------------------------------------------
def _own(stmts, kinds, stop=(ast.FunctionDef, ast.AsyncFunctionDef, ast.ClassDef, ast.Lambda)):
    """nodes of the given kinds in the statements, not looking into nested functions"""
    out = []

    def walk(n):
        if isinstance(n, kinds):
            out.append(n)
        for c in ast.iter_child_nodes(n):
            if not isinstance(c, stop):
                walk(c)
    for s in stmts:
        walk(s)
    return out


def _loop_level(stmts, kinds):
    """nodes of the given kinds that belong to the enclosing loop (not inside a nested loop / function)"""
    return _own(stmts, kinds, stop=(ast.FunctionDef, ast.AsyncFunctionDef, ast.ClassDef, ast.Lambda, ast.For, ast.While))


def lower_next(stmts: list[ast.stmt], is_generator_call) -> list[ast.stmt]:
    """`return next((E for T in G(a) if C), D)` and `x = next((..), D)` over a generator helper become explicit loops"""
    out: list[ast.stmt] = []
    for s in stmts:
        for fld in ("body", "orelse", "finalbody"):
            b = getattr(s, fld, None)
            if isinstance(b, list) and b and isinstance(b[0], ast.stmt) and not isinstance(s, (ast.FunctionDef, ast.AsyncFunctionDef, ast.ClassDef)):
                setattr(s, fld, lower_next(b, is_generator_call))
        v = s.value if isinstance(s, (ast.Return, ast.Assign)) else None
        if isinstance(v, ast.Call) and isinstance(v.func, ast.Name) and v.func.id == "next" and len(v.args) == 2 and not v.keywords \
                and isinstance(v.args[0], ast.GeneratorExp) and len(v.args[0].generators) == 1 and is_generator_call(v.args[0].generators[0].iter) \
                and norm.is_pure(v.args[1]):
            g = v.args[0].generators[0]
            elt, dflt = v.args[0].elt, v.args[1]
            if isinstance(s, ast.Return):
                inner: list[ast.stmt] = [ast.Return(value=elt)]
                tail: list[ast.stmt] = [ast.Return(value=dflt)]
                head: list[ast.stmt] = []
            elif len(s.targets) == 1 and isinstance(s.targets[0], ast.Name):
                inner = [ast.Assign(targets=[copy.deepcopy(s.targets[0])], value=elt), ast.Break()]
                head = [ast.Assign(targets=[copy.deepcopy(s.targets[0])], value=dflt)]
                tail = []
            else:
                out.append(s)
                continue
            for c in reversed(g.ifs):
                inner = [ast.If(test=c, body=inner, orelse=[])]
            loop = ast.For(target=g.target, iter=g.iter, body=inner, orelse=[], type_comment=None)
            new = head + [loop] + tail
            for n in new:
                ast.copy_location(n, s)
                ast.fix_missing_locations(n)
            out += new
            continue
        out.append(s)
    return out


class GenInliner:
    def __init__(self, lookup):
        """lookup(call) -> (FunctionDef, skip_first, ...) | None, as for the helper inliner"""
        self.lookup = lookup
        self.counter = 0
        self.bound = {}         # generator local -> (helper, skip_first, {param: Name of the local holding the argument})

    def generator(self, call):
        if not isinstance(call, ast.Call):
            return None
        r = self.lookup(call)
        if r is None:
            return None
        m, skip = r[0], r[1]
        if not _own(real_body(m), (ast.Yield, ast.YieldFrom)):
            return None
        if skip and not (isinstance(call.func, ast.Attribute) and isinstance(call.func.value, ast.Name) and call.func.value.id == "self"):
            return None
        return m, skip

    def is_generator_call(self, e) -> bool:
        return self.generator(e) is not None

    def expand(self, loop: ast.For):
        pre_bound = isinstance(loop.iter, ast.Name) and loop.iter.id in self.bound
        if pre_bound:
            m, skip, binds = self.bound[loop.iter.id]
        else:
            g = self.generator(loop.iter)
            if g is None:
                return None
            m, skip = g
            binds = norm.bind_call(m, loop.iter, skip)
        # for .. else: the else part runs when the generator is exhausted (its loop ends or it returns), not after the caller's `break`;
        # supported when the else part leaves the function (it is then simply placed at both ends)
        orelse = list(loop.orelse)
        if orelse and not isinstance(orelse[-1], (ast.Raise, ast.Return)):
            return None
        if binds is None or m.args.vararg or m.args.kwarg:
            return None
        gb = [copy.deepcopy(s) for s in real_body(m)]
        if gb and not any(_own([x], (ast.Yield, ast.YieldFrom)) for x in _own(gb, (ast.While, ast.For))):
            if orelse:
                return None
            return self._expand_unlooped(loop, m, skip, binds, gb)       # (pre-bound: the arguments are the locals they were bound to)
        if not gb or not isinstance(gb[-1], (ast.While, ast.For)) or gb[-1].orelse:
            return None
        pre, gl = gb[:-1], gb[-1]
        if _own(pre, (ast.Yield, ast.YieldFrom, ast.Return, ast.While, ast.For)):
            return None
        ys = [i for i, s in enumerate(gl.body) if isinstance(s, ast.Expr) and isinstance(s.value, ast.Yield) and s.value.value is not None]
        if len(ys) != 1 or len(_own([gl], (ast.Yield, ast.YieldFrom))) != 1:
            return None
        # the generator's own exits: `return` directly in its loop (not in a nested one); the caller's body: no `continue`
        if len(_own([gl], (ast.Return,))) != len(_loop_level(gl.body, (ast.Return,))) or any(r.value is not None for r in _own([gl], (ast.Return,))):
            return None
        body = [copy.deepcopy(s) for s in loop.body]
        if _loop_level(body, (ast.Continue,)):
            return None
        self.counter += 1
        tag = f"_{m.name.strip('_')}{self.counter}g"
        names = norm._assigned_names(gb) | set(binds)
        ren = {x: x + tag for x in names}
        if skip:
            ren.pop((m.args.posonlyargs + m.args.args)[0].arg, None)
        r_ = norm._Rename(ren)
        pre = [r_.visit(s) for s in pre]
        gl = r_.visit(gl)
        inits = [ast.Assign(targets=[ast.Name(id=ren[p], ctx=ast.Store())], value=copy.deepcopy(a)) for p, a in binds.items() if p in ren]
        y = gl.body[ys[0]]
        bind = ast.Assign(targets=[copy.deepcopy(loop.target)], value=y.value.value)
        gl.body = gl.body[:ys[0]] + [bind] + body + gl.body[ys[0] + 1:]
        if orelse:
            if gl.orelse or isinstance(gl, ast.For) and False:
                return None
            gl.orelse = [copy.deepcopy(x) for x in orelse]

        class R(ast.NodeTransformer):
            def visit_Return(self, node):
                return ast.copy_location(ast.Break(), node)

            def visit_FunctionDef(self, node):
                return node
            visit_Lambda = visit_AsyncFunctionDef = visit_FunctionDef
        # only the generator's returns (the caller's body may return from the enclosing function): they were counted above,
        # so rewrite them in the parts that came from the generator
        keep = set(map(id, _own(body, (ast.Return,))))

        class R2(R):
            def visit_Return(self, node):
                if id(node) in keep:
                    return node
                if orelse:
                    # the generator ends here: the loop's else part (which leaves the function) runs
                    return [copy.deepcopy(x) for x in orelse]
                return ast.copy_location(ast.Break(), node)
        keep |= set(map(id, _own(gl.orelse, (ast.Return,)))) if orelse else set()
        gl = R2().visit(gl)
        new = inits + pre + [gl]
        for n in new:
            ast.copy_location(n, loop)
            ast.fix_missing_locations(n)
        return new

    def _expand_unlooped(self, loop, m, skip, binds, gb):
        """a generator whose yields are not inside loops (a few `yield X`, possibly under ifs): each one runs the caller's loop body
        once, in order:  G's body with every `yield X` replaced by `T = X; BODY`.  BODY has no break / continue of this loop, G no
        `return` (then leaving early needs no jump)."""
        ys = _own(gb, (ast.Yield, ast.YieldFrom))
        if not ys or len(ys) > 4 or _own(gb, (ast.YieldFrom, ast.Return, ast.Try, ast.With)):
            return None
        body = [copy.deepcopy(s) for s in loop.body]
        if _loop_level(body, (ast.Continue, ast.Break)):
            return None
        self.counter += 1
        tag = f"_{m.name.strip('_')}{self.counter}g"
        names = norm._assigned_names(gb) | set(binds)
        ren = {x: x + tag for x in names}
        if skip:
            ren.pop((m.args.posonlyargs + m.args.args)[0].arg, None)
        if set(ren.values()) & norm._assigned_names(body):
            return None
        r_ = norm._Rename(ren)
        gb = [r_.visit(s) for s in gb]
        count = [0]
        target = loop.target

        class Y(ast.NodeTransformer):
            def visit_Expr(self, node):
                if isinstance(node.value, ast.Yield):
                    if node.value.value is None:
                        count[0] = -99
                        return node
                    count[0] += 1
                    return [ast.copy_location(ast.Assign(targets=[copy.deepcopy(target)], value=node.value.value), node)] + [copy.deepcopy(b_) for b_ in body]
                return node

            def visit_FunctionDef(self, node):
                return node
            visit_Lambda = visit_AsyncFunctionDef = visit_FunctionDef
        gb = [y for s in gb for y in (lambda r: r if isinstance(r, list) else [r])(Y().visit(s))]
        if count[0] != len(ys) or _own(gb, (ast.Yield, ast.YieldFrom)):
            return None         # a yield whose value is used, or one that is not a statement
        inits = [ast.Assign(targets=[ast.Name(id=ren[p], ctx=ast.Store())], value=copy.deepcopy(a)) for p, a in binds.items() if p in ren]
        new = inits + gb
        for n in new:
            ast.copy_location(n, loop)
            ast.fix_missing_locations(n)
        return new

    def rec(self, stmts: list[ast.stmt]) -> list[ast.stmt]:
        out: list[ast.stmt] = []
        for s in stmts:
            for fld in ("body", "orelse", "finalbody"):
                b = getattr(s, fld, None)
                if isinstance(b, list) and b and isinstance(b[0], ast.stmt) and not isinstance(s, (ast.FunctionDef, ast.AsyncFunctionDef, ast.ClassDef)):
                    setattr(s, fld, self.rec(b))
            if isinstance(s, ast.Try):
                for h in s.handlers:
                    h.body = self.rec(h.body)
            if isinstance(s, ast.For):
                new = self.expand(s)
                if new is not None:
                    out += new
                    continue
                if isinstance(s.iter, ast.Name) and s.iter.id in self.bound:
                    # not expandable after all: the generator is created here, from the argument locals
                    m, skip, binds = self.bound[s.iter.id]
                    fn_ = ast.Attribute(value=ast.Name(id="self", ctx=ast.Load()), attr=m.name, ctx=ast.Load()) if skip else ast.Name(id=m.name, ctx=ast.Load())
                    s.iter = ast.copy_location(ast.Call(func=fn_, args=[], keywords=[ast.keyword(arg=p_, value=v_) for p_, v_ in binds.items()]), s.iter)
                    ast.fix_missing_locations(s)
            out.append(s)
        return out


def bind_generator_locals(stmts, gi) -> list[ast.stmt]:
    """g = G(args)  with G a generator helper and g read exactly once in the function, as the iterable of a loop / of any(..):
    creating the generator only evaluates its arguments; they are bound to locals g__<param> there, and the one place that iterates
    g runs G's body over those locals (recorded in gi.bound)"""
    reads: dict[str, int] = {}
    for s_ in stmts:
        for n in ast.walk(s_):
            if isinstance(n, ast.Name) and isinstance(n.ctx, ast.Load):
                reads[n.id] = reads.get(n.id, 0) + 1
    stores: dict[str, int] = {}
    for s_ in stmts:
        for n in ast.walk(s_):
            if isinstance(n, ast.Name) and isinstance(n.ctx, (ast.Store, ast.Del)):
                stores[n.id] = stores.get(n.id, 0) + 1

    def block(b):
        out = []
        for s_ in b:
            for fld in ("body", "orelse", "finalbody"):
                bb = getattr(s_, fld, None)
                if isinstance(bb, list) and bb and isinstance(bb[0], ast.stmt) and not isinstance(s_, (ast.FunctionDef, ast.AsyncFunctionDef, ast.ClassDef)):
                    setattr(s_, fld, block(bb))
            if isinstance(s_, ast.Try):
                for h in s_.handlers:
                    h.body = block(h.body)
            if isinstance(s_, ast.Assign) and len(s_.targets) == 1 and isinstance(s_.targets[0], ast.Name) and isinstance(s_.value, ast.Call):
                x = s_.targets[0].id
                g = gi.generator(s_.value)
                if g is not None and reads.get(x, 0) == 1 and stores.get(x, 0) == 1:
                    m, skip = g
                    binds = norm.bind_call(m, s_.value, skip)
                    if binds is not None and not m.args.vararg and not m.args.kwarg:
                        new_binds = {}
                        for p_, a_ in binds.items():
                            nm = f"{x}__{p_}"
                            out.append(ast.fix_missing_locations(ast.copy_location(ast.Assign(targets=[ast.Name(id=nm, ctx=ast.Store())], value=a_), s_)))
                            new_binds[p_] = ast.Name(id=nm, ctx=ast.Load())
                        gi.bound[x] = (m, skip, new_binds)
                        continue
            out.append(s_)
        return out
    return block(list(stmts))


def lower_any_guard(stmts, gi) -> list[ast.stmt]:
    """if not any(P for c in X): A     ->   for c in X: if P: break   else: A          (X a generator helper call or a bound generator local)
       if any(P for c in X): A         ->   for c in X: if P: A; break"""
    out = []
    for s_ in stmts:
        for fld in ("body", "orelse", "finalbody"):
            bb = getattr(s_, fld, None)
            if isinstance(bb, list) and bb and isinstance(bb[0], ast.stmt) and not isinstance(s_, (ast.FunctionDef, ast.AsyncFunctionDef, ast.ClassDef)):
                setattr(s_, fld, lower_any_guard(bb, gi))
        if isinstance(s_, ast.Try):
            for h in s_.handlers:
                h.body = lower_any_guard(h.body, gi)
        if isinstance(s_, ast.If) and not s_.orelse:
            t, neg = s_.test, False
            while isinstance(t, ast.UnaryOp) and isinstance(t.op, ast.Not):
                t, neg = t.operand, not neg
            if isinstance(t, ast.Compare) and len(t.ops) == 1 and isinstance(t.ops[0], (ast.In, ast.NotIn)) and norm.is_pure(t.left) \
                    and (gi.is_generator_call(t.comparators[0]) or (isinstance(t.comparators[0], ast.Name) and t.comparators[0].id in gi.bound)):
                # E in <generator>  is  any(E == c for c in <generator>)
                gi.counter += 1
                v = f"c_in{gi.counter}"
                elt = ast.Compare(left=copy.deepcopy(t.left), ops=[ast.Eq()], comparators=[ast.Name(id=v, ctx=ast.Load())])
                gen = ast.GeneratorExp(elt=elt, generators=[ast.comprehension(target=ast.Name(id=v, ctx=ast.Store()), iter=t.comparators[0], ifs=[], is_async=0)])
                neg = neg != isinstance(t.ops[0], ast.NotIn)
                t = ast.Call(func=ast.Name(id="any", ctx=ast.Load()), args=[gen], keywords=[])
            if isinstance(t, ast.Call) and isinstance(t.func, ast.Name) and t.func.id == "any" and len(t.args) == 1 and not t.keywords \
                    and isinstance(t.args[0], ast.GeneratorExp) and len(t.args[0].generators) == 1 and not t.args[0].generators[0].is_async:
                g = t.args[0].generators[0]
                it = g.iter
                if gi.is_generator_call(it) or (isinstance(it, ast.Name) and it.id in gi.bound):
                    conds = list(g.ifs) + [t.args[0].elt]
                    test = conds[0] if len(conds) == 1 else ast.BoolOp(op=ast.And(), values=conds)
                    if neg:
                        loop = ast.For(target=g.target, iter=it, body=[ast.If(test=test, body=[ast.Break()], orelse=[])], orelse=list(s_.body), type_comment=None)
                    elif not _loop_level(s_.body, (ast.Break, ast.Continue)):
                        loop = ast.For(target=g.target, iter=it, body=[ast.If(test=test, body=list(s_.body) + [ast.Break()], orelse=[])], orelse=[], type_comment=None)
                    else:
                        loop = None
                    if loop is not None:
                        ast.copy_location(loop, s_)
                        ast.fix_missing_locations(loop)
                        out.append(loop)
                        continue
        out.append(s_)
    return out


def split_chained_loops(stmts):
    """for x in chain(A, B, ..): BODY   ->   for x in A: BODY;  for x in B: BODY; ..      (no break / else: one loop after the other is
    what chain does; A, B are evaluated when chain is called -- generator calls only bind their arguments then)"""
    # x = chain(..) read once, as the iterable of the loop that follows: written there
    stmts = list(stmts)
    for i in range(len(stmts) - 1):
        a_, f_ = stmts[i], stmts[i + 1]
        if isinstance(a_, ast.Assign) and len(a_.targets) == 1 and isinstance(a_.targets[0], ast.Name) and isinstance(a_.value, ast.Call) \
                and u(a_.value.func) in ("chain", "itertools.chain") and isinstance(f_, ast.For) and isinstance(f_.iter, ast.Name) and f_.iter.id == a_.targets[0].id \
                and sum(1 for x in stmts for n in ast.walk(x) if isinstance(n, ast.Name) and n.id == f_.iter.id) == 2:
            f_.iter = a_.value
            stmts[i] = ast.copy_location(ast.Pass(), a_)
    stmts = [x for x in stmts if not isinstance(x, ast.Pass)] or stmts
    out = []
    for s_ in stmts:
        for fld in ("body", "orelse", "finalbody"):
            bb = getattr(s_, fld, None)
            if isinstance(bb, list) and bb and isinstance(bb[0], ast.stmt) and not isinstance(s_, (ast.FunctionDef, ast.AsyncFunctionDef, ast.ClassDef)):
                setattr(s_, fld, split_chained_loops(bb))
        if isinstance(s_, ast.Try):
            for h in s_.handlers:
                h.body = split_chained_loops(h.body)
        if isinstance(s_, ast.For) and not s_.orelse and isinstance(s_.iter, ast.Call) and u(s_.iter.func) in ("chain", "itertools.chain") and not s_.iter.keywords \
                and len(s_.iter.args) >= 2 and not any(isinstance(a, ast.Starred) for a in s_.iter.args) and not _loop_level(s_.body, (ast.Break,)) \
                and all(isinstance(a, ast.Call) or norm.is_pure(a) for a in s_.iter.args):
            # the arguments after the first are evaluated before the first loop runs: fine when they are generator calls with pure arguments
            if all(norm.is_pure(x) for a in s_.iter.args[1:] if isinstance(a, ast.Call) for x in [*a.args, *[k.value for k in a.keywords]]):
                for a in s_.iter.args:
                    out.append(ast.fix_missing_locations(ast.copy_location(
                        ast.For(target=copy.deepcopy(s_.target), iter=a, body=[copy.deepcopy(x) for x in s_.body], orelse=[], type_comment=None), s_)))
                continue
        out.append(s_)
    return out


def inline_generator_loops(stmts, lookup):
    stmts = split_chained_loops(stmts)
    gi = GenInliner(lookup)
    stmts = bind_generator_locals(stmts, gi)
    stmts = lower_any_guard(stmts, gi)
    stmts = lower_next(stmts, gi.is_generator_call)
    stmts = gi.rec(stmts)
    if gi.bound:
        # a bound generator local still read somewhere (not the iterable of a loop that was run in place): the generator is created
        # there, from the argument locals
        class _Rebuild(ast.NodeTransformer):
            def visit_Name(self, node):
                if isinstance(node.ctx, ast.Load) and node.id in gi.bound:
                    m, skip, binds = gi.bound[node.id]
                    fn_ = ast.Attribute(value=ast.Name(id="self", ctx=ast.Load()), attr=m.name, ctx=ast.Load()) if skip else ast.Name(id=m.name, ctx=ast.Load())
                    return ast.fix_missing_locations(ast.copy_location(ast.Call(func=fn_, args=[], keywords=[ast.keyword(arg=p_, value=copy.deepcopy(v_)) for p_, v_ in binds.items()]), node))
                return node
        stmts = [_Rebuild().visit(s_) for s_ in stmts]
    return stmts


# ---------------------------------------------------------------------------------------------------------------------
@dataclass
class Iter:
    tests: list = field(default_factory=list)      # (expr, taken) over the state at the start of the iteration
    kind: str = "next"                             # "return" | "raise" | "next"
    value: ast.AST | None = None                   # answered value (return) / exception (raise)
    update: dict = field(default_factory=dict)     # state variable -> its value at the start of the next iteration (next)
    node: ast.AST | None = None

    def test(self, text: str):
        """True / False if the path decides the test that way, None if it does not ask"""
        for t, k in self.tests:
            if u(t) == text:
                return k
        return None

    def tests_matching(self, tmpl: str):
        from .tmpl import T, tmatch
        out = []
        for t, k in self.tests:
            e = tmatch(t, T(tmpl))
            if e is not None:
                out.append((e, k))
        return out

    def describe(self) -> str:
        c = " and ".join(("" if k else "not ") + f"({u(t)})" for t, k in self.tests) or "always"
        if self.kind == "next":
            return f"[{c}] -> next " + ", ".join(f"{k} := {u(v)}" for k, v in sorted(self.update.items()))
        return f"[{c}] -> {self.kind} {u(self.value) if self.value is not None else ''}"


@dataclass
class SearchLoop:
    state: dict            # canonical state variable (s0, ..) -> initial value over the function's parameters
    iters: list            # list[Iter]
    loop: ast.AST          # the loop statement (for positions)
    names: dict            # canonical name -> the program's name


class NotASearchLoop(Exception):
    pass


def _sub(e, mapping):
    return norm._Subst(dict(mapping)).visit(copy.deepcopy(e))


def search_loop(stmts: list[ast.stmt]) -> SearchLoop:
    """`stmts`: a canonical body (ctx.cfn(.., subst=False).body) of the shape  prefix; while C: B; suffix"""
    from .paths import Path, Summariser, summaries
    loops = [i for i, s in enumerate(stmts) if isinstance(s, ast.While)]
    if len(loops) != 1:
        raise NotASearchLoop("expected exactly one top-level while loop")
    i = loops[0]
    lp = stmts[i]
    prefix, suffix = stmts[:i], stmts[i + 1:]
    pre = summaries(prefix) if prefix else [Path()]
    if len(pre) != 1 or pre[0].kind != "fall":
        raise NotASearchLoop("the statements before the loop branch or leave the function")
    pre_env = {k: v for k, v in pre[0].env.items() if not k.startswith("@")}
    assigned = norm._assigned_names(lp.body) | {n.target.id for n in ast.walk(lp.test) if isinstance(n, ast.NamedExpr)}
    # live-in: read in the loop before being written on some path; over-approximated by "known before the loop or a parameter read in the loop"
    reads = {n.id for n in ast.walk(lp) if isinstance(n, ast.Name) and isinstance(n.ctx, ast.Load)}
    # (while .. else: the else part runs when the condition fails, not after a `break`: it answers in that iteration, or falls to the suffix)
    synth = [ast.If(test=ast.UnaryOp(op=ast.Not(), operand=copy.deepcopy(lp.test)), body=[copy.deepcopy(x) for x in lp.orelse] + [ast.Break()], orelse=[])] + list(lp.body)
    assigned_else = norm._assigned_names(lp.orelse)
    for n in synth:
        ast.fix_missing_locations(n)
    # state variables keep their names inside the iteration (a bare name is the value at the start of the iteration)
    start_env = {k: v for k, v in pre_env.items() if k not in assigned}
    sm = Summariser(4096)
    sm.mutated = set()
    sm._block(list(synth), Path(env=dict(start_env)), lambda p: sm._end(p, "fall", None, None))
    raw = sm.out
    # which assigned names carry a value from one iteration to the next: those some path reads before (re)binding them
    state_vars = sorted(v for v in assigned if v in reads and _live_in(lp, v))
    init = {}
    for v in state_vars:
        init[v] = pre_env.get(v, ast.Name(id=v, ctx=ast.Load()))
    iters: list[Iter] = []
    for p in raw:
        tests = [(t, k) for t, k in p.tests]
        if p.kind in ("return", "raise"):
            iters.append(Iter(tests, p.kind, p.value if p.value is not None else ast.Constant(None), {}, p.node))
        elif p.kind == "break":
            env_after = {**start_env, **{k: v for k, v in p.env.items() if not k.startswith("@")}}
            sm2 = Summariser(512)
            sm2.mutated = set()
            sm2._block(list(suffix), Path(env=dict(env_after)), lambda q: sm2._end(q, "fall", None, None))
            for q in sm2.out:
                if q.kind not in ("return", "raise", "fall"):
                    raise NotASearchLoop("the statements after the loop do not simply answer")
                iters.append(Iter(tests + list(q.tests), "return" if q.kind != "raise" else "raise",
                                  q.value if q.value is not None else ast.Constant(None), {}, q.node or p.node))
        else:
            upd = {v: p.env[v] for v in state_vars if v in p.env and u(p.env[v]) != v}
            iters.append(Iter(tests, "next", None, upd, p.node))
    # ---- derived state: d == F(others) on entry and after every iteration
    changed = True
    while changed:
        changed = False
        for d in list(state_vars):
            others = [v for v in state_vars if v != d]
            if not others or not isinstance(init[d], ast.AST):
                continue
            # candidate F: the initial value of d with the initial values of the others folded back into their names
            F = copy.deepcopy(init[d])
            for o in sorted(others, key=lambda o_: -len(u(init[o_]))):
                F = _fold(F, init[o], o)
            if not any(isinstance(n, ast.Name) and n.id in others for n in ast.walk(F)):
                continue
            if any(isinstance(n, ast.Name) and n.id == d for n in ast.walk(F)):
                continue
            ok = True
            for it in iters:
                if it.kind != "next":
                    continue
                nd = it.update.get(d, ast.Name(id=d, ctx=ast.Load()))
                want = _sub(F, {o: it.update.get(o, ast.Name(id=o, ctx=ast.Load())) for o in others})
                # inside the iteration d itself still stands for F(others at the start)
                if u(_sub(nd, {d: F})) != u(_sub(want, {d: F})):
                    ok = False
                    break
            if not ok:
                continue
            for it in iters:
                it.tests = [(_sub(t, {d: F}), k) for t, k in it.tests]
                if it.value is not None:
                    it.value = _sub(it.value, {d: F})
                it.update = {k: _sub(v, {d: F}) for k, v in it.update.items() if k != d}
            state_vars.remove(d)
            for o in others:
                init[o] = init[o]
            del init[d]
            changed = True
            break
    # ---- canonical names
    ren = {v: f"s{j}" for j, v in enumerate(state_vars)}
    r = norm._Rename(ren)
    for it in iters:
        it.tests = [(r.visit(copy.deepcopy(t)), k) for t, k in it.tests]
        if it.value is not None:
            it.value = r.visit(copy.deepcopy(it.value))
        it.update = {ren[k]: r.visit(copy.deepcopy(v)) for k, v in it.update.items()}
    return SearchLoop({ren[v]: init[v] for v in state_vars}, iters, lp, {ren[v]: v for v in state_vars})


def _fold(expr, value, name):
    """replace occurrences of `value` (by text) inside expr by Name(name)"""
    vt = u(value)

    class F(ast.NodeTransformer):
        def generic_visit(self, node):
            if isinstance(node, ast.expr) and u(node) == vt:
                return ast.Name(id=name, ctx=ast.Load())
            return super().generic_visit(node)
    if u(expr) == vt:
        return ast.Name(id=name, ctx=ast.Load())
    return F().visit(copy.deepcopy(expr))


def _live_in(lp, v: str) -> bool:
    """may the loop read v before writing it in an iteration?  (syntactic, in evaluation order, conservative: True on doubt)"""
    order: list[tuple[str, str]] = []

    def ev(n):
        if isinstance(n, ast.NamedExpr):
            ev(n.value)
            order.append(("w", n.target.id))
            return
        if isinstance(n, ast.Name):
            order.append(("r" if isinstance(n.ctx, ast.Load) else "w", n.id))
            return
        if isinstance(n, (ast.Assign, ast.AnnAssign, ast.AugAssign)):
            if getattr(n, "value", None) is not None:
                ev(n.value)
            if isinstance(n, ast.AugAssign):
                ev_load(n.target)
            for t in (n.targets if isinstance(n, ast.Assign) else [n.target]):
                ev(t)
            return
        for c in ast.iter_child_nodes(n):
            ev(c)

    def ev_load(t):
        for x in ast.walk(t):
            if isinstance(x, ast.Name):
                order.append(("r", x.id))
    ev(lp.test)
    # the first access on the straight-line start of the body decides when it is a write; branches: conservative
    first = next((k for k, name in order if name == v), None)
    if first == "w":
        return False
    if first == "r":
        return True
    def first_access(block):
        """'r' / 'w': how v is first touched on every way through the block that touches it ('r' if some way reads it first);
        None: not touched on some way that goes on (the caller looks further)"""
        for s in block:
            order.clear()
            if isinstance(s, ast.If):
                ev(s.test)
                fa = next((k for k, name in order if name == v), None)
                if fa is not None:
                    return fa
                a, b = first_access(s.body), first_access(s.orelse)
                if a == "r" or b == "r":
                    return "r"
                if a == "w" and b == "w":
                    return "w"
                # written on one arm (or on none): what follows decides for the other arm
                def ends_(blk):
                    return bool(blk) and isinstance(blk[-1], (ast.Return, ast.Raise, ast.Break, ast.Continue))
                if (a == "w" and (ends_(s.orelse))) or (b == "w" and ends_(s.body)):
                    return "w"
                if a == "w" or b == "w":
                    rest = first_access(block[block.index(s) + 1:])
                    return "r" if rest == "r" else "w" if rest == "w" else None
                continue
            if isinstance(s, (ast.While, ast.For, ast.Try, ast.With, ast.Match)):
                # a loop / try / with / match: v live-in if it is mentioned at all
                if any(isinstance(n, ast.Name) and n.id == v for n in ast.walk(s)):
                    return "r"
                continue
            ev(s)
            fa = next((k for k, name in order if name == v), None)
            if fa is not None:
                return fa
        return None
    return first_access(list(lp.body)) == "r"


# ---------------------------------------------------------------------------------------------------------------------
class GuardInliner:
    """if not H(a): raise X     with H a boolean helper      ->   H's body with `return False` replaced by `raise X` and the final
                                                                   `return True` dropped (control falls through to what follows)
    Only for unknown private helpers whose last statement is the single `return <continue-value>` and whose other returns all
    give the opposite constant; the guarded statements must end in raise / return (so that they may be moved into H's loops)."""
    def __init__(self, lookup):
        self.lookup = lookup
        self.counter = 0

    def expand(self, s: ast.If):
        test, when_false = s.test, None
        if isinstance(test, ast.UnaryOp) and isinstance(test.op, ast.Not) and isinstance(test.operand, ast.Call) and not s.orelse:
            call, refuse_on, guarded = test.operand, False, s.body
        elif isinstance(test, ast.Call) and s.orelse and all(isinstance(x, ast.Pass) for x in s.body):
            call, refuse_on, guarded = test, False, s.orelse
        elif isinstance(test, ast.Call) and not s.orelse:
            call, refuse_on, guarded = test, True, s.body
        else:
            return None
        if not guarded or not isinstance(guarded[-1], (ast.Raise, ast.Return)):
            return None
        r = self.lookup(call)
        if r is None:
            return None
        m, skip = r[0], r[1]
        prepare = r[2] if len(r) > 2 else None
        if _own(real_body(m), (ast.Yield, ast.YieldFrom, ast.Await)) or m.args.vararg or m.args.kwarg:
            return None
        if skip and not (isinstance(call.func, ast.Attribute) and isinstance(call.func.value, ast.Name) and call.func.value.id == "self"):
            return None
        body = [copy.deepcopy(x) for x in real_body(m)]
        if prepare:
            body = prepare(body)
        rets = _own(body, (ast.Return,))
        if not rets or not isinstance(body[-1], ast.Return) or any(not (isinstance(x.value, ast.Constant) and isinstance(x.value.value, bool)) for x in rets):
            return None
        if body[-1].value.value is refuse_on and len(body) >= 2 and isinstance(body[-2], (ast.For, ast.While)) and not body[-2].orelse \
                and all(x.value.value is not refuse_on for x in rets if x is not body[-1]) \
                and not _own(body[:-2], (ast.Return,)) and len(_own([body[-2]], (ast.Return,))) == len(_loop_level(body[-2].body, (ast.Return,))):
            # the dual shape, a search: `for ..: if found: return <go on>; [if dead end: break]`  then  `return <refuse>`:
            # found -> leave the loop and go on; a dead end and an exhausted loop -> the refusal (which leaves the function)
            binds = norm.bind_call(m, call, skip)
            if binds is None:
                return None
            self.counter += 1
            tag = f"_{m.name.strip('_')}{self.counter}q"
            names = norm._assigned_names(body) | set(binds)
            ren = {x: x + tag for x in names}
            body2 = [norm._Rename(ren).visit(x) for x in body[:-1]]
            inits = [ast.Assign(targets=[ast.Name(id=ren[p], ctx=ast.Store())], value=copy.deepcopy(a)) for p, a in binds.items()]
            loop = body2[-1]
            level_breaks = set(map(id, _loop_level(loop.body, (ast.Break,))))
            level_rets = set(map(id, _loop_level(loop.body, (ast.Return,))))

            class R2(ast.NodeTransformer):
                def visit_Break(self, node):
                    return [copy.deepcopy(x) for x in guarded] if id(node) in level_breaks else node

                def visit_Return(self, node):
                    return ast.copy_location(ast.Break(), node) if id(node) in level_rets else node

                def visit_FunctionDef(self, node):
                    return node
                visit_Lambda = visit_AsyncFunctionDef = visit_FunctionDef
            loop.body = [y for x in loop.body for y in (lambda v: v if isinstance(v, list) else [v])(R2().visit(x))]
            loop.orelse = [copy.deepcopy(x) for x in guarded]
            new = inits + body2
            for n in new:
                ast.copy_location(n, s)
                ast.fix_missing_locations(n)
            return new
        if body[-1].value.value is refuse_on or any(x.value.value is not refuse_on for x in rets if x is not body[-1]):
            return None
        binds = norm.bind_call(m, call, skip)
        if binds is None:
            return None
        self.counter += 1
        tag = f"_{m.name.strip('_')}{self.counter}q"
        names = norm._assigned_names(body) | set(binds)
        ren = {x: x + tag for x in names}
        body = [norm._Rename(ren).visit(x) for x in body[:-1]]
        inits = [ast.Assign(targets=[ast.Name(id=ren[p], ctx=ast.Store())], value=copy.deepcopy(a)) for p, a in binds.items()]

        class R(ast.NodeTransformer):
            def visit_Return(self, node):
                return [copy.deepcopy(x) for x in guarded]

            def visit_FunctionDef(self, node):
                return node
            visit_Lambda = visit_AsyncFunctionDef = visit_FunctionDef
        body = [y for x in body for y in (lambda v: v if isinstance(v, list) else [v])(R().visit(x))]
        new = inits + body
        for n in new:
            ast.copy_location(n, s)
            ast.fix_missing_locations(n)
        return new

    def rec(self, stmts):
        out = []
        for s in stmts:
            for fld in ("body", "orelse", "finalbody"):
                b = getattr(s, fld, None)
                if isinstance(b, list) and b and isinstance(b[0], ast.stmt) and not isinstance(s, (ast.FunctionDef, ast.AsyncFunctionDef, ast.ClassDef)):
                    setattr(s, fld, self.rec(b))
            if isinstance(s, ast.Try):
                for h in s.handlers:
                    h.body = self.rec(h.body)
            if isinstance(s, ast.If):
                new = self.expand(s)
                if new is not None:
                    out += new
                    continue
            out.append(s)
        return out


def inline_guard_helpers(stmts, lookup):
    return GuardInliner(lookup).rec(stmts)
