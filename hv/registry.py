"""Per-property claim texts; `python3 -m hv.registry` regenerates /verif/MANIFEST.json from them.

Only properties whose checker module exists under hv/props/ are listed as checks; the others are
listed under not_applicable with the reason "not yet implemented / not reachable".
"""
from __future__ import annotations

import json
import pathlib

VERIF = pathlib.Path(__file__).resolve().parent.parent

CLAIMS: dict[str, dict[str, str]] = {
    "C18": dict(
        text="Structural necessary conditions of the bijection invariant, decided on every acyclic path of every "
             "BiMap mutator: mirrored stores, both conflicting pairs evicted under presence (not truthiness) tests, "
             "paired deletions with strict lookups, injectivity guard dominating construction, owner-only writes to "
             "fwd/bck across the whole package, delegation table. It is the per-step shape of the inductive "
             "invariant, not a proof over histories.",
        note="Trusted: CPython ast; dict semantics of subscript/get/pop/del. Not decided: the full inductive "
             "invariant over arbitrary histories (needs execution).",
        technique="static analysis: path-enumerating effect analysis (mirror discipline) + who-may-write over the AST",
        design="DESIGN.md section 5, C18"),
}

CLAIMS["C17"] = dict(
    text="Decided by structural identity: the JSON schema is re-derived from the AST of the serialization model classes "
         "(fields, annotations, Literal tags, defaults, unions, config, strict/lax switch as applied by _pydantic_rebuild) "
         "and compared definition by definition (incl. property and required order) with all four published files; "
         "the version literal, file names and generator calls are tied together; model classes are shown to carry no "
         "acceptance logic outside their declared fields (validators, constructors, aliases).",
    note="Trusted: pydantic generates for the supported subset the schema engine E derives (confirmed identical on the "
         "unchanged tree for 262 definitions) and accepts a document iff its own schema does; the SemanticVersion "
         "pattern is taken from the published file.",
    technique="static analysis: schema-from-AST derivation + structural identity with the published JSON files",
    design="DESIGN.md section 5, C17")

CLAIMS["C02"] = dict(
    text="Structural necessary conditions of a lossless round trip, decided for every code path of the codec: (R1) the symbolic "
         "composition decoder∘encoder is the identity on every init-field of all operation, type, parameter, argument and value "
         "classes; (R2) no one-shot iterator feeds two consumers; (R3) every node index written by Hugr._to_serial is a position in "
         "the emitted node list and metadata is aligned with it; (R4) the loader has no path that skips a node or an edge; (R5) "
         "order-port offsets are encoded on both endpoints and decoded by an inverse built on the same helper; (R6/R7) entry points "
         "and the load loop restore op, parent and positional metadata. Equality of runtime documents is not executed.",
    note="Trusted: CPython ast; pydantic dump/validate faithfulness for Any payloads. Not decided: fixed-point equality of concrete "
         "JSON documents, float/JSON value formatting.",
    technique="static analysis: symbolic codec composition over AST normal forms + index-space taint + CFG must-pass-through",
    design="DESIGN.md section 5, C02")
CLAIMS["C03"] = dict(
    text="Code-shape conditions for schema conformance and index sanity of every emitted document: emitters return only the dump "
         "of a validated model (with C17: models ≡ published schema); one index space; root first and own parent; orders that need "
         "parents first are derived from the hierarchy because indices are reused; the order-port offset is computed from the "
         "operation's signature plus static input (owners cross-checked against port_kind arms); builders wire static edges to "
         "the static port.",
    note="Trusted: pydantic emits a document its own schema accepts; C17 for models ≡ schema. Not decided: validation of concrete "
         "documents with jsonschema (a runtime check).",
    technique="static analysis: emitter shape rules, index-space taint, contradiction rule (index reuse vs index order), table agreement",
    design="DESIGN.md section 5, C03")

CLAIMS["C05"] = dict(
    text="Field-level lens laws decided symbolically for every codec pair: decoder∘encoder is the identity on every init-field "
         "(all op/type/param/arg/value classes, extension ops through to_custom_op), encoder∘decoder is the identity on every "
         "serial field the property lists (foreign documents); the loader keeps offset-less order edges and decodes the order "
         "port; sugar classes override construction/display only and inherit a class-insensitive __eq__ over exactly the contents. "
         "Derived facts (bound, signature, port kinds) are functions of the fields (C06/C07), so field identity implies theirs.",
    note="Trusted: CPython ast, pydantic for Any payloads. Excluded from the reverse direction with reason: runtime_reqs / "
         "extension_delta / description (not in the property's list for foreign documents). Not decided: equality of runtime values.",
    technique="static analysis: symbolic codec composition in both directions over AST normal forms; override/flag tables for sugar classes",
    design="DESIGN.md section 5, C05")

CLAIMS["C06"] = dict(
    text="The property is a table and the table is in the code: the normal form (syntax-directed rewriting, properties/helpers "
         "inlined) of every signature method, output count and port-kind arm of every operation class is compared with the "
         "row the specification assigns (28 signature rows, 24 output counts cross-checked against the signature's output row, "
         "port-kind arms per class, the Call sibling rule that all three readers use the instantiated signature).",
    note="Rows are compared as expressions, not evaluated; the frozen specification rows carry one citation each (property "
         "statement / specification/hugr.md).",
    technique="static analysis: expression normal forms vs frozen specification table; sibling agreement inside ops.Call",
    design="DESIGN.md section 5, C06")

CLAIMS["C07"] = dict(
    text="Bound computation decided structurally: every class satisfying the Type protocol defines type_bound; the normal form of "
         "each definition equals the specification row (sums: join over every element of every row; function types Copyable; qubit "
         "Any; variables/aliases/opaque: declared bound; extension types: explicit bound or join over the TypeTypeArg arguments at "
         "exactly the definition's indices); TypeBound.join is shown to be the least upper bound on the two-point lattice by a "
         "finite-domain abstract interpretation with an inductive loop invariant; the serialized bound is the computed one; the "
         "std collections agree with their bundled JSON definitions, incl. the ValueError guard dominating StaticArray construction.",
    note="Evaluation on concrete nested types follows by structural induction from R2+R3 and is not executed.",
    technique="static analysis: normal-form table + finite-domain abstract interpretation + CFG guard dominance + JSON table agreement",
    design="DESIGN.md section 5, C07")

CLAIMS["C11"] = dict(
    text="Resolution decided by code shape on every path: (R1) every type / type-argument class and ops.Custom rebuilds each field "
         "that can contain types from its resolved content and passes the others unchanged (field kinds derived from annotations); "
         "(R2) lookups use the value's own extension and name and `return self` occurs in exactly the not-found handlers; (R3) the "
         "opaque form of the resolved value equals the original on extension/name/signature/args modulo nested resolution, using the "
         "registry axioms (name-keyed dictionaries, owner back-reference) and the definition's description; (R4) Opaque and ExtType "
         "export the same model symbol; (R5) Hugr.resolve_extensions is a total map over nodes and resolved forms are fixed points.",
    note="Registry axioms (get_op(n).name == n, definition._extension is its owner) are established by C10.R2 and C11.R2. Not decided: "
         "agreement of a document's declared bound with the registry's definition (data, not code).",
    technique="static analysis: structural-recursion rule over annotated fields + symbolic composition with registry axioms + handler tables",
    design="DESIGN.md section 5, C11")

CLAIMS["C10"] = dict(
    text="(R1) symbolic codec composition between hugr.ext and the serial extension models: every field of bounds, type / operation "
         "/ value definitions (incl. type scheme and binary flag) and of the extension itself is preserved and decoded definitions "
         "are re-attached through add_*; (R2) the definition tables are written only by add_*, which set the owner back-reference "
         "before registration, and add_op_def adds the own extension to a present type scheme; (R3) every bundled std extension "
         "file is byte-identical to specification/std_extensions and named after the extension it defines; (R4) every literal "
         "_load_extension / types[...] / operations[...] / get_op in the std helpers exists in the bundled JSON, instantiations "
         "match the definitions' parameter count and kinds (incl. the declared variable parameter), cached signatures name their "
         "own extension.",
    note="Not decided: that each bundled file loads under pydantic (follows from schema validity, not re-checked). JSON files are "
         "read as data (the oracle), nothing is executed.",
    technique="static analysis: symbolic codec composition + who-may-write + byte/table agreement between Python literals and JSON definitions",
    design="DESIGN.md section 5, C10")

CLAIMS["C14"] = dict(
    text="Constructors of the constant helpers are expanded symbolically (explicit __init__ interpreted to a field map, sugar types "
         "expanded to general sums) and compared with the specification table: Tuple/Some/None/Left/Right/UnitSum/bool values, "
         "Tuple/Option/Either/UnitSum types, Some/Left/Right/Continue/Break tag ops; for each value helper the inhabitation equation "
         "typ.variant_rows[tag] == [v.type_() for v in vals] is decided on the expanded terms. type_() plumbing, the six std "
         "extension constants (reported std type, defining extension, element embedding, array size = len, integer width) and the "
         "Const -> LoadConst path are table-checked.",
    note="Explicitly not claimed: inhabitation for the unchecked general val.Sum(tag, typ, vals) constructor (a property of run-time "
         "values); tag-in-range for UnitSum(tag, size) (run-time integers).",
    technique="static analysis: symbolic constructor expansion + normal-form table comparison + std definition model",
    design="DESIGN.md section 5, C14")

CLAIMS["C04"] = dict(
    text="Disciplines without which the store provably diverges from a sequential port-multigraph model, decided on all paths: "
         "owner-only writes to the node table / free list / link map / child lists / port counters across the whole package "
         "(aliases and children() results followed); slot <-> free-list <-> child-list pairing in delete_node and _add_node "
         "(CFG must-pass-through); every removal from the link map goes through the single gap-closing helper because readers and "
         "allocator assume a gap-free prefix of sub-offsets (contradiction rule); delete_node drains every port incl. the order "
         "port; all query methods are effect-free (transitive); add_link grows counts by max(); direction <-> dictionary tables and "
         "listing methods compared as normal forms.",
    note="Not decided: agreement of every query with the model after arbitrary histories (needs execution); correctness of the "
         "re-keying arithmetic inside the helper beyond its shape.",
    technique="static analysis: who-may-write + effect analysis + CFG pairing + contradiction rule + normal-form tables",
    design="DESIGN.md section 5, C04")

CLAIMS["C08"] = dict(
    text="Code-shape part of 'insertion is an isomorphism': every NodeData field is transferred (op, mapped parent with root -> "
         "requested parent, output count, metadata) or on the derived list; the link loop ranges over all source links with both "
         "endpoints mapped, offsets kept (incl. -1) and directions not crossed; no store or mutator reaches the source HUGR (effect "
         "analysis on the parameter); the copy loop takes its parent-first order from the hierarchy; the four insert_* wrappers "
         "delegate to _insert_nested_impl with the wire order of their add_* twins (sibling agreement).",
    note="Not decided: that the result is an isomorphism for every pair of graphs (multiplicities, sub-offset order) -- needs "
         "execution. Observation, not raised: metadata dicts and op objects are shared by reference.",
    technique="static analysis: field-coverage rule over NodeData + effect analysis on the source parameter + sibling agreement",
    design="DESIGN.md section 5, C08")

CLAIMS["C19"] = dict(
    text="Structural conditions of the documented replay convention: the bit cast is guarded by isinstance(int) and membership in "
         "{0,1} and its result alphabet is {'0','1'} for both admitted classes int and bool (finite type lattice; str(bool) is the "
         "known-bad idiom), ValueError otherwise; the replay loop and the collation iterate self.entries in order; the tag grammar "
         "is checked on the regex AST and against the module documentation; creation / growth / single-bit write / overwrite shapes "
         "of the two arms; strict options raise ValueError and are tested before the shot is merged into the accumulator "
         "(check-before-update on the CFG); wrappers forward both flags and flatten in order.",
    note="Not decided: equality with a replay oracle for every stream (needs execution). re._parser is used to parse the regex "
         "literal (parsing, not matching).",
    technique="static analysis: CFG guard dominance, check-before-update reachability, regex AST, idiom tables",
    design="DESIGN.md section 5, C19")

CLAIMS["C15"] = dict(
    text="Code-shape conditions of 'tracked wiring = explicit wiring': every override in hugr.build uses each parameter the "
         "implementation it overrides uses (so metadata given to a tracked add reaches add_op, with the same keywords as Dfg.add); "
         "the node is built by add_op(com.op, *wires) with ints replaced by the currently tracked wires, in order, before the node "
         "exists (normal-form comparison); rebinding happens after creation, exactly for int arguments, to the new node's output at "
         "the argument's position; `tracked` is append-only (who-may-write table: append / None / store), bad indices raise "
         "IndexError, outputs filter None in index order.",
    note="Not decided: node-for-node equality of the built graphs for every script (needs execution).",
    technique="static analysis: override/parameter-use rule, normal-form comparison, CFG guard on the rebinding store, writer table",
    design="DESIGN.md section 5, C15")

CLAIMS["C13"] = dict(
    text="Guard table decided on the statement CFG of every refusal site the property lists: the documented exception is raised, "
         "reachable, controlled (edge-sensitively) by a test of the required form on the named quantities (identity with None, "
         "(in)equality of the two rows, count comparison), and the check can never follow the effect it protects "
         "(check-before-effect reachability); the CFG dominator-edge fallback catches NoSiblingAncestor only and links after its "
         "ancestor walk; optional op fields are read only through _check_complete accessors on every method reachable from "
         "_to_serial; index range guards followed by a subscript bound the index on both sides (one-sided comparison rule).",
    note="'Wherever in a program the inconsistency occurs' reduces to these sites because every builder path funnels through "
         "them; the reduction itself is by reading the call graph, not executed.",
    technique="static analysis: CFG guard dominance / check-before-effect + call-graph walk for raw optional reads + one-sided comparison rule",
    design="DESIGN.md section 5, C13")

CLAIMS["C16"] = dict(
    text="Decided: identity flags (frozen dataclasses, Node metadata and count excluded from comparison, direction a ClassVar) so "
         "ports compare and hash by node index and offset only; every handle-returning graph / builder method sets the output count "
         "(add_node/_add_node, add_op after wiring, call, load, insert_hugr) and every container count update on self.parent_node is "
         "stored back, with the parent's child-list copy refreshed; ToNode protocol rows as normal forms; the ValueError refusal of "
         "slicing without any known bound and the three IndexError refusals of _normalize_index sit under the required tests "
         "(edge-sensitive CFG control).",
    note="Explicitly not decided: that integer / slice results equal range(n)[...] for all n and index expressions -- arithmetic "
         "over run-time integers needs a relational numeric domain or a solver (another technique family).",
    technique="static analysis: dataclass flag tables, handle dataflow rules over builder call sites, CFG control of refusal sites",
    design="DESIGN.md section 5, C16")

CLAIMS["C09"] = dict(
    text="Envelope conditions visible in code shape: header constants equal the tables scanned from hugr-core/src/envelope/header.rs "
         "(magic, format discriminants, flag constant, zstd mask, printable formats) and the documented layout; header length 10 is "
         "used consistently (length test, byte positions, payload offset); the zstd flag is `zstd is not None`, compression happens "
         "under exactly that condition and decompression iff the flag read with the same mask; the three rejection guards dominate "
         "the decoder's return and no handler swallows them; text encoding is gated on ascii_printable before encoding; writer and "
         "reader have an arm for every format; Package entry points pair up; the Package codec maps both lists in order.",
    note="Not decided: byte-level round trip through zstd / UTF-8 for arbitrary payloads; exhaustive decoding of the 2^16 header "
         "space would mean executing from_bytes (another family).",
    technique="static analysis: table agreement with the Rust reference + CFG guard dominance + match exhaustiveness",
    design="DESIGN.md section 5, C09")
CLAIMS["C20"] = dict(
    text="Rendering decided by shape: render starts _viz_node at the root and draws one _viz_link per element of hugr.links() with "
         "no filter; _viz_node emits exactly one node statement on each of its two paths, named str(node.idx) with the op's display "
         "name, opens cluster<idx> iff the node has children and recurses over all children inside it; port cells are generated "
         "for range(num_in_ports)/range(num_out_ports) with the id prefixes the edge endpoints use; every arm of the kind match "
         "falls through to the single graph.edge(out-port name, in-port name), the match is exhaustive over tys.Kind and value edges "
         "are labelled str(ty); no store/mutator reaches the Hugr; the configuration only feeds colours and the name choice.",
    note="Not decided: the DOT text itself (graphviz library behaviour).",
    technique="static analysis: path-count rule on the node statements, effect analysis, match exhaustiveness against tys.Kind",
    design="DESIGN.md section 5, C20")

CLAIMS["C12"] = dict(
    text="Export conditions decided in the exporter's code shape: mangled symbols take name and node from the same operation "
         "(def-use through the match binding), so calls/loads name an existing definition; order hints are produced per order edge "
         "between non-boundary siblings and reach model.Region(meta=...); no exported port list ranges over the store's connection "
         "counters -- counts come from the signature table _num_model_ports (control ports for blocks, instantiation for calls); "
         "the CFG region's source is the entry block's input port; every operation class has an unguarded, unshadowed arm or a "
         "region exporter and regions export every child in order; the Python model dataclasses declare exactly the attributes and "
         "constructor arity that hugr-model/src/v0/ast/python.rs reads (28 classes, table scanned from Rust); union-find over all "
         "links, metadata for every key and node kind, order keys; opaque and resolved extension ops export alike.",
    note="Not decided: well-scopedness of the exported module for every program (needs the Rust importer, not built offline). "
         "Reference behaviour cited from hugr-core/src/export.rs.",
    technique="static analysis: def-use provenance, dead-store / taint rules on port counts, dispatch exhaustiveness, table agreement with the Rust binding",
    design="DESIGN.md section 5, C12")

CLAIMS["C01"] = dict(
    text="Necessary conditions of validity that live in builder code shape, on all builder paths: mandated child positions "
         "(Input/Output, entry/exit block, one Case per variant in index order) and every node-creating call's parent/child pair are "
         "checked against the validity flags, op tags and tag lattice scanned from hugr-core/src/ops/{validate,tag,*}.rs; rows and "
         "output counts flow from the given wires / the child Output into the container op on every path of every set_outputs "
         "override (must-pass-through) and of branch_exit; every non-local value wire is preceded by a state-order edge from the "
         "source node to the target's ancestor; the order port is addressed from the signature; the ancestor walk stops at a "
         "function boundary.",
    note="It is not a validity proof: acyclicity of regions, dominance between blocks, linear use, equality of types at both ends "
         "of an edge and inhabitation of user-built constants are facts about the user's program values that no shape of builder "
         "code implies; the reference validator cannot be built offline.",
    technique="static analysis: typestate of child creation order, table agreement with the Rust validity tables, CFG must-pass-through",
    design="DESIGN.md section 5, C01")

NOT_APPLICABLE_REASON: dict[str, str] = {}


def build() -> dict:
    props = [json.loads(l)["id"] for l in (VERIF / "properties.jsonl").read_text().splitlines() if l.strip()]
    checks = []
    na = []
    for pid in props:
        mod = VERIF / "hv" / "props" / f"{pid.lower()}.py"
        if pid in CLAIMS and mod.exists():
            c = CLAIMS[pid]
            checks.append({
                "property_id": pid,
                "quick_cmd": f"./check {pid} --tier quick",
                "thorough_cmd": f"./check {pid} --tier thorough",
                "evidence_file": f"/verif/evidence/{pid}.json",
                "replay_cmd_template": f"./check {pid} --replay {{path}}",
                "engine": "hv",
                "level_claimed": {"category": "other", "text": c["text"], "design_ref": c["design"]},
                "level_note": c["note"],
                "technique": c["technique"] + "; rules are stated over canonical function bodies and per-path summaries (hv/canon.py, hv/paths.py), so "
                             "local names, temporaries, extracted helpers, match/isinstance, loop/comprehension and guard-clause/if-else spellings do not matter",
            })
        else:
            na.append({"property_id": pid, "reason": NOT_APPLICABLE_REASON.get(
                pid, "checker not built yet in this session (static rules designed in DESIGN.md section 5); not claimed until it exists")})
    return {
        "version": 1,
        "setup_cmd": "sh ./setup.sh",
        "hooks": {
            "guard": "HUGR_PY_VERIF",
            "enable": "no hooks: the checks only parse /repo's sources; nothing in /repo is instrumented",
            "baseline_off_cmd": "cd /repo && /venv/bin/python -m pytest -ra -q -p no:cacheprovider --timeout=900 --continue-on-collection-errors",
            "source_commits": [],
            "add_only": True,
        },
        "engines": [{
            "name": "hv", "path": "/verif/hv",
            "serves_properties": [c["property_id"] for c in checks],
            "kind_free_text": "stdlib-ast static analysers (program model, statement CFG, canonical forms, path summaries, expression normal forms, "
                              "Rust/JSON table scanners, schema-from-AST) with repository-specific rules per property",
        }],
        "checks": checks,
        "not_applicable": na,
        "notes": "All checks are static analysis of /repo's current working tree; exit 0/1/2 contract in DESIGN.md section 2. "
                 "Known findings: /verif/known_findings.jsonl.",
    }


if __name__ == "__main__":
    m = build()
    (VERIF / "MANIFEST.json").write_text(json.dumps(m, indent=1) + "\n")
    print(f"MANIFEST.json: {len(m['checks'])} checks, {len(m['not_applicable'])} not_applicable")
