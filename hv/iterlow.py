"""Index streams written with itertools, as the counting loops they abbreviate.

    for T in S: BODY          return (E for v in S)          return next(S)          x = next(S)

with S built from  itertools.count(a)  by generator expressions, takewhile, filterfalse and filter, becomes

    k = a
    while True:
        <the stages of S over k: bind, `if not P: break` (takewhile), `if C:` (filters)>  BODY / yield E / return element
        k = k + 1

Only streams whose base is count() are touched (an infinite index stream: the one thing a `while` loop with a counter and a lazy
itertools pipeline have in common).  `rotate_loops` then turns  `while True: t = E; if not C: break; REST`  into  `while C: REST`
(t a pure temporary, written in).  Everything is exact: the stages of a lazy pipeline run interleaved, element by element, in the
order the loop spells out.
"""
from __future__ import annotations

import ast
import copy

from . import norm
from .model import u

_COUNTER = [0]


def _fresh(prefix: str) -> str:
    _COUNTER[0] += 1
    return f"{prefix}{_COUNTER[0]}_"


def _itertools(e, name: str) -> bool:
    return isinstance(e, ast.Call) and u(e.func) in (name, f"itertools.{name}") and not e.keywords


def _has_count_base(e) -> bool:
    if _itertools(e, "count"):
        return len(e.args) <= 2 and (len(e.args) < 2 or (isinstance(e.args[1], ast.Constant) and e.args[1].value == 1))
    if isinstance(e, ast.GeneratorExp) and len(e.generators) == 1 and not e.generators[0].is_async:
        return _has_count_base(e.generators[0].iter)
    if (_itertools(e, "takewhile") or _itertools(e, "filterfalse")) and len(e.args) == 2:
        return _has_count_base(e.args[1])
    if isinstance(e, ast.Call) and isinstance(e.func, ast.Name) and e.func.id == "filter" and len(e.args) == 2 and not e.keywords and not (
            isinstance(e.args[0], ast.Constant) and e.args[0].value is None):
        return _has_count_base(e.args[1])
    return False


def _apply(pred, x):
    """pred(x) as a test"""
    if isinstance(pred, ast.Attribute) and pred.attr == "__contains__":
        return ast.Compare(left=copy.deepcopy(x), ops=[ast.In()], comparators=[copy.deepcopy(pred.value)])
    if isinstance(pred, ast.Lambda) and len(pred.args.args) == 1 and not (pred.args.vararg or pred.args.kwarg or pred.args.kwonlyargs or pred.args.defaults):
        return norm._Subst({pred.args.args[0].arg: copy.deepcopy(x)}).visit(copy.deepcopy(pred.body))
    return ast.Call(func=copy.deepcopy(pred), args=[copy.deepcopy(x)], keywords=[])


def _named(x, pre):
    """x as something that may be read several times: itself when a name, else a fresh temporary bound in pre"""
    if isinstance(x, ast.Name):
        return x
    t = _fresh("el")
    pre.append(ast.Assign(targets=[ast.Name(id=t, ctx=ast.Store())], value=x))
    return ast.Name(id=t, ctx=ast.Load())


def _gen(src, body_fn):
    """statements running body_fn(element) for every element of src, in order; (statements, counter name)"""
    if _itertools(src, "count"):
        k = _fresh("k")
        start = copy.deepcopy(src.args[0]) if src.args else ast.Constant(0)
        inner = body_fn(ast.Name(id=k, ctx=ast.Load()))
        step = ast.Assign(targets=[ast.Name(id=k, ctx=ast.Store())], value=ast.BinOp(left=ast.Name(id=k, ctx=ast.Load()), op=ast.Add(), right=ast.Constant(1)))
        loop = ast.While(test=ast.Constant(True), body=inner + [step], orelse=[])
        return [ast.Assign(targets=[ast.Name(id=k, ctx=ast.Store())], value=start), loop]
    if isinstance(src, ast.GeneratorExp):
        g = src.generators[0]
        # (every binder gets its own name: nested generator expressions may reuse one)
        ren = {n.id: _fresh("v") for n in ast.walk(g.target) if isinstance(n, ast.Name)}
        r_ = norm._Rename(ren)

        def stage(x):
            out = [ast.Assign(targets=[r_.visit(copy.deepcopy(g.target))], value=x)]
            inner = body_fn(r_.visit(copy.deepcopy(src.elt)))
            for c in reversed(g.ifs):
                inner = [ast.If(test=r_.visit(copy.deepcopy(c)), body=inner, orelse=[])]
            return out + inner
        return _gen(g.iter, stage)
    if _itertools(src, "takewhile"):
        def stage(x):
            pre = []
            x = _named(x, pre)
            stop = ast.If(test=ast.UnaryOp(op=ast.Not(), operand=_apply(src.args[0], x)), body=[ast.Break()], orelse=[])
            return pre + [stop] + body_fn(copy.deepcopy(x))
        return _gen(src.args[1], stage)
    neg = _itertools(src, "filterfalse")

    def stage(x):
        pre = []
        x = _named(x, pre)
        t = _apply(src.args[0], x)
        if neg:
            t = ast.UnaryOp(op=ast.Not(), operand=t)
        return pre + [ast.If(test=t, body=body_fn(copy.deepcopy(x)), orelse=[])]
    return _gen(src.args[1], stage)


def _loop_level(stmts, kinds):
    out = []

    def walk(n):
        if isinstance(n, kinds):
            out.append(n)
        for c in ast.iter_child_nodes(n):
            if not isinstance(c, (ast.For, ast.While, ast.FunctionDef, ast.AsyncFunctionDef, ast.Lambda, ast.ClassDef)):
                walk(c)
    for s in stmts:
        walk(s)
    return out


def lower_iter_pipelines(stmts: list[ast.stmt], top: bool = True) -> list[ast.stmt]:
    if not any(isinstance(n, ast.Call) and u(n.func) in ("count", "itertools.count") for s in stmts for n in ast.walk(s)):
        return stmts
    out: list[ast.stmt] = []
    stmts = list(stmts)
    own_yield = any(isinstance(n, (ast.Yield, ast.YieldFrom)) for s in stmts for n in ast.walk(s))
    n_ret = sum(1 for s in stmts for n in ast.walk(s) if isinstance(n, ast.Return))
    for i, s in enumerate(stmts):
        new = None
        if isinstance(s, ast.For) and not s.orelse and _has_count_base(s.iter) and not _loop_level(s.body, (ast.Continue,)):
            new = _gen(s.iter, lambda x: [ast.Assign(targets=[copy.deepcopy(s.target)], value=x)] + [copy.deepcopy(b) for b in s.body])
        elif top and isinstance(s, ast.Return) and i == len(stmts) - 1 and isinstance(s.value, ast.GeneratorExp) and _has_count_base(s.value) \
                and not own_yield and n_ret == 1:
            # a function handing out a generator expression is the generator function that yields its elements
            new = _gen(s.value, lambda x: [ast.Expr(value=ast.Yield(value=x))])
        elif isinstance(s, (ast.Return, ast.Assign)) and isinstance(s.value, ast.Call) and isinstance(s.value.func, ast.Name) and s.value.func.id == "next" \
                and len(s.value.args) == 1 and not s.value.keywords and _has_count_base(s.value.args[0]) \
                and (isinstance(s, ast.Return) or (len(s.targets) == 1 and isinstance(s.targets[0], ast.Name))):
            if isinstance(s, ast.Return):
                new = _gen(s.value.args[0], lambda x: [ast.Return(value=x)])
            else:
                new = _gen(s.value.args[0], lambda x: [ast.Assign(targets=[copy.deepcopy(s.targets[0])], value=x), ast.Break()])
            # (an exhausted pipeline raises StopIteration: only a takewhile stage can end an index stream)
            if any(isinstance(n, ast.Call) and u(n.func) in ("takewhile", "itertools.takewhile") for n in ast.walk(s.value)):
                new.append(ast.Raise(exc=ast.Call(func=ast.Name(id="StopIteration", ctx=ast.Load()), args=[], keywords=[]), cause=None))
        if new is not None:
            for x in new:
                ast.copy_location(x, s)
                ast.fix_missing_locations(x)
            out += new
            continue
        for fld in ("body", "orelse", "finalbody"):
            b = getattr(s, fld, None)
            if isinstance(b, list) and b and isinstance(b[0], ast.stmt) and not isinstance(s, (ast.FunctionDef, ast.AsyncFunctionDef, ast.ClassDef)):
                setattr(s, fld, lower_iter_pipelines(b, False))
        if isinstance(s, ast.Try):
            for h in s.handlers:
                h.body = lower_iter_pipelines(h.body, False)
        out.append(s)
    return out


def rotate_loops(stmts: list[ast.stmt], pure_calls=()) -> list[ast.stmt]:
    """while True: t = E ..; if not C: break; REST        ->   while C': REST'
       while True: t = E ..; if not C: return X; REST     ->   while C': REST'  ;  return X'
    t pure temporaries (bound nowhere else) written into C / REST / X; the loop is left nowhere else when a return follows it"""
    out: list[ast.stmt] = []
    for s in stmts:
        for fld in ("body", "orelse", "finalbody"):
            b = getattr(s, fld, None)
            if isinstance(b, list) and b and isinstance(b[0], ast.stmt) and not isinstance(s, (ast.FunctionDef, ast.AsyncFunctionDef, ast.ClassDef)):
                setattr(s, fld, rotate_loops(b, pure_calls))
        if isinstance(s, ast.Try):
            for h in s.handlers:
                h.body = rotate_loops(h.body, pure_calls)
        if isinstance(s, ast.While) and isinstance(s.test, ast.Constant) and s.test.value is True and not s.orelse:
            body = list(s.body)
            j = 0
            temps: dict[str, ast.expr] = {}
            while j < len(body) and isinstance(body[j], ast.Assign) and len(body[j].targets) == 1 and isinstance(body[j].targets[0], ast.Name) \
                    and norm.is_pure(body[j].value, pure_calls):
                temps[body[j].targets[0].id] = norm._Subst(dict(temps)).visit(copy.deepcopy(body[j].value))
                j += 1
            guard = body[j] if j < len(body) else None
            if isinstance(guard, ast.If):
                t, neg = guard.test, False
                while isinstance(t, ast.UnaryOp) and isinstance(t.op, ast.Not):
                    t, neg = t.operand, not neg
                leave, stay = (guard.orelse, guard.body) if not neg else (guard.body, guard.orelse)      # leave when t is false (not neg) ..
                # normalise to: cond holds -> stay
                cond = t
                exit_blk = [x for x in leave if not isinstance(x, ast.Pass)]
                stay_blk = [x for x in stay if not isinstance(x, ast.Pass)]
                rest = stay_blk + body[j + 1:]
                all_stores = [n.id for st in stmts for n in ast.walk(st) if isinstance(n, ast.Name) and isinstance(n.ctx, (ast.Store, ast.Del))]
                ok = len(exit_blk) == 1 and isinstance(exit_blk[0], (ast.Break, ast.Return)) and all(all_stores.count(k) == 1 for k in temps) \
                    and not any(isinstance(n, (ast.Break, ast.Continue)) for n in _level(rest)) and norm.is_pure(cond, pure_calls)
                if ok and isinstance(exit_blk[0], ast.Return) and (any(isinstance(n, ast.Return) for x in rest for n in ast.walk(x))):
                    ok = False
                if ok:
                    sub = norm._Subst(dict(temps))
                    new_loop = ast.While(test=sub.visit(copy.deepcopy(cond)), body=[sub.visit(copy.deepcopy(x)) for x in rest] or [ast.Pass()], orelse=[])
                    new = [new_loop]
                    if isinstance(exit_blk[0], ast.Return):
                        new.append(ast.Return(value=sub.visit(copy.deepcopy(exit_blk[0].value)) if exit_blk[0].value is not None else None))
                    for x in new:
                        ast.copy_location(x, s)
                        ast.fix_missing_locations(x)
                    out += new
                    continue
        out.append(s)
    # statements after a `return` that now follows a loop are unreachable
    for i, s in enumerate(out):
        if isinstance(s, ast.Return) and i > 0 and isinstance(out[i - 1], ast.While) and i < len(out) - 1 and all(isinstance(x, ast.Raise) for x in out[i + 1:]):
            return out[: i + 1]
    return out


def _level(stmts):
    found = []

    def walk(n):
        found.append(n)
        for c in ast.iter_child_nodes(n):
            if not isinstance(c, (ast.For, ast.While, ast.FunctionDef, ast.AsyncFunctionDef, ast.Lambda, ast.ClassDef)):
                walk(c)
    for s in stmts:
        walk(s)
    return found
