"""CODEC rule family: symbolic composition of encoders and decoders (engine C).

forward:  S.deserialize ∘ X._to_serial  must be the identity on every init-field of X
reverse:  X._to_serial ∘ S.deserialize  must be the identity on every serial field of S
"""
from __future__ import annotations

import ast

from .model import Class, is_stub
from .nf import NF, Env, Opaque, attr, ctor_args, show, sym

# fields that are derived constants of the class and never encoded
DERIVED = {"num_out"}


class Problem:
    def __init__(self, kind: str, field: str, msg: str, expected: str = "", found: str = "", node=None):
        self.kind, self.field, self.msg, self.expected, self.found, self.node = kind, field, msg, expected, found, node


def encoders(prog, modname: str, methods=("_to_serial",)) -> list[Class]:
    """concrete classes of a module that have a non-stub encoder along their MRO"""
    out = []
    for c in prog.module(modname).classes.values():
        if "Protocol" in [ast.unparse(b).split("[")[0].split(".")[-1] for b in c.node.bases]:
            continue
        k, m = c.find_method(methods[0])
        if m is None or is_stub(m):
            continue
        out.append(c)
    return out


def forward(nf: NF, x: Class, enc_name: str = "_to_serial", general_of=None) -> tuple[list[Problem], str]:
    """returns (problems, description of the normal form)"""
    k, m = x.find_method(enc_name)
    self_t = sym("self")
    try:
        ser, env = nf.method_nf(x, enc_name)
    except Opaque as e:
        return [Problem("opaque", "", f"encoder {x.name}.{enc_name} is outside the normalisable subset: {e}", node=m)], ""
    if ser[0] != "ctor":
        return [Problem("opaque", "", f"encoder {x.name}.{enc_name} does not normalise to a serial-model constructor: {show(ser)[:120]}", node=m)], show(ser)
    back = nf.mk_dec(ser, env)
    desc = f"{show(ser)[:200]}  ==dec==>  {show(back)[:200]}"
    if back == self_t:
        return [], desc
    if back[0] == "alts":
        # a branching decoder: every returning path must give the object back
        probs = []
        for guard, alt in back[1]:
            if alt == self_t:
                continue
            sub = _forward_compare(nf, x, alt, self_t, env, m, general_of)
            for p_ in sub:
                p_.msg = f"on the decoder path [{guard}]: " + p_.msg
            probs += sub
        return probs, desc
    return _forward_compare(nf, x, back, self_t, env, m, general_of), desc


def _forward_compare(nf, x, back, self_t, env, m, general_of) -> list:
    if back[0] != "ctor":
        return [Problem("nonctor", "", f"decoding the encoded form does not rebuild an object: {show(back)[:160]}", node=m)]
    y = nf.prog.cls(back[1])
    probs: list[Problem] = []
    if not (y is x or y in x.mro or (general_of and general_of(x) is y)):
        probs.append(Problem("class", "", f"{x.name} is decoded as {y.name}, which is not {x.name} or its general form",
                             expected=x.name, found=y.name, node=m))
        return probs
    args = ctor_args(back)
    for p in y.init_params():
        if p in DERIVED:
            continue
        f = x.find_field(p)
        if f is None:
            probs.append(Problem("unrelated", p, f"constructor parameter {p} of {y.name} has no field of that name in {x.name}", node=m))
            continue
        exp = attr(self_t, p)
        got = args.get(p)
        if got is None:
            fy = y.find_field(p)
            dflt = nf.field_default(fy, env) if fy is not None else None
            probs.append(Problem("dropped", p,
                                 f"field `{p}` of {x.name} is encoded but the decoder does not pass it back: it is reset to its "
                                 f"default {show(dflt) if dflt else ''}", expected=show(exp), found=f"<default {show(dflt) if dflt else '?'}>"))
        elif got != exp:
            kind = "crossed" if got[0] == "attr" and got[1] == self_t else "changed"
            probs.append(Problem(kind, p, f"field `{p}` of {x.name} comes back as {show(got)[:140]}", expected=show(exp), found=show(got)[:300]))
    return probs


def reverse(nf: NF, s: Class, skip_fields=("parent",), dec_args: dict | None = None) -> tuple[list[Problem], str]:
    """E∘D on a symbolic instance of the serial class s"""
    k, m = s.find_method("deserialize")
    self_t = sym("self")
    try:
        alts = nf.method_alts(s, "deserialize", args=dec_args)
    except Opaque as e:
        return [Problem("opaque", "", f"decoder {s.name}.deserialize is outside the normalisable subset: {e}", node=m)], ""
    if len(alts) > 1:
        probs: list[Problem] = []
        descs = []
        for guard, obj, env in alts:
            sub, d = _reverse_one(nf, s, obj, env, m, self_t, skip_fields)
            for p_ in sub:
                p_.msg = f"on the decoder path [{guard}]: " + p_.msg
            probs += sub
            descs.append(d)
        return probs, " | ".join(descs)[:400]
    _, obj, env = alts[0]
    return _reverse_one(nf, s, obj, env, m, self_t, skip_fields)


def _reverse_one(nf, s, obj, env, m, self_t, skip_fields):
    if obj[0] != "ctor":
        return [Problem("nonctor", "", f"decoder {s.name}.deserialize does not build an object on this path: {show(obj)[:120]}", node=m)], show(obj)
    ser = nf.mk_enc(obj, env)
    desc = f"{show(obj)[:200]}  ==enc==>  {show(ser)[:200]}"
    if ser == self_t:
        return [], desc
    if ser[0] != "ctor":
        return [Problem("nonctor", "", f"re-encoding the decoded object does not rebuild a serial model: {show(ser)[:160]}", node=m)], desc
    s2 = nf.prog.cls(ser[1])
    if s2 is not s:
        return [Problem("class", "", f"{s.name} re-encodes as {s2.name}", expected=s.name, found=s2.name, node=m)], desc
    probs: list[Problem] = []
    compare_ctor(nf, ser, self_t, s, env, "", probs, skip_fields)
    return probs, desc


def compare_ctor(nf: NF, term, expected_sym, cls: Class, env: Env, path: str, probs: list, skip_fields=()) -> None:
    """term (a ctor of cls) must equal the symbolic object expected_sym : cls, field by field"""
    args = ctor_args(term)
    for f in cls.all_fields():
        if f.name in skip_fields or f.name == "model_config":
            continue
        ann = ast.unparse(f.node.annotation)
        if ann.startswith("Literal["):
            continue        # constant tag
        exp = attr(expected_sym, f.name)
        got = args.get(f.name)
        fp = f"{path}{f.name}"
        if got is None:
            d = nf.field_default(f, env)
            probs.append(Problem("dropped", fp, f"serial field `{fp}` is read by the decoder's model but not written back by the encoder "
                                 f"(reset to default {show(d) if d else '?'})", expected=show(exp), found=f"<default {show(d) if d else '?'}>"))
            continue
        if got == exp:
            continue
        if got[0] == "ctor":
            ft = nf.ann_type(f.owner.module, f.node.annotation)
            if isinstance(ft, Class) and nf.prog.cls(got[1]) is ft:
                compare_ctor(nf, got, exp, ft, env, fp + ".", probs, skip_fields)
                continue
        kind = "dropped" if got[0] in ("list", "const", "default") else "changed"
        probs.append(Problem(kind, fp, f"serial field `{fp}` comes back as {show(got)[:140]}", expected=show(exp), found=show(got)[:300]))
