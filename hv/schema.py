"""Engine E: re-derive, from the class definitions alone, the JSON schema pydantic generates for
the serialization models (hugr/_serialization/*.py).  AST only -- pydantic is never imported.

Supported subset (everything the package uses): BaseModel subclasses with annotated fields,
RootModel with (discriminated) unions, str-Enums, Literal tags, `X | None`, list / set / dict /
tuple generics, Annotated[..., Field(discriminator=...)], module-level type aliases, Field(...)
defaults / default_factory / title / description, model_config title / json_schema_extra, class
docstrings, the strict / lax `extra` switch applied by `_pydantic_rebuild`.
"""
from __future__ import annotations

import ast
import inspect
import json

from .core import AnalysisError
from .model import Class, Module, Program, u

SER_MODULES = ["hugr._serialization.tys", "hugr._serialization.ops", "hugr._serialization.serial_hugr",
               "hugr._serialization.extension", "hugr._serialization.testing_hugr"]


_BOUNDS = {"Ge": "minimum", "Gt": "exclusiveMinimum", "Le": "maximum", "Lt": "exclusiveMaximum", "MultipleOf": "multipleOf",
           "MinLen": "minLength", "MaxLen": "maxLength"}


class Unsupported(Exception):
    pass


class SchemaDeriver:
    def __init__(self, prog: Program, semver_schema: dict | None):
        self.prog = prog
        self.semver = semver_schema
        self.mods = {m: prog.module(m) for m in SER_MODULES}
        self.base_model_names = {"BaseModel", "RootModel"}

    # ---- name resolution -------------------------------------------------------------
    def resolve(self, mod: Module, name: str, depth: int = 0):
        """-> ('class', Class) | ('alias', expr, Module) | ('builtin', name)"""
        if depth > 8:
            raise Unsupported(f"alias chain too deep at {name}")
        if name in ("str", "int", "bool", "float", "Any", "None"):
            return ("builtin", name)
        if name in mod.classes:
            return ("class", mod.classes[name])
        if name in mod.assigns:
            return ("alias", mod.assigns[name], mod)
        if name in mod.imports:
            q = mod.imports[name]
            mq, _, member = q.rpartition(".")
            if mq in self.prog.modules:
                return self.resolve(self.prog.modules[mq], member, depth + 1)
            if member in ("Any",):
                return ("builtin", "Any")
            if member == "SemanticVersion":
                return ("external", "SemanticVersion")
            return ("external", q)
        raise Unsupported(f"name {name} not resolvable in {mod.name}")

    # ---- class kinds -----------------------------------------------------------------
    def is_root(self, c: Class) -> bool:
        return "RootModel" in c.base_names()

    def is_model(self, c: Class) -> bool:
        bn = c.base_names()
        return bool(bn & {"BaseModel", "RootModel"}) or any(k.name == "ConfiguredBaseModel" for k in c.mro)

    def is_enum(self, c: Class) -> bool:
        return "Enum" in c.base_names()

    def is_configured(self, c: Class) -> bool:
        return any(k.name == "ConfiguredBaseModel" for k in c.mro)

    # ---- helpers ---------------------------------------------------------------------
    def const(self, e: ast.expr):
        try:
            return ast.literal_eval(e)
        except Exception as ex:
            raise Unsupported(f"non-literal {u(e)}") from ex

    canon = None        # hv.canon.Canon, set by the checker: class-body expressions are read in canonical form
    prior: dict = {}    # class -> extra mode left behind by earlier _pydantic_rebuild calls of the generating script

    def expand(self, mod: Module, e: ast.expr | None):
        """`v: T = _tag_field("X")` / `model_config = _union_config("v")`: a call of a module-level helper function in a class body
        stands for the expression the helper returns (seen through like any helper)"""
        if self.canon is None or not isinstance(e, ast.Call) or not isinstance(e.func, ast.Name):
            return e
        name = e.func.id
        target = None
        if name in mod.functions:
            target = mod.functions[name]
        elif name in mod.imports:
            mq, _, member = mod.imports[name].rpartition(".")
            if mq in self.prog.modules:
                target = self.prog.modules[mq].functions.get(member)
        if target is None:
            return e
        try:
            return self.canon.module_expr(mod, e, inline={name})
        except Exception as ex:
            raise Unsupported(f"helper call {u(e)} in a class body is not an expression: {ex}") from ex

    def field_info(self, mod: Module, e: ast.expr | None):
        e = self.expand(mod, e)
        if e is None:
            return None
        if isinstance(e, ast.Name):
            try:
                r = self.resolve(mod, e.id)
            except Unsupported:
                return None
            if r[0] == "alias" and isinstance(r[1], ast.Call):
                return self.field_info(r[2], r[1])
            return None
        if isinstance(e, ast.Call) and u(e.func).split(".")[-1] == "Field":
            d = {k.arg: k.value for k in e.keywords if k.arg}
            if e.args:
                d["default"] = e.args[0]
            d["__mod__"] = mod
            return d
        return None

    def annotated_field_info(self, mod: Module, ann: ast.expr | None):
        """the Field(..) metadata of an Annotated[T, .., Field(..)] annotation (None when there is none)"""
        if isinstance(ann, ast.Constant) and isinstance(ann.value, str):
            try:
                ann = ast.parse(ann.value, mode="eval").body
            except SyntaxError:
                return None
        if not (isinstance(ann, ast.Subscript) and u(ann.value).split(".")[-1] == "Annotated" and isinstance(ann.slice, ast.Tuple)):
            return None
        out: dict = {}
        for extra in ann.slice.elts[1:]:
            fi = self.field_info(mod, extra)
            if fi:
                out.update(fi)
        return out or None

    KNOWN_FIELD_KW = {"default", "default_factory", "title", "description", "discriminator", "frozen", "__mod__",
                      "ge", "gt", "le", "lt", "min_length", "max_length", "pattern", "multiple_of"}

    def constraints(self, fi: dict | None, sch: dict) -> dict:
        """JSON-schema keywords produced by Field(...) constraint arguments"""
        out: dict = {}
        if not fi:
            return out
        unknown = set(fi) - self.KNOWN_FIELD_KW
        if unknown:
            raise Unsupported(f"Field(...) argument(s) {sorted(unknown)} outside the supported subset")
        arr = sch.get("type") == "array"
        for k, v in fi.items():
            if k in ("ge", "gt", "le", "lt", "multiple_of"):
                out[{"ge": "minimum", "gt": "exclusiveMinimum", "le": "maximum", "lt": "exclusiveMaximum",
                     "multiple_of": "multipleOf"}[k]] = self.const(v)
            elif k == "min_length":
                out["minItems" if arr else "minLength"] = self.const(v)
            elif k == "max_length":
                out["maxItems" if arr else "maxLength"] = self.const(v)
            elif k == "pattern":
                out["pattern"] = self.const(v)
        return out

    def flat_union(self, e: ast.expr) -> list[ast.expr]:
        parts: list[ast.expr] = []

        def flat(x):
            if isinstance(x, ast.BinOp) and isinstance(x.op, ast.BitOr):
                flat(x.left)
                flat(x.right)
            elif isinstance(x, ast.Subscript) and u(x.value) in ("Union", "typing.Union"):
                for y in (x.slice.elts if isinstance(x.slice, ast.Tuple) else [x.slice]):
                    flat(y)
            elif isinstance(x, ast.Subscript) and u(x.value) in ("Optional", "typing.Optional"):
                flat(x.slice)
                parts.append(ast.Constant(value=None))
            else:
                parts.append(x)
        flat(e)
        return parts

    # ---- type -> schema --------------------------------------------------------------
    def ty(self, mod: Module, e: ast.expr, refs: set) -> dict:
        if isinstance(e, ast.Constant) and isinstance(e.value, str):
            e = ast.parse(e.value, mode="eval").body
        if isinstance(e, ast.Constant) and e.value is None:
            return {"type": "null"}
        if isinstance(e, ast.Name):
            r = self.resolve(mod, e.id)
            if r[0] == "builtin":
                return {"str": {"type": "string"}, "int": {"type": "integer"}, "bool": {"type": "boolean"},
                        "float": {"type": "number"}, "Any": {}, "None": {"type": "null"}}[r[1]]
            if r[0] == "class":
                c = r[1]
                if self.is_model(c) or self.is_enum(c):
                    refs.add(c)
                    return {"$ref": f"#/$defs/{c.name}"}
                raise Unsupported(f"class {c.qualname} is neither a model nor an enum")
            if r[0] == "alias":
                return self.ty(r[2], r[1], refs)
            if r[0] == "external" and r[1] == "SemanticVersion":
                if self.semver is None:
                    raise Unsupported("SemanticVersion fragment unavailable")
                return dict(self.semver)
            raise Unsupported(f"external type {r[1]}")
        if isinstance(e, ast.Attribute):
            base = mod.resolve(e.value)
            if isinstance(base, Module):
                return self.ty(base, ast.Name(id=e.attr, ctx=ast.Load()), refs)
            raise Unsupported(u(e))
        if isinstance(e, ast.BinOp) and isinstance(e.op, ast.BitOr):
            return {"anyOf": [self.ty(mod, p, refs) for p in self.flat_union(e)]}
        if isinstance(e, ast.Subscript):
            h = u(e.value).split(".")[-1]
            if h in ("list", "List", "Sequence"):
                return {"items": self.ty(mod, e.slice, refs), "type": "array"}
            if h in ("set", "Set", "frozenset"):
                return {"items": self.ty(mod, e.slice, refs), "type": "array", "uniqueItems": True}
            if h in ("dict", "Dict", "Mapping"):
                k, v = e.slice.elts
                vs = self.ty(mod, v, refs)
                return {"additionalProperties": vs, "type": "object"} if vs != {} else {"type": "object"}
            if h in ("tuple", "Tuple"):
                items = [self.ty(mod, x, refs) for x in (e.slice.elts if isinstance(e.slice, ast.Tuple) else [e.slice])]
                return {"maxItems": len(items), "minItems": len(items), "prefixItems": items, "type": "array"}
            if h == "Literal":
                vals = self.const(e.slice)
                if isinstance(vals, tuple):
                    kinds = {type(v).__name__ for v in vals}
                    out = {"enum": list(vals)}
                    if kinds == {"str"}:
                        out["type"] = "string"
                    return out
                t = {"str": "string", "int": "integer", "bool": "boolean"}.get(type(vals).__name__)
                return {"const": vals, "type": t} if t else {"const": vals}
            if h in ("Union", "Optional"):
                return {"anyOf": [self.ty(mod, p, refs) for p in self.flat_union(e)]}
            if h == "Annotated":
                base = e.slice.elts[0]
                sch = self.ty(mod, base, refs)
                for extra in e.slice.elts[1:]:
                    fi = self.field_info(mod, extra)
                    if fi and "discriminator" in fi:
                        sch = self.disc_union(mod, base, self.const(fi["discriminator"]), refs)
                    elif fi:
                        sch = {**sch, **self.constraints(fi, sch)}
                    elif isinstance(extra, ast.Call) and u(extra.func).split(".")[-1] in _BOUNDS and len(extra.args) + len(extra.keywords) == 1 and isinstance(
                            (extra.args[0] if extra.args else extra.keywords[0].value), ast.Constant):
                        # annotated_types.Ge(0) and friends: a numeric bound, which pydantic checks and writes into the schema
                        sch = {**sch, _BOUNDS[u(extra.func).split(".")[-1]]: (extra.args[0] if extra.args else extra.keywords[0].value).value}
                    elif u(extra).split("(")[0].split(".")[-1] not in ("WrapValidator",):
                        raise Unsupported(f"Annotated metadata {u(extra)[:60]}")
                return sch
            raise Unsupported(f"generic {h}")
        raise Unsupported(u(e))

    def union_member_classes(self, mod: Module, e: ast.expr) -> list[Class]:
        if isinstance(e, ast.Constant) and isinstance(e.value, str):
            e = ast.parse(e.value, mode="eval").body
        if isinstance(e, ast.Subscript) and u(e.value).split(".")[-1] == "Annotated":
            e = e.slice.elts[0]
        out = []
        for p in self.flat_union(e):
            if isinstance(p, ast.Name):
                r = self.resolve(mod, p.id)
                if r[0] == "class":
                    out.append(r[1])
                    continue
                if r[0] == "alias":
                    out += self.union_member_classes(r[2], r[1])
                    continue
            raise Unsupported(f"union member {u(p)}")
        return out

    def tags_of(self, c: Class, disc: str) -> list:
        if self.is_root(c):
            f = c.find_field("root")
            if f is None:
                raise Unsupported(f"{c.name}: RootModel without root")
            out = []
            for m in self.union_member_classes(f.owner.module, f.node.annotation):
                out += self.tags_of(m, disc)
            return out
        f = c.find_field(disc)
        if f is None:
            raise Unsupported(f"{c.name} has no discriminator field {disc}")
        ann = f.node.annotation
        if isinstance(ann, ast.Constant) and isinstance(ann.value, str):
            ann = ast.parse(ann.value, mode="eval").body
        if not (isinstance(ann, ast.Subscript) and u(ann.value).split(".")[-1] == "Literal"):
            raise Unsupported(f"{c.name}.{disc} is not a Literal tag")
        v = self.const(ann.slice)
        return list(v) if isinstance(v, tuple) else [v]

    def disc_union(self, mod: Module, e: ast.expr, disc: str, refs: set) -> dict:
        mem = self.union_member_classes(mod, e)
        mapping = {}
        for m in mem:
            refs.add(m)
            for t in self.tags_of(m, disc):
                mapping[t] = f"#/$defs/{m.name}"
        return {"discriminator": {"mapping": mapping, "propertyName": disc},
                "oneOf": [{"$ref": f"#/$defs/{m.name}"} for m in mem]}

    def model_config(self, c: Class):
        """(title, json_schema_extra) from the class's own `model_config = ConfigDict(...)`"""
        title, extra = None, {}
        for k in c.mro:
            v = self.expand(k.module, k.class_assigns.get("model_config"))
            if isinstance(v, ast.Call):
                for kw in v.keywords:
                    if kw.arg == "title" and title is None:
                        title = self.const(kw.value)
                    if kw.arg == "json_schema_extra" and not extra:
                        extra = self.const(kw.value)
                break   # pydantic: json_schema_extra/title of the nearest config that sets them; nearest only is what the package uses
        return title, extra

    def model_fields(self, c: Class):
        return [f for f in c.all_fields() if f.name != "model_config"]

    def model_schema(self, c: Class, extra_mode: str | None, configured: set, refs: set) -> dict:
        """extra_mode: 'forbid' | 'allow' | None"""
        if self.is_enum(c):
            vals = [self.const(v) for v in c.class_assigns.values()]
            t = {"str": "string", "int": "integer"}.get(type(vals[0]).__name__, "string") if vals else "string"
            out = {"enum": vals, "title": c.name, "type": t}
            doc = ast.get_docstring(c.node, clean=True)
            if doc:
                out["description"] = doc
            return out
        title, extra = self.model_config(c)
        doc = ast.get_docstring(c.node, clean=True)
        if self.is_root(c):
            f = c.find_field("root")
            if f is None:
                raise Unsupported(f"{c.name}: RootModel without root")
            fi = self.field_info(f.owner.module, f.node.value)
            if fi and "discriminator" in fi:
                sch = self.disc_union(f.owner.module, f.node.annotation, self.const(fi["discriminator"]), refs)
            else:
                sch = self.ty(f.owner.module, f.node.annotation, refs)
            out = {}
            if doc:
                out["description"] = doc
            out.update(sch)
            out.update(extra)
            out["title"] = title or c.name
            return out
        props: dict = {}
        required: list[str] = []
        for f in self.model_fields(c):
            mod = f.owner.module
            sch = self.ty(mod, f.node.annotation, refs)
            fi = self.field_info(mod, f.node.value)
            afi = self.annotated_field_info(mod, f.node.annotation)
            if afi and (fi is not None or f.node.value is None):
                # x: Annotated[T, Field(default_factory=list)]  declares the same field as  x: T = Field(default_factory=list)
                fi = {**afi, **(fi or {})}
            elif afi and f.node.value is not None:
                # a plain default next to Annotated metadata: the metadata without its own default
                fi = {**{k: v for k, v in afi.items() if k not in ("default", "default_factory")}, "default": f.node.value}
            has_default = False
            default = None
            ftitle = f.name.replace("_", " ").title()
            desc = None
            if fi is not None:
                if "default" in fi and not (isinstance(fi["default"], ast.Constant) and fi["default"].value is Ellipsis):
                    has_default = True
                    default = self.const(fi["default"])
                if "default_factory" in fi:
                    has_default = "factory"
                if "title" in fi:
                    ftitle = self.const(fi["title"])
                if "description" in fi:
                    desc = self.const(fi["description"])
            elif f.node.value is not None:
                has_default = True
                default = self.const(f.node.value)
            if set(sch.keys()) == {"$ref"}:
                p = dict(sch)
                if has_default is True:
                    p = {"$ref": sch["$ref"], "default": default}
                if desc:
                    p["description"] = desc
            else:
                p = dict(sch)
                if has_default is True:
                    p["default"] = default
                if desc:
                    p["description"] = desc
                p.update(self.constraints(fi, sch))
                p["title"] = ftitle
            if "anyOf" in p and all(set(x.keys()) <= {"$ref", "type"} for x in p["anyOf"]) \
                    and any("$ref" in x for x in p["anyOf"]) and all(("$ref" in x) or x == {"type": "null"} for x in p["anyOf"]):
                p.pop("title", None)
            props[f.name] = p
            if not has_default:
                required.append(f.name)
        out: dict = {}
        if c in configured and extra_mode is not None:
            out["additionalProperties"] = extra_mode == "allow"
        elif c not in configured and self.prior.get(c) is not None:
            # left configured by an earlier rebuild of the same process (model_config is updated in place)
            out["additionalProperties"] = self.prior[c] == "allow"
        if doc:
            out["description"] = doc
        out["properties"] = props
        if required:
            out["required"] = required
        out.update(extra)
        out["title"] = title or c.name
        out["type"] = "object"
        return out

    # ---- which classes receive the strict / lax config ---------------------------------
    def configured_classes(self, root: Class) -> set:
        """_pydantic_rebuild(config) updates exactly: ConfiguredBaseModel subclasses *defined* in
        _serialization/ops.py and _serialization/tys.py (the inspect.getmembers lists) plus the root class."""
        out = set()
        for mn in ("hugr._serialization.ops", "hugr._serialization.tys"):
            for c in self.mods[mn].classes.values():
                if self.is_configured(c):
                    out.add(c)
        out.add(root)
        return out

    def derive(self, root: Class, extra_mode: str | None, also: list[Class]) -> dict:
        configured = self.configured_classes(root)
        defs: dict = {}
        todo = [root] + list(also)
        seen = set()
        while todo:
            c = todo.pop(0)
            if c in seen:
                continue
            seen.add(c)
            refs: set = set()
            defs[c.name] = self.model_schema(c, extra_mode, configured, refs)
            for r in sorted(refs, key=lambda k: k.name):
                if r not in seen:
                    todo.append(r)
        return defs


def jdiff(a, b, path="") -> list[str]:
    """human-readable differences between two JSON values (a = derived from the models, b = published)"""
    out: list[str] = []
    if isinstance(a, dict) and isinstance(b, dict):
        for k in list(a) + [k for k in b if k not in a]:
            if k not in b:
                out.append(f"{path}/{k}: only in models: {json.dumps(a[k])[:120]}")
            elif k not in a:
                out.append(f"{path}/{k}: only in published schema: {json.dumps(b[k])[:120]}")
            else:
                out += jdiff(a[k], b[k], f"{path}/{k}")
        if not out and path.endswith("/properties") and list(a) != list(b):
            out.append(f"{path}: property order differs: models {list(a)} published {list(b)}")
    elif isinstance(a, list) and isinstance(b, list):
        if len(a) != len(b):
            out.append(f"{path}: models {json.dumps(a)[:160]} published {json.dumps(b)[:160]}")
        else:
            for i, (x, y) in enumerate(zip(a, b)):
                out += jdiff(x, y, f"{path}[{i}]")
    elif a != b or type(a) is not type(b):
        out.append(f"{path}: models {json.dumps(a)[:160]} published {json.dumps(b)[:160]}")
    return out
