"""Linear integer expressions and constraints (a few symbols, coefficients in Z): enough to decide `n >= len` against
`n + 1 - len > 0` and to follow a list length through creations and extensions."""
from __future__ import annotations

import ast


class Lin:
    """sum(coeff * symbol) + const"""
    __slots__ = ("c", "k")

    def __init__(self, c=None, k=0):
        self.c = {s: v for s, v in (c or {}).items() if v != 0}
        self.k = k

    @staticmethod
    def sym(name):
        return Lin({name: 1}, 0)

    def __add__(self, o):
        o = o if isinstance(o, Lin) else Lin({}, o)
        c = dict(self.c)
        for s, v in o.c.items():
            c[s] = c.get(s, 0) + v
        return Lin(c, self.k + o.k)

    def __neg__(self):
        return Lin({s: -v for s, v in self.c.items()}, -self.k)

    def __sub__(self, o):
        o = o if isinstance(o, Lin) else Lin({}, o)
        return self + (-o)

    def scale(self, n: int):
        return Lin({s: v * n for s, v in self.c.items()}, self.k * n)

    def is_const(self):
        return not self.c

    def __eq__(self, o):
        return isinstance(o, Lin) and self.c == o.c and self.k == o.k

    def __hash__(self):
        return hash((tuple(sorted(self.c.items())), self.k))

    def __repr__(self):
        parts = [f"{'' if v == 1 else '-' if v == -1 else str(v) + '*'}{s}" for s, v in sorted(self.c.items())]
        if self.k or not parts:
            parts.append(str(self.k))
        return " + ".join(parts).replace("+ -", "- ")


def lin_of(e: ast.expr, atom) -> Lin | None:
    """e as a linear expression; atom(e) -> Lin | None resolves the leaves (names, len(..), int(..))"""
    if isinstance(e, ast.Constant) and type(e.value) is int:
        return Lin({}, e.value)
    a = atom(e)
    if a is not None:
        return a
    if isinstance(e, ast.BinOp) and isinstance(e.op, (ast.Add, ast.Sub)):
        l, r = lin_of(e.left, atom), lin_of(e.right, atom)
        if l is None or r is None:
            return None
        return l + r if isinstance(e.op, ast.Add) else l - r
    if isinstance(e, ast.BinOp) and isinstance(e.op, ast.Mult):
        l, r = lin_of(e.left, atom), lin_of(e.right, atom)
        if l is not None and r is not None:
            if l.is_const():
                return r.scale(l.k)
            if r.is_const():
                return l.scale(r.k)
        return None
    if isinstance(e, ast.UnaryOp) and isinstance(e.op, ast.USub):
        v = lin_of(e.operand, atom)
        return -v if v is not None else None
    return None


def constraint(test: ast.expr, taken: bool, atom) -> list[Lin] | None:
    """the integer constraint(s) `e >= 0` a comparison puts on its operands when it evaluates to `taken`; None if not linear.
    `!=` taken (or `==` refused) gives no single conjunctive constraint: [] (nothing learnt)."""
    if isinstance(test, ast.UnaryOp) and isinstance(test.op, ast.Not):
        return constraint(test.operand, not taken, atom)
    if not (isinstance(test, ast.Compare) and len(test.ops) == 1):
        return None
    a, b = lin_of(test.left, atom), lin_of(test.comparators[0], atom)
    if a is None or b is None:
        return None
    op = type(test.ops[0])
    if not taken:
        op = {ast.Lt: ast.GtE, ast.LtE: ast.Gt, ast.Gt: ast.LtE, ast.GtE: ast.Lt, ast.Eq: ast.NotEq, ast.NotEq: ast.Eq}.get(op)
    if op is ast.Lt:
        return [b - a - 1]
    if op is ast.LtE:
        return [b - a]
    if op is ast.Gt:
        return [a - b - 1]
    if op is ast.GtE:
        return [a - b]
    if op is ast.Eq:
        return [a - b, b - a]
    if op is ast.NotEq:
        return []
    return None


def infeasible(cons: list[Lin]) -> bool:
    """a constant constraint that is violated, or two constraints e >= 0 and -e - k >= 0 (k >= 1) that contradict"""
    for e in cons:
        if e.is_const() and e.k < 0:
            return True
    for i, e in enumerate(cons):
        for f in cons[i + 1:]:
            s = e + f
            if s.is_const() and s.k < 0:
                return True
    return False


def implies(cons: list[Lin], goal: Lin, nonneg=()) -> bool:
    """cons (each >= 0) imply goal >= 0: goal is a constant >= 0, or goal - e is a nonnegative constant (plus nonnegative
    symbols) for some e in cons (goal = e + something >= 0)"""
    def nn(x: Lin) -> bool:
        return x.k >= 0 and all(v >= 0 and s in nonneg for s, v in x.c.items())
    if nn(goal):
        return True
    for e in cons:
        if nn(goal - e):
            return True
    for i, e in enumerate(cons):
        for f in cons[i + 1:]:
            if nn(goal - e - f):
                return True
    return False
