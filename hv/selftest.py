"""Thorough tier: both-ways self-validation of a property's rules on scratch copies.

A *mutant* is a small source edit that breaks the property while still compiling; the rule named
in ``expect`` must report it.  A *twin* is a behaviour-preserving edit; no new finding may appear.
Scratch copies live under tempfile.gettempdir() (outside /repo and /verif) and are removed at once.
Nothing is executed: the scratch copy is only parsed by the same checker.
"""
from __future__ import annotations

import concurrent.futures as cf
import contextlib
import io
import json
import os
import pathlib
import shutil
import tempfile

# what a scratch copy needs (relative to the repo root)
COPY = [
    "hugr-py/src/hugr",
    "specification/schema",
    "specification/std_extensions",
    "scripts/generate_schema.py",
    "hugr-core/src/envelope/header.rs",
    "hugr-core/src/ops",
    "hugr-core/src/ops.rs",
    "hugr-model/src/v0/ast/python.rs",
    "hugr-model/src/v0/mod.rs",
    "hugr-py/pyproject.toml",
]


def make_scratch(root: pathlib.Path) -> pathlib.Path:
    d = pathlib.Path(tempfile.mkdtemp(prefix="hv-scratch-"))
    for rel in COPY:
        src = root / rel
        dst = d / rel
        if src.is_dir():
            shutil.copytree(src, dst, ignore=shutil.ignore_patterns("__pycache__", "*.pyc"))
        elif src.exists():
            dst.parent.mkdir(parents=True, exist_ok=True)
            shutil.copy2(src, dst)
    return d


# ---- AST-computed edits (offset based, so they follow the current source) -------------------
def _find_method(tree, cls, meth):
    import ast
    for n in ast.walk(tree):
        if isinstance(n, ast.ClassDef) and n.name == cls:
            for f in n.body:
                if isinstance(f, ast.FunctionDef) and f.name == meth:
                    return f
    return None


def _offsets(src):
    lines = src.splitlines(keepends=True)
    starts = [0]
    for ln in lines:
        starts.append(starts[-1] + len(ln.encode()))
    return starts


def t_drop_kw(src: str, cls: str, meth: str, kw: str):
    """remove keyword argument `kw` from the (last) constructor call returned by cls.meth"""
    import ast
    tree = ast.parse(src)
    f = _find_method(tree, cls, meth)
    if f is None:
        return None
    b = src.encode()
    st = _offsets(src)
    for r in [x for x in ast.walk(f) if isinstance(x, ast.Call)]:
        for i, k in enumerate(r.keywords):
            if k.arg == kw:
                a = st[k.value.lineno - 1] + k.value.col_offset
                # start of "kw=": search backwards for the name
                start = b.rfind(kw.encode() + b"=", 0, a)
                end = st[k.value.end_lineno - 1] + k.value.end_col_offset
                # swallow a following comma
                rest = b[end:]
                j = 0
                while j < len(rest) and rest[j:j + 1] in (b" ", b"\n"):
                    j += 1
                if rest[j:j + 1] == b",":
                    end += j + 1
                return (b[:start] + b[end:]).decode()
    return None


def t_swap_kw(src: str, cls: str, meth: str, kw1: str, kw2: str):
    import ast
    tree = ast.parse(src)
    f = _find_method(tree, cls, meth)
    if f is None:
        return None
    b = src.encode()
    st = _offsets(src)
    for r in [x for x in ast.walk(f) if isinstance(x, ast.Call)]:
        ks = {k.arg: k for k in r.keywords}
        if kw1 in ks and kw2 in ks:
            def span(k):
                return st[k.value.lineno - 1] + k.value.col_offset, st[k.value.end_lineno - 1] + k.value.end_col_offset
            (a1, e1), (a2, e2) = sorted([span(ks[kw1]), span(ks[kw2])])
            return (b[:a1] + b[a2:e2] + b[e1:a2] + b[a1:e1] + b[e2:]).decode()
    return None


TRANSFORMS = {"drop_kw": t_drop_kw, "swap_kw": t_swap_kw}


def _one(args):
    prop, root, mut = args
    from .__main__ import run_property
    from .core import AnalysisError
    scratch = make_scratch(pathlib.Path(root))
    try:
        if "transform" in mut:
            p = scratch / mut["file"]
            tname, *targs = mut["transform"]
            new_src = TRANSFORMS[tname](p.read_text(), *targs) if p.exists() else None
            if new_src is None or new_src == p.read_text():
                return {"name": mut["name"], "status": "skipped", "why": f"transform {mut['transform']} found no site"}
            p.write_text(new_src)
            try:
                compile(new_src, str(p), "exec")
            except SyntaxError as e:
                return {"name": mut["name"], "status": "bad-mutant", "why": f"does not compile: {e}"}
        if "patch" in mut:
            import subprocess
            subprocess.run(["git", "init", "-q"], cwd=scratch, check=False, capture_output=True)
            r = subprocess.run(["git", "apply", "--whitespace=nowarn", mut["patch"]], cwd=scratch, capture_output=True, text=True)
            if r.returncode != 0:
                return {"name": mut["name"], "status": "skipped", "why": "patch does not apply to the current tree: " + r.stderr.strip()[:120]}
        edits = mut.get("edits") or ([(mut["file"], mut["old"], mut["new"])] if "old" in mut else [])
        for file, old, new in edits:
            p = scratch / file
            if not p.exists():
                return {"name": mut["name"], "status": "skipped", "why": f"{file} missing"}
            s = p.read_text()
            if s.count(old) != mut.get("count", 1):
                return {"name": mut["name"], "status": "skipped", "why": f"anchor text occurs {s.count(old)}x in {file}"}
            p.write_text(s.replace(old, new))
            if file.endswith(".py"):
                try:
                    compile(p.read_text(), str(p), "exec")
                except SyntaxError as e:
                    return {"name": mut["name"], "status": "bad-mutant", "why": f"does not compile: {e}"}
        try:
            with contextlib.redirect_stdout(io.StringIO()):
                code, ctx = run_property(prop, str(scratch), "quick", 0, write_evidence=False, quiet=True)
            keys = sorted({(f.rule, f.construct) for f in ctx.findings})
            return {"name": mut["name"], "status": "ran", "code": code, "keys": keys,
                    "msgs": [f"{f.rule} {f.construct}: {f.msg}"[:200] for f in ctx.findings][:6]}
        except AnalysisError as e:
            return {"name": mut["name"], "status": "analysis-error", "why": str(e)[:300]}
        except Exception as e:  # a crash of the checker on a mutant is a defect of the checker
            import traceback
            return {"name": mut["name"], "status": "crash", "why": traceback.format_exc()[-400:]}
    finally:
        shutil.rmtree(scratch, ignore_errors=True)


def run_battery(ctx, mutants: list[dict], twins: list[dict] | None = None) -> dict:
    """returns coverage fragment for the evidence; 'selftest_broken' lists failures of the checker itself"""
    twins = list(twins or [])
    mutants = list(mutants)
    # the corpus of independently written changes (seeded/): defects of this property must be reported by one of its rules,
    # behaviour-preserving twins must leave it silent
    seeded = pathlib.Path(__file__).resolve().parent.parent / "seeded"
    if seeded.is_dir():
        for d in sorted(seeded.iterdir()):
            pf = d / "patch.diff"
            if not pf.exists():
                continue
            if d.name.startswith(f"{ctx.prop}-"):
                miss = None
                try:
                    miss = json.loads((d / "meta.json").read_text()).get("known_miss")
                except Exception:
                    pass
                mutants.append(dict(name=f"seeded:{d.name}", patch=str(pf), expect=[ctx.prop + "."], known_miss=miss))
            elif d.name.startswith(f"twin-{ctx.prop}-"):
                limit = None
                try:
                    limit = json.loads((d / "meta.json").read_text()).get("known_limit")
                except Exception:
                    pass
                twins.append(dict(name=f"seeded:{d.name}", patch=str(pf), known_limit=limit))
    base = {(f.rule, f.construct) for f in ctx.findings}
    jobs = [(ctx.prop, str(ctx.root), m) for m in mutants + twins]
    workers = min(16, max(1, len(jobs)), os.cpu_count() or 4)
    results = []
    if jobs:
        with cf.ProcessPoolExecutor(max_workers=workers) as ex:
            results = list(ex.map(_one, jobs))
    by = {r["name"]: r for r in results}
    fired, silent, skipped, broken, limits, misses = [], [], [], [], [], []
    for m in mutants:
        r = by[m["name"]]
        if r["status"] == "skipped":
            skipped.append(f"{m['name']}: {r['why']}")
            continue
        if r["status"] != "ran":
            broken.append(f"mutant {m['name']}: {r['status']} {r.get('why', '')}")
            continue
        new = [tuple(k) for k in r["keys"] if tuple(k) not in base]
        exp = m["expect"]
        exp = [exp] if isinstance(exp, str) else exp
        if any(k[0] == e or (e.endswith(".") and k[0].startswith(e)) for k in new for e in exp):
            fired.append({"mutant": m["name"], "reported": [f"{k[0]} {k[1]}" for k in new][:4]})
        elif m.get("known_miss"):
            misses.append({"mutant": m["name"], "why": m["known_miss"]})          # a documented miss (DESIGN.md): reported, not hidden
        else:
            broken.append(f"mutant {m['name']} (expects {exp}) not reported; new findings: {new[:3]}")
    for t in twins:
        r = by[t["name"]]
        if r["status"] == "skipped":
            skipped.append(f"{t['name']}: {r['why']}")
            continue
        if r["status"] != "ran":
            if t.get("known_limit"):
                limits.append({"twin": t["name"], "raised": [f"{r['status']} {r.get('why', '')}"[:160]], "why": t["known_limit"]})
            else:
                broken.append(f"twin {t['name']}: {r['status']} {r.get('why', '')}")
            continue
        new = [tuple(k) for k in r["keys"] if tuple(k) not in base]
        if new and t.get("known_limit"):
            limits.append({"twin": t["name"], "raised": [f"{k[0]} {k[1]}" for k in new][:3], "why": t["known_limit"]})
        elif new:
            broken.append(f"twin {t['name']} (behaviour-preserving) raised {new[:3]}: {r['msgs'][:2]}")
        else:
            silent.append(t["name"])
    # the mutation analysis the canonicaliser leans on for reorderings answers as expected on its synthetic package
    from .effects import selftest as effects_selftest
    broken += effects_selftest()
    return {
        "selftest_mutants_fired": len(fired), "selftest_mutants_total": len(mutants),
        "selftest_twins_silent": len(silent), "selftest_twins_total": len(twins),
        "selftest_skipped": skipped, "selftest_broken": broken,
        "selftest_known_limits": limits,
        "selftest_known_misses": misses,
        "selftest_samples": fired[:40],
    }
