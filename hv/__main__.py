"""CLI:  python3 -m hv <ID> [--tier quick|thorough] [--root /repo] [--replay file] [--no-evidence]

exit 0: every rule instance of the property holds (known findings are printed, not raised)
exit 1: a rule instance fails that known_findings.jsonl does not list (VIOLATION line per instance)
exit 2: ANALYSIS-ERROR (vanished anchor, construct outside the enumerated idioms, floor not met)
"""
from __future__ import annotations

import argparse
import importlib
import os
import sys
import time
import traceback

from .core import AnalysisError, Ctx, finish


def run_property(prop: str, root: str, tier: str, seed: int = 0, write_evidence: bool = True, quiet: bool = False):
    """returns (exit code, ctx)"""
    t0 = time.time()
    ctx = Ctx(prop, root, tier, seed)
    mod = importlib.import_module(f"hv.props.{prop.lower()}")
    mod.run(ctx)
    ctx.stats.update(ctx.program.stats() if ctx._program is not None else {})
    extra = None
    if tier == "thorough" and hasattr(mod, "thorough") and write_evidence:
        extra = mod.thorough(ctx)
    if quiet:
        import contextlib, io
        with contextlib.redirect_stdout(io.StringIO()):
            code = finish(ctx, t0, extra, write_evidence)
    else:
        code = finish(ctx, t0, extra, write_evidence)
    if extra and extra.get("selftest_broken"):
        raise AnalysisError("self-validation of the checker failed: " + "; ".join(extra["selftest_broken"][:5]))
    return code, ctx


def main(argv=None) -> int:
    ap = argparse.ArgumentParser(prog="check")
    ap.add_argument("prop")
    ap.add_argument("--tier", default=os.environ.get("VERIF_TIER", "quick"), choices=["quick", "thorough"])
    ap.add_argument("--root", default=os.environ.get("HV_ROOT", "/repo"))
    ap.add_argument("--replay", default=None)
    ap.add_argument("--no-evidence", action="store_true")
    a = ap.parse_args(argv)
    seed = int(os.environ.get("VERIF_SEED", "0") or 0)
    prop = a.prop.upper()
    try:
        if a.replay:
            import json
            r = json.load(open(a.replay))
            code, ctx = run_property(prop, r.get("root", a.root), a.tier, seed, write_evidence=False, quiet=True)
            hit = [f for f in ctx.findings if f.rule == r["rule"] and f.construct == r["construct"]]
            for f in hit:
                print(f"REPLAY {f.rule} {f.file}:{f.line} {f.construct}: {f.msg}")
                print(f"VIOLATION property={prop} replay={a.replay}")
            if not hit:
                print(f"REPLAY {r['rule']} {r['construct']}: instance holds now")
            return 1 if hit else 0
        code, _ = run_property(prop, a.root, a.tier, seed, write_evidence=not a.no_evidence)
        return code
    except AnalysisError as e:
        print(f"ANALYSIS-ERROR property={prop}: {e}")
        return 2
    except Exception:
        print(f"ANALYSIS-ERROR property={prop}: internal error\n" + traceback.format_exc())
        return 2


if __name__ == "__main__":
    sys.exit(main())
