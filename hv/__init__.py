"""hv: repository-specific static analysis for the hugr properties C01-C20 (see /verif/DESIGN.md)."""
