"""Engine B: statement-level control-flow graph over the statement kinds the package uses.

Nodes: ENTRY(0), EXIT(1, normal return), RAISE(2, exceptional exit); every other node carries an
``ast`` node: a simple statement, or the *test / iterator / subject / handler type / pattern*
expression of a compound statement.  Edges out of a test node are labelled "T"/"F".
Queries: dominators, reachability, bounded enumeration of acyclic paths.
"""
from __future__ import annotations

import ast
from typing import Callable, Iterator

ENTRY, EXIT, RAISE = 0, 1, 2


class CFG:
    def __init__(self, fn: ast.FunctionDef | list[ast.stmt], loop_body: bool = False):
        """loop_body=True: `fn` is the body of a loop; top-level continue/break leave through EXIT"""
        self.fn = fn
        self.loop_body = loop_body
        self.stmt: dict[int, ast.AST | None] = {ENTRY: None, EXIT: None, RAISE: None}
        self.kind: dict[int, str] = {ENTRY: "entry", EXIT: "exit", RAISE: "raise-exit"}
        self.succ: dict[int, list[int]] = {ENTRY: [], EXIT: [], RAISE: []}
        self.label: dict[tuple[int, int], str] = {}
        self._n = 3
        body = fn.body if isinstance(fn, (ast.FunctionDef, ast.AsyncFunctionDef)) else fn
        ends = self._seq(body, [(ENTRY, None)], None, [])
        self._link(ends, EXIT)

    # ---- construction -----------------------------------------------------------------
    def _new(self, s: ast.AST, kind: str) -> int:
        i = self._n
        self._n += 1
        self.stmt[i] = s
        self.kind[i] = kind
        self.succ[i] = []
        return i

    def _link(self, preds, n: int) -> None:
        for p, lab in preds:
            if n not in self.succ[p]:
                self.succ[p].append(n)
            if lab is not None:
                self.label[(p, n)] = lab

    def _seq(self, stmts, preds, loop, handlers):
        for s in stmts:
            if not preds:
                break
            preds = self._stmt(s, preds, loop, handlers)
        return preds

    def _stmt(self, s, preds, loop, handlers):
        if isinstance(s, ast.If):
            t = self._new(s.test, "test")
            self._link(preds, t)
            a = self._seq(s.body, [(t, "T")], loop, handlers)
            b = self._seq(s.orelse, [(t, "F")], loop, handlers) if s.orelse else [(t, "F")]
            return a + b
        if isinstance(s, (ast.For, ast.AsyncFor, ast.While)):
            h = self._new(s.iter if not isinstance(s, ast.While) else s.test, "loop")
            self.stmt[h] = s.iter if not isinstance(s, ast.While) else s.test
            self._link(preds, h)
            info = {"head": h, "breaks": []}
            end = self._seq(s.body, [(h, "T")], info, handlers)
            self._link(end, h)
            out = [(h, "F")]
            if isinstance(s, ast.While) and isinstance(s.test, ast.Constant) and s.test.value is True:
                out = []
            if s.orelse:
                out = self._seq(s.orelse, out, loop, handlers)
            return out + info["breaks"]
        if isinstance(s, ast.Try):
            first = self._n
            body_end = self._seq(s.body, preds, loop, handlers + [s])
            last = self._n
            outs = list(body_end)
            if s.orelse:
                outs = self._seq(s.orelse, outs, loop, handlers)
            for h in s.handlers:
                hn = self._new(h.type if h.type is not None else h, "handler")
                for i in range(first, last):
                    self._link([(i, "exc")], hn)
                self._link([(p, "exc") for p, _ in preds], hn)
                outs += self._seq(h.body, [(hn, None)], loop, handlers)
            if s.finalbody:
                outs = self._seq(s.finalbody, outs, loop, handlers)
            return outs
        if isinstance(s, (ast.With, ast.AsyncWith)):
            n = self._new(s, "with")
            self._link(preds, n)
            return self._seq(s.body, [(n, None)], loop, handlers)
        if isinstance(s, ast.Match):
            t = self._new(s.subject, "subject")
            self._link(preds, t)
            outs = []
            fall = True
            prev = [(t, None)]
            for c in s.cases:
                cn = self._new(c.pattern, "case")
                self._link(prev, cn)
                start = [(cn, "T")]
                if c.guard is not None:
                    g = self._new(c.guard, "test")
                    self._link(start, g)
                    start = [(g, "T")]
                    prev = [(cn, "F"), (g, "F")]
                else:
                    prev = [(cn, "F")]
                outs += self._seq(c.body, start, loop, handlers)
                if _irrefutable(c.pattern) and c.guard is None:
                    fall = False
                    prev = []
                    break
            if fall:
                outs += prev
            return outs
        if isinstance(s, (ast.FunctionDef, ast.AsyncFunctionDef, ast.ClassDef)):
            n = self._new(s, "def")
            self._link(preds, n)
            return [(n, None)]
        n = self._new(s, "stmt")
        self._link(preds, n)
        if isinstance(s, ast.Return):
            self._link([(n, None)], EXIT)
            return []
        if isinstance(s, ast.Raise):
            self._link([(n, None)], RAISE)
            return []
        if isinstance(s, ast.Assert):
            self._link([(n, "F")], RAISE)
        if isinstance(s, (ast.Break, ast.Continue)) and loop is None and self.loop_body:
            self._link([(n, None)], EXIT)
            return []
        if isinstance(s, ast.Break) and loop is not None:
            loop["breaks"].append((n, None))
            return []
        if isinstance(s, ast.Continue) and loop is not None:
            self._link([(n, None)], loop["head"])
            return []
        return [(n, None)]

    # ---- queries ----------------------------------------------------------------------
    def nodes(self) -> list[int]:
        return list(self.succ)

    def preds(self) -> dict[int, list[int]]:
        pred: dict[int, list[int]] = {n: [] for n in self.succ}
        for a, bs in self.succ.items():
            for b in bs:
                pred[b].append(a)
        return pred

    def dominators(self) -> dict[int, set[int]]:
        nodes = self.nodes()
        pred = self.preds()
        reach = self.reachable(ENTRY)
        dom = {n: set(nodes) for n in nodes}
        dom[ENTRY] = {ENTRY}
        changed = True
        while changed:
            changed = False
            for n in nodes:
                if n == ENTRY or n not in reach:
                    continue
                ps = [dom[p] for p in pred[n] if p in reach]
                new = ({n} | set.intersection(*ps)) if ps else {n}
                if new != dom[n]:
                    dom[n] = new
                    changed = True
        return dom

    def reachable(self, start: int, avoid: set[int] | frozenset[int] = frozenset(), avoid_edges=frozenset()) -> set[int]:
        seen: set[int] = set()
        todo = [start]
        while todo:
            n = todo.pop()
            if n in seen or (n in avoid and n != start):
                continue
            seen.add(n)
            for m in self.succ[n]:
                if (n, m) not in avoid_edges:
                    todo.append(m)
        return seen

    def where(self, pred: Callable[[ast.AST], bool]) -> list[int]:
        return [n for n, s in self.stmt.items() if s is not None and pred(s)]

    def paths(self, bound: int = 256, loop_unroll: int = 1) -> Iterator[list[tuple[int, str | None]]]:
        """Enumerate entry->exit/raise paths; each loop head is visited at most loop_unroll+1 times.
        Yields lists of (node, label of the edge taken out of it)."""
        count = 0
        stack: list[tuple[int, list[tuple[int, str | None]], dict[int, int]]] = [(ENTRY, [], {})]
        while stack:
            n, path, visits = stack.pop()
            if n in (EXIT, RAISE):
                count += 1
                if count > bound:
                    raise PathBound(f"more than {bound} paths")
                yield path + [(n, None)]
                continue
            v = visits.get(n, 0)
            if v > loop_unroll:
                continue
            visits = dict(visits)
            visits[n] = v + 1
            for m in reversed(self.succ[n]):
                if self.label.get((n, m)) == "exc":
                    continue
                stack.append((m, path + [(n, self.label.get((n, m)))], visits))


class PathBound(Exception):
    pass


def _irrefutable(p: ast.pattern) -> bool:
    if isinstance(p, ast.MatchAs) and p.pattern is None:
        return True
    if isinstance(p, ast.MatchOr):
        return any(_irrefutable(x) for x in p.patterns)
    return False
