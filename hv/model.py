"""Engine A: program model of the hugr Python package built from the AST only.

Modules, import/alias resolution, class table with resolved bases and MRO, dataclass /
pydantic field declarations, methods, properties.  Nothing is imported or executed.
"""
from __future__ import annotations

import ast
import pathlib
from typing import Iterator


class Field:
    def __init__(self, name: str, node: ast.AnnAssign, owner: "Class"):
        self.name = name
        self.node = node
        self.owner = owner
        self.annotation = ast.unparse(node.annotation)
        self.classvar = "ClassVar" in self.annotation
        self.default: ast.expr | None = None
        self.default_factory: ast.expr | None = None
        self.field_kwargs: dict[str, ast.expr] = {}
        self.has_default = node.value is not None
        v = node.value
        if isinstance(v, ast.Call) and ast.unparse(v.func) in ("field", "dataclasses.field", "Field", "pydantic.Field", "pd.Field"):
            self.field_kwargs = {k.arg: k.value for k in v.keywords if k.arg}
            self.default = self.field_kwargs.get("default")
            self.default_factory = self.field_kwargs.get("default_factory")
            if ast.unparse(v.func) in ("Field", "pydantic.Field", "pd.Field") and v.args:
                self.default = v.args[0]
            self.has_default = self.default is not None or self.default_factory is not None
            if isinstance(self.default, ast.Constant) and self.default.value is Ellipsis:
                self.has_default = False
                self.default = None
        elif v is not None:
            self.default = v
        if v is None and isinstance(node.annotation, ast.Subscript) and ast.unparse(node.annotation.value).split(".")[-1] == "Annotated" \
                and isinstance(node.annotation.slice, ast.Tuple):
            # x: Annotated[T, Field(default_factory=list)]: the default lives in the annotation's metadata
            for extra in node.annotation.slice.elts[1:]:
                if isinstance(extra, ast.Call) and ast.unparse(extra.func) in ("Field", "pydantic.Field", "pd.Field", "field", "dataclasses.field"):
                    kw = {k.arg: k.value for k in extra.keywords if k.arg}
                    if "default" in kw or "default_factory" in kw or extra.args:
                        self.field_kwargs = {**kw, **self.field_kwargs}
                        self.default = kw.get("default", extra.args[0] if extra.args else None)
                        self.default_factory = kw.get("default_factory")
                        self.has_default = (self.default is not None or self.default_factory is not None) and not (
                            isinstance(self.default, ast.Constant) and self.default.value is Ellipsis)

    def flag(self, name: str, default: bool = True) -> bool:
        v = self.field_kwargs.get(name)
        if isinstance(v, ast.Constant):
            return bool(v.value)
        return default

    @property
    def init(self) -> bool:
        return self.flag("init", True)


class Class:
    def __init__(self, module: "Module", node: ast.ClassDef, outer: "Class | None" = None):
        self.module = module
        self.node = node
        self.name = node.name
        self.qualname = f"{module.name}.{node.name}"
        self.methods: dict[str, ast.FunctionDef] = {}
        self.overloads: dict[str, list[ast.FunctionDef]] = {}
        self.fields: list[Field] = []
        self.class_assigns: dict[str, ast.expr] = {}
        self.decorators = [ast.unparse(d) for d in node.decorator_list]
        self.dataclass_kwargs: dict[str, object] = {}
        self.is_dataclass = False
        for d in node.decorator_list:
            f = d.func if isinstance(d, ast.Call) else d
            if ast.unparse(f) in ("dataclass", "dataclasses.dataclass"):
                self.is_dataclass = True
                if isinstance(d, ast.Call):
                    for k in d.keywords:
                        if isinstance(k.value, ast.Constant):
                            self.dataclass_kwargs[k.arg] = k.value.value
        for n in node.body:
            if isinstance(n, (ast.FunctionDef, ast.AsyncFunctionDef)):
                if any("overload" in ast.unparse(d) for d in n.decorator_list):
                    self.overloads.setdefault(n.name, []).append(n)
                    continue
                # property setters share the name; keep the getter
                if any(ast.unparse(d).endswith(".setter") for d in n.decorator_list):
                    self.methods[n.name + ".setter"] = n
                    continue
                self.methods[n.name] = n
            elif isinstance(n, ast.AnnAssign) and isinstance(n.target, ast.Name):
                self.fields.append(Field(n.target.id, n, self))
            elif isinstance(n, ast.Assign) and len(n.targets) == 1 and isinstance(n.targets[0], ast.Name):
                self.class_assigns[n.targets[0].id] = n.value
        self._bases: list[Class] | None = None
        self._mro: list[Class] | None = None

    # ---- hierarchy ------------------------------------------------------------
    @property
    def base_exprs(self) -> list[str]:
        return [ast.unparse(b) for b in self.node.bases]

    @property
    def bases(self) -> list["Class"]:
        if self._bases is None:
            out = []
            for b in self.node.bases:
                e = b
                while isinstance(e, ast.Subscript):   # Generic[...] / DfBase[ops.X]
                    e = e.value
                c = self.module.resolve(e)
                if isinstance(c, Class):
                    out.append(c)
            self._bases = out
        return self._bases

    @property
    def mro(self) -> list["Class"]:
        if self._mro is None:
            seqs = [list(b.mro) for b in self.bases] + [list(self.bases)]
            res: list[Class] = [self]
            seqs = [s for s in seqs if s]
            while seqs:
                for s in seqs:
                    cand = s[0]
                    if not any(cand in t[1:] for t in seqs):
                        break
                else:  # inconsistent: fall back to DFS order
                    cand = seqs[0][0]
                res.append(cand)
                seqs = [[x for x in s if x is not cand] for s in seqs]
                seqs = [s for s in seqs if s]
            self._mro = res
        return self._mro

    def is_subclass_of(self, qual_or_name: str) -> bool:
        return any(c.qualname == qual_or_name or c.name == qual_or_name for c in self.mro)

    def base_names(self) -> set[str]:
        """names of all bases incl. unresolved ones (BaseModel, Protocol, ...)"""
        out = set()
        for c in self.mro:
            for b in c.node.bases:
                e = b
                while isinstance(e, ast.Subscript):
                    e = e.value
                out.add(ast.unparse(e).split(".")[-1])
        return out

    def find_method(self, name: str) -> tuple["Class", ast.FunctionDef] | tuple[None, None]:
        for c in self.mro:
            if name in c.methods:
                return c, c.methods[name]
        return None, None

    def is_property(self, name: str) -> bool:
        c, m = self.find_method(name)
        return m is not None and any(
            ast.unparse(d) in ("property", "cached_property", "functools.cached_property") for d in m.decorator_list)

    def all_fields(self) -> list[Field]:
        """dataclass-style field order: bases first, redefinition keeps original position"""
        out: dict[str, Field] = {}
        for c in reversed(self.mro):
            if self.is_dataclass and not c.is_dataclass:
                continue        # (a dataclass collects the fields of its dataclass bases only: annotations of a plain mixin are not fields)
            for f in c.fields:
                if f.classvar:
                    continue
                out[f.name] = f
        return list(out.values())

    def find_field(self, name: str) -> Field | None:
        for c in self.mro:
            for f in c.fields:
                if f.name == name:
                    return f
        return None

    def init_params(self) -> list[str]:
        c, m = self.find_method("__init__")
        if m is not None:
            a = m.args
            return [x.arg for x in a.posonlyargs + a.args][1:] + [x.arg for x in a.kwonlyargs]
        return [f.name for f in self.all_fields() if f.init]

    def init_positional(self) -> list[str]:
        c, m = self.find_method("__init__")
        if m is not None:
            a = m.args
            return [x.arg for x in a.posonlyargs + a.args][1:]
        kw_only = bool(self.dataclass_kwargs.get("kw_only"))
        if kw_only:
            return []
        return [f.name for f in self.all_fields() if f.init and not f.flag("kw_only", False)]

    def __repr__(self) -> str:
        return f"<Class {self.qualname}>"


class Module:
    def __init__(self, program: "Program", name: str, path: pathlib.Path):
        self.program = program
        self.name = name
        self.path = path
        self.src = path.read_text()
        self.tree = ast.parse(self.src, filename=str(path))
        # `def f(a, b, /, c)` read as `def f(a, b, c)`: the marker only forbids call spellings (a=.., b=..) the program then does not
        # use; every call that is valid with the marker binds the same without it.  Rules and the inliner see ONE list of positional
        # parameters.
        for n in ast.walk(self.tree):
            if isinstance(n, (ast.FunctionDef, ast.AsyncFunctionDef, ast.Lambda)) and n.args.posonlyargs:
                n.args.args = n.args.posonlyargs + n.args.args
                n.args.posonlyargs = []
            # likewise `def f(a, *, k)` read as `def f(a, k)` (a bare `*`, and the defaults still form a suffix): every call that is valid
            # with the marker names k by keyword, and binds the same without it
            if isinstance(n, (ast.FunctionDef, ast.AsyncFunctionDef)) and n.args.kwonlyargs and n.args.vararg is None:
                a = n.args
                has = [False] * (len(a.args) - len(a.defaults)) + [True] * len(a.defaults) + [d is not None for d in a.kw_defaults]
                if has == sorted(has):
                    a.args = a.args + a.kwonlyargs
                    a.defaults = list(a.defaults) + [d for d in a.kw_defaults if d is not None]
                    a.kwonlyargs, a.kw_defaults = [], []
        self.is_pkg = path.name == "__init__.py"
        self.imports: dict[str, str] = {}     # local name -> qualified dotted name
        self.classes: dict[str, Class] = {}
        self.functions: dict[str, ast.FunctionDef] = {}
        self.assigns: dict[str, ast.expr] = {}
        self._scan(self.tree.body)

    def _pkg(self) -> str:
        return self.name if self.is_pkg else self.name.rsplit(".", 1)[0]

    def _scan(self, body: list[ast.stmt]) -> None:
        for n in body:
            if isinstance(n, ast.Import):
                for a in n.names:
                    if a.asname:
                        self.imports[a.asname] = a.name
                    else:
                        self.imports[a.name.split(".")[0]] = a.name.split(".")[0]
            elif isinstance(n, ast.ImportFrom):
                base = n.module or ""
                if n.level:
                    pkg = self._pkg().split(".")
                    pkg = pkg[: len(pkg) - (n.level - 1)]
                    base = ".".join(pkg + ([n.module] if n.module else []))
                for a in n.names:
                    self.imports[a.asname or a.name] = f"{base}.{a.name}"
            elif isinstance(n, ast.ClassDef):
                self.classes[n.name] = Class(self, n)
            elif isinstance(n, (ast.FunctionDef, ast.AsyncFunctionDef)):
                if not any("overload" in ast.unparse(d) for d in n.decorator_list):
                    self.functions[n.name] = n
            elif isinstance(n, ast.Assign) and len(n.targets) == 1 and isinstance(n.targets[0], ast.Name):
                self.assigns[n.targets[0].id] = n.value
            elif isinstance(n, ast.AnnAssign) and isinstance(n.target, ast.Name) and n.value is not None:
                self.assigns[n.target.id] = n.value
            elif isinstance(n, ast.If):   # TYPE_CHECKING and friends
                self._scan(n.body)
                self._scan(n.orelse)
            elif isinstance(n, ast.Try):
                self._scan(n.body)

    def resolve(self, e: ast.expr | str):
        """Resolve a Name / dotted Attribute expression to a Class, function node, Module or None."""
        if isinstance(e, str):
            try:
                e = ast.parse(e, mode="eval").body
            except SyntaxError:
                return None
        parts: list[str] = []
        while isinstance(e, ast.Attribute):
            parts.append(e.attr)
            e = e.value
        if not isinstance(e, ast.Name):
            return None
        parts.append(e.id)
        parts.reverse()
        head, rest = parts[0], parts[1:]
        if head in self.classes and not rest:
            return self.classes[head]
        if head in self.functions and not rest:
            return self.functions[head]
        if head in self.imports:
            return self.program.lookup(self.imports[head], rest)
        if head in self.classes and rest:
            return None
        return None

    def rel(self) -> str:
        return str(self.path)


class Program:
    def __init__(self, pkg: pathlib.Path, top: str = "hugr"):
        self.pkg = pathlib.Path(pkg)
        self.top = top
        self.modules: dict[str, Module] = {}
        if not self.pkg.is_dir():
            from .core import AnalysisError
            raise AnalysisError(f"package directory {self.pkg} not found")
        for p in sorted(self.pkg.rglob("*.py")):
            rel = p.relative_to(self.pkg).with_suffix("")
            parts = [top] + [x for x in rel.parts]
            if parts[-1] == "__init__":
                parts = parts[:-1]
            name = ".".join(parts)
            self.modules[name] = Module(self, name, p)

    def lookup(self, dotted: str, rest: list[str] | None = None):
        """dotted: qualified name (module or module.member); rest: further attribute path"""
        parts = dotted.split(".") + list(rest or [])
        # longest module prefix
        for i in range(len(parts), 0, -1):
            mn = ".".join(parts[:i])
            if mn in self.modules:
                m = self.modules[mn]
                tail = parts[i:]
                if not tail:
                    return m
                obj = None
                if tail[0] in m.classes:
                    obj = m.classes[tail[0]]
                elif tail[0] in m.functions:
                    obj = m.functions[tail[0]]
                elif tail[0] in m.imports:
                    obj = self.lookup(m.imports[tail[0]], tail[1:])
                    return obj
                if obj is not None and len(tail) == 1:
                    return obj
                return None
        return None

    def module(self, name: str) -> Module:
        if name not in self.modules:
            from .core import AnalysisError
            raise AnalysisError(f"anchor vanished: module {name}")
        return self.modules[name]

    def cls(self, qualname: str) -> Class:
        mod, _, name = qualname.rpartition(".")
        m = self.module(mod)
        if name not in m.classes:
            from .core import AnalysisError
            raise AnalysisError(f"anchor vanished: class {qualname}")
        return m.classes[name]

    def method(self, qualname: str, own: bool = False) -> tuple[Class, ast.FunctionDef]:
        """'hugr.ops.Call.num_out' -> (defining class, node) along the MRO"""
        cq, _, mname = qualname.rpartition(".")
        c = self.cls(cq)
        if own:
            if mname not in c.methods:
                from .core import AnalysisError
                raise AnalysisError(f"anchor vanished: method {qualname}")
            return c, c.methods[mname]
        k, m = c.find_method(mname)
        if m is None:
            from .core import AnalysisError
            raise AnalysisError(f"anchor vanished: method {qualname}")
        return k, m

    def function(self, qualname: str) -> ast.FunctionDef:
        mod, _, name = qualname.rpartition(".")
        m = self.module(mod)
        if name not in m.functions:
            from .core import AnalysisError
            raise AnalysisError(f"anchor vanished: function {qualname}")
        return m.functions[name]

    def all_classes(self) -> Iterator[Class]:
        for m in self.modules.values():
            yield from m.classes.values()

    def subclasses(self, c: Class) -> list[Class]:
        return [k for k in self.all_classes() if k is not c and c in k.mro]

    def stats(self) -> dict[str, int]:
        nf = 0
        for m in self.modules.values():
            nf += sum(isinstance(n, (ast.FunctionDef, ast.AsyncFunctionDef)) for n in ast.walk(m.tree))
        return {"modules_parsed": len(self.modules),
                "classes": sum(len(m.classes) for m in self.modules.values()),
                "functions": nf}


# ---- small AST helpers used by many rules ---------------------------------------
def real_body(fn: ast.FunctionDef) -> list[ast.stmt]:
    """body without the docstring"""
    b = fn.body
    if b and isinstance(b[0], ast.Expr) and isinstance(b[0].value, ast.Constant) and isinstance(b[0].value.value, str):
        return b[1:]
    return b


def is_stub(fn: ast.FunctionDef) -> bool:
    b = real_body(fn)
    if not b:
        return True
    return all(isinstance(s, ast.Pass) or (isinstance(s, ast.Expr) and isinstance(s.value, ast.Constant)) for s in b)


def calls_in(node: ast.AST, name: str | None = None) -> list[ast.Call]:
    out = []
    for c in ast.walk(node):
        if isinstance(c, ast.Call):
            f = c.func
            n = f.attr if isinstance(f, ast.Attribute) else (f.id if isinstance(f, ast.Name) else None)
            if name is None or n == name:
                out.append(c)
    return out


def call_name(c: ast.Call) -> str | None:
    f = c.func
    return f.attr if isinstance(f, ast.Attribute) else (f.id if isinstance(f, ast.Name) else None)


def kwarg(c: ast.Call, name: str, pos: int | None = None) -> ast.expr | None:
    for k in c.keywords:
        if k.arg == name:
            return k.value
    if pos is not None and pos < len(c.args) and not any(isinstance(a, ast.Starred) for a in c.args[: pos + 1]):
        return c.args[pos]
    return None


def walk_no_nested(node: ast.AST) -> Iterator[ast.AST]:
    """ast.walk that does not descend into nested function / class / lambda definitions"""
    todo = list(ast.iter_child_nodes(node))
    while todo:
        n = todo.pop()
        yield n
        if isinstance(n, (ast.FunctionDef, ast.AsyncFunctionDef, ast.ClassDef, ast.Lambda)):
            continue
        todo.extend(ast.iter_child_nodes(n))


def u(e: ast.AST | None) -> str:
    return "" if e is None else " ".join(ast.unparse(e).split())
