"""Structural templates: rename-insensitive matching of statements / expressions.

A template is Python source in which
  * a Name starting with ``L_`` is a *local metavariable*: it matches any Name (or, in store position, any simple
    target name) and must bind consistently within one match;
  * a Name starting with ``E_`` is an *expression metavariable*: it matches any expression and must bind consistently
    (compared by normalised unparse);
  * ``ANY_`` matches any expression without binding.
Everything else must agree node for node (field names, attribute names, constants, call shapes; keyword order is
ignored).  Because matching is on the AST, formatting, quotes, parentheses and comments never matter, and because
locals are metavariables a behaviour-preserving rename of a local variable does not matter either.
"""
from __future__ import annotations

import ast
from typing import Iterator

from .model import u


def T(src: str) -> ast.AST:
    """parse a template: an expression if possible, else a single statement"""
    src = src.strip()
    try:
        return ast.parse(src, mode="eval").body
    except SyntaxError:
        mod = ast.parse(src)
        if len(mod.body) != 1:
            raise ValueError("template must be one expression or one statement")
        return mod.body[0]


def _is_meta(n, prefix) -> bool:
    return isinstance(n, ast.Name) and n.id.startswith(prefix)


def tmatch(node, tmpl, env: dict | None = None) -> dict | None:
    """returns the binding environment if node matches tmpl (extending env), else None"""
    env = dict(env or {})
    return env if _m(node, tmpl, env) else None


def _m(node, tmpl, env) -> bool:
    if isinstance(node, ast.Expr) and isinstance(tmpl, ast.expr):
        return _m(node.value, tmpl, env)        # an expression statement matches an expression template
    if isinstance(tmpl, ast.Name):
        if tmpl.id == "ANY_":
            return isinstance(node, ast.AST)
        if tmpl.id.startswith("E_"):
            if not isinstance(node, ast.expr):
                return False
            s = u(node)
            if tmpl.id in env:
                return env[tmpl.id] == s
            env[tmpl.id] = s
            return True
        if tmpl.id.startswith("L_"):
            if not isinstance(node, ast.Name):
                return False
            if tmpl.id in env:
                return env[tmpl.id] == node.id
            if node.id in [v for k, v in env.items() if k.startswith("L_")]:
                return False          # two different metavariables do not share one local
            env[tmpl.id] = node.id
            return True
    if isinstance(tmpl, ast.arg) and tmpl.arg.startswith("L_") and isinstance(node, ast.arg):
        if tmpl.arg in env:
            return env[tmpl.arg] == node.arg
        env[tmpl.arg] = node.arg
        return True
    if type(node) is not type(tmpl):
        return False
    if isinstance(tmpl, ast.Constant):
        return type(node.value) is type(tmpl.value) and node.value == tmpl.value
    if isinstance(tmpl, ast.Call):
        if not _m(node.func, tmpl.func, env) or len(node.args) != len(tmpl.args) or len(node.keywords) != len(tmpl.keywords):
            return False
        for a, b in zip(node.args, tmpl.args):
            if not _m(a, b, env):
                return False
        nk = {k.arg: k.value for k in node.keywords}
        for k in tmpl.keywords:
            if k.arg not in nk or not _m(nk[k.arg], k.value, env):
                return False
        return True
    for field, tv in ast.iter_fields(tmpl):
        if field in ("ctx", "lineno", "col_offset", "end_lineno", "end_col_offset", "type_comment", "kind"):
            continue
        nv = getattr(node, field, None)
        if isinstance(tv, list):
            if not isinstance(nv, list) or len(nv) != len(tv):
                return False
            for a, b in zip(nv, tv):
                if isinstance(b, ast.AST):
                    if not _m(a, b, env):
                        return False
                elif a != b:
                    return False
        elif isinstance(tv, ast.AST):
            if not isinstance(nv, ast.AST) or not _m(nv, tv, env):
                return False
        else:
            if isinstance(tv, str) and field in ("id", "arg", "name", "attr") and tv.startswith("L_"):
                if tv in env:
                    if env[tv] != nv:
                        return False
                else:
                    env[tv] = nv
                continue
            if nv != tv:
                return False
    return True


def tfind(root, tmpl, env: dict | None = None) -> list[tuple[ast.AST, dict]]:
    """all sub-nodes of root matching the template, with their bindings"""
    if isinstance(tmpl, str):
        tmpl = T(tmpl)
    out = []
    for n in ast.walk(root) if isinstance(root, ast.AST) else [x for r in root for x in ast.walk(r)]:
        if type(n) is type(tmpl) or isinstance(tmpl, ast.Name):
            e = tmatch(n, tmpl, env)
            if e is not None:
                out.append((n, e))
    return out


def thas(root, tmpl, env: dict | None = None) -> bool:
    return bool(tfind(root, tmpl, env))


def tseq(stmts: list[ast.stmt], templates: list[str]) -> dict | None:
    """the statement list matches the templates one for one (same length), with one consistent binding"""
    if len(stmts) != len(templates):
        return None
    env: dict = {}
    for s, t in zip(stmts, templates):
        e = tmatch(s, T(t), env)
        if e is None:
            return None
        env = e
    return env


def tsubseq(stmts: list[ast.stmt], templates: list[str]) -> dict | None:
    """the templates match a subsequence of the statements, in order, with one consistent binding"""
    def rec(i, j, env):
        if j == len(templates):
            return env
        for k in range(i, len(stmts)):
            e = tmatch(stmts[k], T(templates[j]), env)
            if e is not None:
                r = rec(k + 1, j + 1, e)
                if r is not None:
                    return r
        return None
    return rec(0, 0, {})


def tall(root, templates: list[str], env: dict | None = None) -> dict | None:
    """every template matches some sub-node of root, under ONE consistent binding (backtracking); order free"""
    ts = [T(t) if isinstance(t, str) else t for t in templates]

    def rec(i, e):
        if i == len(ts):
            return e
        for _, e2 in tfind(root, ts[i], e):
            r = rec(i + 1, e2)
            if r is not None:
                return r
        return None
    return rec(0, dict(env or {}))


def tfirst_missing(root, templates: list[str], env: dict | None = None) -> str | None:
    """for diagnostics: the first template that cannot be matched given the bindings of the earlier ones"""
    e = dict(env or {})
    for t in templates:
        r = tall(root, [t], e)
        if r is None:
            return t
        e = r
    return None
