#!/bin/sh
# validate MANIFEST.json and every evidence file against the schemas (developer aid)
python3-vt - <<'PYEOF'
import json, jsonschema, pathlib
m = json.load(open('/verif/MANIFEST.json'))
jsonschema.validate(m, json.load(open('/root/.vp/MANIFEST.schema.json')))
es = json.load(open('/root/.vp/EVIDENCE.schema.json'))
for c in m['checks']:
    p = pathlib.Path(c['evidence_file'])
    if p.exists():
        jsonschema.validate(json.load(open(p)), es)
    else:
        print("missing evidence", p)
print("manifest + evidence valid:", len(m['checks']), "checks")
PYEOF
