"""Spike: normal forms of signature-like methods of hugr.ops classes (engine C reuse)."""
import ast, sys, runpy, types, importlib.util
spec = importlib.util.spec_from_file_location("cs", "/verif/spikes/codec_spike.py")
# reuse the evaluator without running its driver: load source, cut at the driver marker
src = open("/verif/spikes/codec_spike.py").read().split("# ---- drive: ops codec")[0]
ns = {"__name__": "cs"}
sys.argv = ["x"] + sys.argv[1:]
exec(compile(src, "codec_spike_lib", "exec"), ns)
CLASSES, mro, find_method, eval_method, show, Opaque, SELF = (ns[k] for k in ("CLASSES","mro","find_method","eval_method","show","Opaque","SELF"))

METHODS = ["outer_signature", "inner_signature", "num_out", "nth_inputs", "nth_outputs", "cached_signature", "type_args", "_inputs"]
for (mod, name), c in sorted(CLASSES.items()):
    if mod != "ops": continue
    for mname in METHODS:
        if mname not in c.methods: continue
        m = c.methods[mname]
        if not ns["real_body"](m): continue
        SELF.clear(); self_t = ("field", ("self",)); SELF.update(term=self_t, cls=c)
        args = {a.arg: ("var", a.arg) for a in m.args.args[1:]}
        try:
            t = eval_method(c, m, self_t, args)
            print(f"{name}.{mname}: {show(t)}")
        except Opaque as e:
            print(f"{name}.{mname}: OPAQUE {e}")
