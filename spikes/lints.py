import ast, sys, pathlib
root = pathlib.Path('/repo/hugr-py/src/hugr')
def funcs(tree):
    for n in ast.walk(tree):
        if isinstance(n,(ast.FunctionDef,ast.AsyncFunctionDef)): yield n
for p in sorted(root.rglob('*.py')):
    tree = ast.parse(p.read_text())
    for f in funcs(tree):
        # skip stubs
        body=[s for s in f.body if not (isinstance(s,ast.Expr) and isinstance(s.value,ast.Constant))]
        if not body or all(isinstance(s,(ast.Pass,)) or (isinstance(s,ast.Expr) and isinstance(s.value,ast.Constant)) for s in body): continue
        if len(body)==1 and isinstance(body[0],ast.Raise): continue
        names_load=set(); stores={}
        for n in ast.walk(f):
            if isinstance(n,ast.Name):
                if isinstance(n.ctx,ast.Load): names_load.add(n.id)
                else: stores.setdefault(n.id,[]).append(n.lineno)
        # nested function param names count too
        params=[a.arg for a in f.args.args+f.args.kwonlyargs+f.args.posonlyargs]
        if f.args.vararg: params.append(f.args.vararg.arg)
        if f.args.kwarg: params.append(f.args.kwarg.arg)
        decos=[ast.unparse(d) for d in f.decorator_list]
        if any('overload' in d or 'abstractmethod' in d for d in decos): continue
        for a in params:
            if a in('self','cls') or a.startswith('_'): continue
            if a not in names_load:
                print(f"UNUSED-PARAM {p.relative_to(root)}:{f.lineno} {f.name}({a})")
        for v,lines in stores.items():
            if v not in names_load and not v.startswith('_') and v not in params:
                print(f"DEAD-STORE {p.relative_to(root)}:{lines} {f.name}: {v}")
        # generator reuse
        gens={}
        for s in ast.walk(f):
            if isinstance(s,ast.Assign) and isinstance(s.value,ast.GeneratorExp) and len(s.targets)==1 and isinstance(s.targets[0],ast.Name):
                gens[s.targets[0].id]=s.lineno
        for g,l in gens.items():
            uses=[n.lineno for n in ast.walk(f) if isinstance(n,ast.Name) and n.id==g and isinstance(n.ctx,ast.Load)]
            if len(uses)>1: print(f"GEN-REUSE {p.relative_to(root)}:{l} {f.name}: {g} used at {uses}")
