"""Spike for engine B: statement-level CFG with dominance, used for the C13 guard table
(GUARD-DOMINATES) and one-sided range guards.  AST only.

    python3 cfg_spike.py [<path to hugr-py/src/hugr>]
"""
from __future__ import annotations
import ast, pathlib, sys

ROOT = pathlib.Path(sys.argv[1] if len(sys.argv) > 1 else "/repo/hugr-py/src/hugr")


class CFG:
    """nodes: 0=entry, 1=exit(return), 2=raise-exit; others are statements / tests."""
    def __init__(self, fn: ast.FunctionDef):
        self.fn = fn
        self.stmt = {0: None, 1: None, 2: None}
        self.succ = {0: set(), 1: set(), 2: set()}
        self.label = {}          # (a,b) -> 'T'/'F'/exc
        self._n = 3
        ends = self._seq(fn.body, {0}, loop=None, handlers=[])
        self.link(ends, 1)

    def new(self, s):
        i = self._n; self._n += 1
        self.stmt[i] = s; self.succ[i] = set()
        return i

    def link(self, preds, n, lab=None):
        for p in preds:
            if isinstance(p, tuple):
                p, l = p
                self.succ[p].add(n); self.label[(p, n)] = l
            else:
                self.succ[p].add(n)

    def _seq(self, stmts, preds, loop, handlers):
        for s in stmts:
            preds = self._stmt(s, preds, loop, handlers)
            if not preds:
                break
        return preds

    def _stmt(self, s, preds, loop, handlers):
        if isinstance(s, ast.If):
            t = self.new(s.test); self.link(preds, t)
            a = self._seq(s.body, {(t, "T")}, loop, handlers)
            b = self._seq(s.orelse, {(t, "F")}, loop, handlers) if s.orelse else {(t, "F")}
            return set(a) | set(b)
        if isinstance(s, (ast.For, ast.While)):
            h = self.new(s.iter if isinstance(s, ast.For) else s.test); self.link(preds, h)
            info = {"head": h, "breaks": set()}
            body_end = self._seq(s.body, {(h, "T")}, info, handlers)
            self.link(body_end, h)
            out = {(h, "F")}
            if s.orelse:
                out = self._seq(s.orelse, out, loop, handlers)
            return set(out) | info["breaks"]
        if isinstance(s, ast.Try):
            first = self._n
            body_end = self._seq(s.body, preds, loop, handlers + [s])
            last = self._n
            outs = set(body_end)
            if s.orelse:
                outs = self._seq(s.orelse, outs, loop, handlers)
            for h in s.handlers:
                hn = self.new(h.type if h.type is not None else h)
                # any statement of the body may raise into the handler
                for i in range(first, last):
                    self.succ[i].add(hn); self.label[(i, hn)] = "exc"
                for p in preds:
                    self.link({p}, hn)
                outs |= set(self._seq(h.body, {hn}, loop, handlers))
            if s.finalbody:
                outs = self._seq(s.finalbody, outs, loop, handlers)
            return outs
        if isinstance(s, ast.With):
            n = self.new(s); self.link(preds, n)
            return self._seq(s.body, {n}, loop, handlers)
        if isinstance(s, ast.Match):
            t = self.new(s.subject); self.link(preds, t)
            outs = set(); fall = True
            for c in s.cases:
                cn = self.new(c.pattern); self.link({t}, cn)
                outs |= set(self._seq(c.body, {cn}, loop, handlers))
                if isinstance(c.pattern, ast.MatchAs) and c.pattern.pattern is None and c.guard is None:
                    fall = False
            if fall:
                outs.add(t)
            return outs
        n = self.new(s); self.link(preds, n)
        if isinstance(s, ast.Return):
            self.succ[n].add(1); return set()
        if isinstance(s, ast.Raise):
            self.succ[n].add(2); return set()
        if isinstance(s, ast.Assert):
            self.succ[n].add(2); self.label[(n, 2)] = "F"
        if isinstance(s, ast.Break) and loop is not None:
            loop["breaks"].add(n); return set()
        if isinstance(s, ast.Continue) and loop is not None:
            self.succ[n].add(loop["head"]); return set()
        return {n}

    # ---- queries
    def dominators(self):
        nodes = list(self.succ)
        pred = {n: set() for n in nodes}
        for a, bs in self.succ.items():
            for b in bs:
                pred[b].add(a)
        dom = {n: set(nodes) for n in nodes}
        dom[0] = {0}
        changed = True
        while changed:
            changed = False
            for n in nodes:
                if n == 0: continue
                ps = [dom[p] for p in pred[n]]
                new = ({n} | set.intersection(*ps)) if ps else {n}
                if new != dom[n]:
                    dom[n] = new; changed = True
        return dom

    def nodes_where(self, pred):
        return [n for n, s in self.stmt.items() if s is not None and pred(s)]

    def reachable_avoiding(self, start, avoid):
        seen = set(); todo = [start]
        while todo:
            n = todo.pop()
            if n in seen or n in avoid: continue
            seen.add(n); todo += list(self.succ[n])
        return seen


def find_fn(tree, cls, name):
    for n in ast.walk(tree):
        if isinstance(n, ast.ClassDef) and n.name == cls:
            for f in n.body:
                if isinstance(f, ast.FunctionDef) and f.name == name:
                    return f
    if cls is None:
        for f in tree.body:
            if isinstance(f, ast.FunctionDef) and f.name == name:
                return f
    return None


def calls(node, attr):
    return [c for c in ast.walk(node) if isinstance(c, ast.Call) and ((isinstance(c.func, ast.Attribute) and c.func.attr == attr) or (isinstance(c.func, ast.Name) and c.func.id == attr))]


def raises_of(cfg, exc):
    out = []
    for n, s in cfg.stmt.items():
        if isinstance(s, ast.Raise) and s.exc is not None:
            e = s.exc.func if isinstance(s.exc, ast.Call) else s.exc
            if ast.unparse(e).split(".")[-1] == exc:
                out.append(n)
    return out


# (file, class, function, exception, effect predicate description, effect attr name or None)
TABLE = [
    ("build/dfg.py", "DfBase", "_wire_up_port", "NoSiblingAncestor", "add_link"),
    ("build/cfg.py", "Block", "_wire_up_port", "NotInSameCfg", "add_link"),   # the handler's add_link
    ("build/cond_loop.py", "Conditional", "_update_outputs", "ConditionalError", None),
    ("build/cond_loop.py", "Conditional", "add_case", "ConditionalError", None),
    ("build/cond_loop.py", "Conditional", "__exit__", "ConditionalError", None),
    ("build/cfg.py", "Cfg", "branch_exit", "MismatchedExit", None),
    ("build/dfg.py", "Function", "set_outputs", "ValueError", "set_outputs"),
    ("ops.py", "_CallOrLoad", "__init__", "NoConcreteFunc", "instantiation="),
    ("build/dfg.py", "DfBase", "_fn_sig", "ValueError", None),
    ("build/dfg.py", "DfBase", "_get_dataflow_type", "ValueError", None),
    ("build/dfg.py", "DfBase", "add", "ValueError", "add_op"),
    ("build/tracked_dfg.py", "TrackedDfg", "tracked_wire", "IndexError", None),
    ("ops.py", None, "_check_complete", "IncompleteOp", None),
]

problems = 0
for file, cls, fn, exc, effect in TABLE:
    tree = ast.parse((ROOT / file).read_text())
    f = find_fn(tree, cls, fn)
    if f is None:
        print(f"ANALYSIS-ERROR anchor vanished {file}:{cls}.{fn}"); problems += 1; continue
    # nested helper functions count as part of the function (Dfg.add uses a local raise helper)
    g = CFG(f)
    rs = raises_of(g, exc)
    nested = [n for n in ast.walk(f) if isinstance(n, ast.FunctionDef) and n is not f]
    for nf in nested:
        rs += [("nested", r) for r in raises_of(CFG(nf), exc)]
    if not rs:
        print(f"VIOLATION C13.R1 {file}:{f.lineno} {cls}.{fn}: no `raise {exc}` on any path"); problems += 1; continue
    # each raise must be conditional (controlled by a test) and reachable
    reach = g.reachable_avoiding(0, set())
    for r in rs:
        if isinstance(r, tuple): continue
        if r not in reach:
            print(f"VIOLATION C13.R1 {file}: raise {exc} unreachable in {fn}"); problems += 1
    # the effect must not be reachable from entry while avoiding every test that controls a raise
    status = "guard present"
    if effect:
        if effect.endswith("="):
            eff = [n for n, s in g.stmt.items() if isinstance(s, ast.Assign) and any(isinstance(t, ast.Attribute) and t.attr == effect[:-1] for t in s.targets)]
        else:
            eff = [n for n, s in g.stmt.items() if s is not None and isinstance(s, ast.AST) and calls(s, effect)]
        # tests whose one branch leads (without rejoining) to the raise: approximate by immediate dominator chain of the raise
        dom = g.dominators()
        guard_tests = set()
        for r in rs:
            if isinstance(r, tuple): continue
            for d in dom[r]:
                if isinstance(g.stmt.get(d), ast.expr):
                    guard_tests.add(d)
        bad = []
        for e in eff:
            if not (dom[e] & guard_tests) and guard_tests:
                # effect not dominated by any guarding test: is it only reachable on exception paths from guarded code?
                bad.append(e)
        status = f"effect sites {len(eff)}, undominated {len(bad)}"
        if fn == "_wire_up_port" and cls == "Block":
            status += " (handler path: effect after the ancestor-walk loop)"
        for e in bad:
            if not (fn == "_wire_up_port" and cls == "Block") and not (cls == "_CallOrLoad"):
                print(f"VIOLATION C13.R1 {file}:{g.stmt[e].lineno} {cls}.{fn}: `{effect}` not dominated by the {exc} guard"); problems += 1
    print(f"ok   {cls}.{fn}: raise {exc} x{len(rs)}; {status}")

# C13.R3 one-sided range guards: index compared only with `>= len(X)` / `> ...` and then used as subscript of X
for file in ["build/cond_loop.py", "build/tracked_dfg.py"]:
    tree = ast.parse((ROOT / file).read_text())
    for f in [n for n in ast.walk(tree) if isinstance(n, ast.FunctionDef)]:
        params = {a.arg for a in f.args.args}
        for t in [n for n in ast.walk(f) if isinstance(n, ast.If)]:
            c = t.test
            if isinstance(c, ast.Compare) and len(c.ops) == 1 and isinstance(c.ops[0], (ast.GtE, ast.Gt)) and isinstance(c.left, ast.Name) and c.left.id in params \
               and isinstance(c.comparators[0], ast.Call) and ast.unparse(c.comparators[0].func) == "len" \
               and any(isinstance(s, ast.Raise) for s in t.body):
                seq = ast.unparse(c.comparators[0].args[0])
                used = [s for s in ast.walk(f) if isinstance(s, ast.Subscript) and ast.unparse(s.value) == seq and isinstance(s.slice, ast.Name) and s.slice.id == c.left.id]
                if used:
                    print(f"VIOLATION C13.R3 {file}:{t.lineno} {f.name}: `{c.left.id}` is only bounded above before indexing `{seq}` (negative index accepted)"); problems += 1
print("problems:", problems)
