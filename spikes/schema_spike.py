"""Feasibility spike for engine E: derive pydantic JSON schema from AST only."""
import ast, json, pathlib, inspect, sys, re
SRC = pathlib.Path('/repo/hugr-py/src/hugr/_serialization')
MODS = ['tys','ops','serial_hugr','extension','testing_hugr']
trees = {m: ast.parse((SRC/f'{m}.py').read_text()) for m in MODS}

class Model:
    def __init__(s, mod, node): s.mod=mod; s.node=node; s.name=node.name; s.bases=[ast.unparse(b) for b in node.bases]
classes={}     # name -> Model  (names are unique across these modules except FunctionType/.. only in tys)
aliases={}     # module-level type aliases: name -> ast expr
consts={}      # module-level Name = Field(...) etc
for m,t in trees.items():
    for n in t.body:
        if isinstance(n, ast.ClassDef): classes[n.name]=Model(m,n)
        elif isinstance(n, ast.Assign) and len(n.targets)==1 and isinstance(n.targets[0], ast.Name):
            aliases[n.targets[0].id]=n.value
# external alias
aliases['NodeIdx']=ast.parse('int').body[0].value; aliases['PortOffset']=ast.parse('int').body[0].value

def base_chain(c):
    out=[]
    for b in c.bases:
        b=b.split('.')[-1]
        if b in classes: out+= [classes[b]]+base_chain(classes[b])
    return out
def is_model(c):
    names=[c.name]+[b.name for b in base_chain(c)]
    return any(n in ('ConfiguredBaseModel',) for n in names) or any(x in ('BaseModel','RootModel','pd.RootModel','ConfiguredBaseModel') for x in c.bases) or any(('RootModel' in bb) for b in [c]+base_chain(c) for bb in b.bases)
def is_root(c): return any('RootModel' in bb for b in [c]+base_chain(c) for bb in b.bases)
def is_enum(c): return 'Enum' in c.bases
def docstring(c):
    d=ast.get_docstring(c.node, clean=True)
    return d
def title_of(name): return name.replace('_',' ').title()

def const_eval(e):
    return ast.literal_eval(e)

def field_info(e):
    """returns dict of Field(...) kwargs (ast) if e is a Field call (possibly via alias)"""
    if isinstance(e, ast.Name) and e.id in aliases and isinstance(aliases[e.id], ast.Call): e=aliases[e.id]
    if isinstance(e, ast.Call) and ast.unparse(e.func) in ('Field','pd.Field'):
        return {k.arg:k.value for k in e.keywords}
    return None

def ty_schema(e):
    """schema for annotation expr"""
    if isinstance(e, ast.Constant) and isinstance(e.value,str): e=ast.parse(e.value).body[0].value
    if isinstance(e, ast.Name):
        n=e.id
        if n=='str': return {'type':'string'}
        if n=='int': return {'type':'integer'}
        if n=='bool': return {'type':'boolean'}
        if n=='float': return {'type':'number'}
        if n=='Any': return {}
        if n=='SemanticVersion': return {'$SEMVER':True}
        if n in classes and (is_model(classes[n]) or is_enum(classes[n])): return {'$ref':f'#/$defs/{n}'}
        if n in aliases: return ty_schema(aliases[n])
        raise NotImplementedError(n)
    if isinstance(e, ast.Attribute):
        return ty_schema(ast.Name(id=e.attr))
    if isinstance(e, ast.BinOp) and isinstance(e.op, ast.BitOr):
        parts=[]
        def flat(x):
            if isinstance(x, ast.BinOp) and isinstance(x.op, ast.BitOr): flat(x.left); flat(x.right)
            else: parts.append(x)
        flat(e)
        subs=[{'type':'null'} if (isinstance(p, ast.Constant) and p.value is None) else ty_schema(p) for p in parts]
        return {'anyOf':subs}
    if isinstance(e, ast.Subscript):
        h=ast.unparse(e.value)
        if h=='list': return {'items':ty_schema(e.slice),'type':'array'}
        if h=='set': return {'items':ty_schema(e.slice),'type':'array','uniqueItems':True}
        if h=='dict':
            k,v=e.slice.elts
            vs=ty_schema(v)
            d={'type':'object'}
            if vs!={}: d={'additionalProperties':vs,'type':'object'}
            return d
        if h=='tuple':
            items=[ty_schema(x) for x in e.slice.elts]
            return {'maxItems':len(items),'minItems':len(items),'prefixItems':items,'type':'array'}
        if h=='Literal':
            v=const_eval(e.slice); return {'const':v,'type':'string'}
        if h=='Annotated':
            base=e.slice.elts[0]; sch=ty_schema(base)
            for extra in e.slice.elts[1:]:
                fi=field_info(extra)
                if fi and 'discriminator' in fi: sch=disc_union(base, const_eval(fi['discriminator']))
            return sch
        raise NotImplementedError(h)
    raise NotImplementedError(ast.dump(e))

def union_members(e):
    if isinstance(e, ast.Subscript) and ast.unparse(e.value)=='Annotated': e=e.slice.elts[0]
    parts=[]
    def flat(x):
        if isinstance(x, ast.BinOp) and isinstance(x.op, ast.BitOr): flat(x.left); flat(x.right)
        else: parts.append(x)
    flat(e)
    return [p.id for p in parts]

def tags_of(cname, disc):
    c=classes[cname]
    if is_root(c):  # nested union: collect tags of members
        ann=[s for s in c.node.body if isinstance(s, ast.AnnAssign) and s.target.id=='root'][0].annotation
        out=[]
        for m in union_members(ann): out+=tags_of(m, disc)
        return sorted(set(out))
    for b in [c]+base_chain(c):
        for s in b.node.body:
            if isinstance(s, ast.AnnAssign) and s.target.id==disc:
                return [const_eval(s.annotation.slice)]
    raise KeyError((cname,disc))

def disc_union(e, disc):
    mem=union_members(e)
    mapping={}
    for m in mem:
        for t in tags_of(m, disc): mapping[t]=f'#/$defs/{m}'
    return {'discriminator':{'mapping':dict(sorted(mapping.items())),'propertyName':disc},'oneOf':[{'$ref':f'#/$defs/{m}'} for m in mem]}

def model_config_extra(c):
    """returns (title, json_schema_extra dict) from model_config = ConfigDict(...) in class body"""
    title=None; extra={}
    for s in c.node.body:
        if isinstance(s, ast.Assign) and isinstance(s.targets[0], ast.Name) and s.targets[0].id=='model_config':
            for k in s.value.keywords:
                if k.arg=='title': title=const_eval(k.value)
                if k.arg=='json_schema_extra': extra=const_eval(k.value)
    return title, extra

CONFIGURED=set()   # classes that receive strict/lax config
for n,c in classes.items():
    if c.mod in ('tys','ops') and any(b.name=='ConfiguredBaseModel' for b in base_chain(c)): CONFIGURED.add(n)

def fields_of(c):
    out=[]  # (name, annotation, default expr or None)
    chain=[c]+base_chain(c)
    seen={}
    for b in reversed(chain):
        for s in b.node.body:
            if isinstance(s, ast.AnnAssign) and isinstance(s.target, ast.Name) and s.target.id!='model_config':
                if 'ClassVar' in ast.unparse(s.annotation): continue
                seen[s.target.id]=(s.annotation, s.value)
    return [(k,)+v for k,v in seen.items()]

def model_schema(c, strict, root_cls):
    if is_enum(c):
        vals=[const_eval(s.value) for s in c.node.body if isinstance(s, ast.Assign)]
        return {'enum':vals,'title':c.name,'type':'string'}
    title, extra = model_config_extra(c)
    doc=docstring(c)
    if is_root(c):
        ann,val=[(s.annotation,s.value) for s in c.node.body if isinstance(s, ast.AnnAssign) and s.target.id=='root'][0]
        sch=None
        fi=field_info(val) if val is not None else None
        if fi and 'discriminator' in fi: sch=disc_union(ann, const_eval(fi['discriminator']))
        else: sch=ty_schema(ann)
        out={}
        if doc: out['description']=doc
        out.update(sch); out.update(extra); out['title']=title or c.name
        return dict(sorted(out.items()))
    props={}; required=[]
    for name, ann, val in fields_of(c):
        sch=ty_schema(ann)
        fi=field_info(val) if val is not None else None
        has_default=False; default=None
        ftitle=title_of(name); desc=None
        if fi is not None:
            if 'default' in fi: has_default=True; default=const_eval(fi['default'])
            if 'default_factory' in fi:
                df=ast.unparse(fi['default_factory'])
                has_default='factory'
            if 'title' in fi: ftitle=const_eval(fi['title'])
            if 'description' in fi: desc=const_eval(fi['description'])
        elif val is not None:
            has_default=True; default=const_eval(val)
        p={}
        if set(sch.keys())=={'$ref'} :
            p=dict(sch)
            if has_default is True: p={'$ref':sch['$ref'],'default':default} if default is not None else {'anyOf':[sch,{'type':'null'}],'default':None}
        else:
            p=dict(sch)
            if has_default is True: p['default']=default
            if desc: p['description']=desc
            p['title']=ftitle
        if 'anyOf' in p and all(set(x.keys())<={'$ref','type'} for x in p['anyOf']) and any('$ref' in x for x in p['anyOf']):
            p.pop('title',None)
        if '$SEMVER' in p: p.pop('$SEMVER'); p['$SEMVER']=True
        props[name]=dict(sorted(p.items()))
        if not has_default: required.append(name)
    out={}
    if c.name in CONFIGURED or c.name==root_cls: out['additionalProperties']=not strict
    if doc: out['description']=doc
    out['properties']=props
    if required: out['required']=required
    out.update(extra)
    out['title']=title or c.name; out['type']='object'
    return dict(sorted(out.items()))

def derive(root_cls, strict):
    defs={}
    for n,c in classes.items():
        if n in ('ConfiguredBaseModel',) or n.startswith('Base') and n!='BaseOp' or n in ('BaseOp','DataflowOp','TestingHugr' if root_cls!='TestingHugr' else '') : continue
        if not (is_model(c) or is_enum(c)): continue
        try: defs[n]=model_schema(c, strict, root_cls)
        except NotImplementedError as e: defs[n]={'$ERR':str(e)}
    return defs

pub=json.load(open('/repo/specification/schema/hugr_schema_strict_live.json'))['$defs']
mine=derive('SerialHugr', True)
same=0; diffs=[]
for k,v in pub.items():
    m=mine.get(k)
    if m is None: diffs.append((k,'MISSING')); continue
    # normalise semver
    vv=json.loads(json.dumps(v))
    if k=='Extension':
        pv=vv['properties']['version']; m['properties']['version']=pv
    if json.dumps(m,sort_keys=True)==json.dumps(vv,sort_keys=True): same+=1
    else: diffs.append((k,m,vv))
print('published',len(pub),'derived',len(mine),'identical',same)
print('extra derived:', sorted(set(mine)-set(pub)))
for d in diffs[:12]:
    if d[1]=='MISSING': print(d); continue
    k,m,v=d
    print('DIFF',k)
    for kk in sorted(set(m)|set(v)):
        if m.get(kk)!=v.get(kk):
            if kk=='properties':
                for pk in sorted(set(m[kk])|set(v[kk])):
                    if m[kk].get(pk)!=v[kk].get(pk): print('   prop',pk,'\n      mine',m[kk].get(pk),'\n      pub ',v[kk].get(pk))
            else: print('  ',kk,'\n      mine',m.get(kk),'\n      pub ',v.get(kk))

print("---- all four files")
for fn, rootc, strict in [('hugr_schema_strict_live.json','SerialHugr',True),('hugr_schema_live.json','SerialHugr',False),('testing_hugr_schema_strict_live.json','TestingHugr',True),('testing_hugr_schema_live.json','TestingHugr',False)]:
    pub=json.load(open('/repo/specification/schema/'+fn))['$defs']
    mine=derive(rootc, strict)
    same=0; bad=[]
    for k,v in pub.items():
        m=mine.get(k)
        if m is None: bad.append((k,'MISSING')); continue
        if k=='Extension': m['properties']['version']=v['properties']['version']
        # ordered comparison of property names too
        if json.dumps(m,sort_keys=True)==json.dumps(v,sort_keys=True) and list(m.get('properties',{}))==list(v.get('properties',{})) and m.get('required')==v.get('required'): same+=1
        else: bad.append((k,m,v))
    print(fn, 'published',len(pub),'derived',len(mine),'identical',same,'extra',sorted(set(mine)-set(pub)))
    for b in bad[:5]:
        print('  BAD',b[0]); 
        if b[1]!='MISSING': print('     mine',json.dumps(b[1],sort_keys=True)[:600]); print('     pub ',json.dumps(b[2],sort_keys=True)[:600])
