"""Spike: C11.R1 structural recursion of `resolve` in hugr/tys.py and C12.R6 binding table."""
import ast, pathlib, re, sys
ROOT = pathlib.Path("/repo")
tys = ast.parse((ROOT/"hugr-py/src/hugr/tys.py").read_text())
REC_ANN = re.compile(r"\b(Type|TypeRow|TypeArg|FunctionType|PolyFuncType|Sum)\b")
NONREC = {"TypeBound", "TypeParam"}
classes = {n.name: n for n in tys.body if isinstance(n, ast.ClassDef)}
def bases(c): 
    out=[]
    for b in c.bases:
        nm=ast.unparse(b)
        if nm in classes: out.append(classes[nm]); out+=bases(classes[nm])
    return out
def fields(c):
    out={}
    for k in reversed([c]+bases(c)):
        for s in k.body:
            if isinstance(s, ast.AnnAssign) and isinstance(s.target, ast.Name):
                out[s.target.id]=ast.unparse(s.annotation)
    return out
def find(c, name):
    for k in [c]+bases(c):
        for s in k.body:
            if isinstance(s, ast.FunctionDef) and s.name==name: return k, s
    return None, None
ALREADY = {"ExtType": "resolved form", "UnitSum": "no element types"}
for name, c in classes.items():
    fs = fields(c)
    rec = {f: a for f, a in fs.items() if REC_ANN.search(a) and not a.startswith("TypeBound") and "TypeParam" not in a}
    if not rec: continue
    owner, m = find(c, "resolve")
    if m is None:
        print(f"{name}: rec={list(rec)} -> not a Type/TypeArg (no resolve in MRO); skipped")
        continue
    protocol_default = owner is not None and owner.name in ("Type", "TypeArg")
    if protocol_default:
        status = "accepted: " + ALREADY[name] if name in ALREADY else "VIOLATION: recursive fields but inherits identity resolve"
        print(f"{name}: rec={list(rec)} -> {status}")
        continue
    # which fields are passed through .resolve(registry)?
    resolved=set(); raw=set()
    for n in ast.walk(m):
        if isinstance(n, ast.Call) and isinstance(n.func, ast.Attribute) and n.func.attr=="resolve":
            # find self.<f> that feeds the receiver (directly or via comprehension iter)
            pass
    srcm = ast.unparse(m)
    for f in rec:
        # field is resolved if every Load of self.f is (a) receiver of .resolve, or (b) the iter of a comprehension whose elt applies .resolve to the target
        uses=[n for n in ast.walk(m) if isinstance(n, ast.Attribute) and n.attr==f and isinstance(n.value, ast.Name) and n.value.id=="self"]
        ok=bool(uses)
        for u in uses:
            good=False
            for n in ast.walk(m):
                if isinstance(n, ast.Call) and isinstance(n.func, ast.Attribute) and n.func.attr=="resolve" and n.func.value is u: good=True
                if isinstance(n, (ast.ListComp, ast.GeneratorExp)):
                    gens=n.generators
                    if any(g.iter is u for g in gens) and ".resolve(registry)" in ast.unparse(n.elt): good=True
                    # nested: [[ty.resolve for ty in row] for row in self.variant_rows]
            if not good: ok=False
        print(f"{name}.{f}: {'resolved' if ok else 'NOT resolved (passed through raw)'}  [{owner.name}.resolve]")
print("---- binding table")
model = ast.parse((ROOT/"hugr-py/src/hugr/model/__init__.py").read_text())
py = {}
for n in model.body:
    if isinstance(n, ast.ClassDef) and any("dataclass" in ast.unparse(d) for d in n.decorator_list):
        py[n.name]=[s.target.id for s in n.body if isinstance(s, ast.AnnAssign)]
rs = (ROOT/"hugr-model/src/v0/ast/python.rs").read_text()
# class arms: "Name" => { ... getattr("x") ... }  and  FromPyObject for Name { ... getattr("x") }
rust = {}
for mt in re.finditer(r'impl<\'py> pyo3::FromPyObject<\'py> for (\w+) \{(.*?)\n\}\n', rs, re.S):
    ty, body = mt.group(1), mt.group(2)
    arms = list(re.finditer(r'"(\w+)" => (\{.*?\n            \}|[^\n]*,)', body, re.S))
    if arms:
        for a in arms:
            rust[a.group(1)] = re.findall(r'getattr\("(\w+)"\)', a.group(2))
    else:
        rust[ty] = re.findall(r'getattr\("(\w+)"\)', body)
calls = {}
for mt in re.finditer(r'getattr\("(\w+)"\)\?;\s*py_class\.(call0|call1)\((.*?)\)\s*\n', rs, re.S):
    cls, kind, args = mt.groups()
    n = 0 if kind=="call0" else len([a for a in re.split(r',\s*', args.strip().strip('()').strip()) if a.strip()])
    calls[cls]=n
bad=0
for cls, fs in py.items():
    r = rust.get(cls)
    if cls=="Splice": r = rust.get("SeqPart")  # handled in SeqPart impl
    if r is None: print("no rust arm for", cls); bad+=1; continue
    if list(r)!=fs: print("MISMATCH", cls, fs, r); bad+=1
    if cls in calls and calls[cls]!=len(fs): print("ARITY", cls, calls[cls], len(fs)); bad+=1
print(len(py), "python dataclasses,", len(rust), "rust arms,", len(calls), "constructor calls, mismatches:", bad)
