import ast, pathlib, collections
root = pathlib.Path('/repo/hugr-py/src/hugr')
kinds = collections.Counter(); calls=collections.Counter(); nstmts=collections.Counter(); multi=[]
for p in sorted(root.rglob('*.py')):
    tree = ast.parse(p.read_text())
    for cls in [n for n in ast.walk(tree) if isinstance(n, ast.ClassDef)]:
        for f in cls.body:
            if isinstance(f, ast.FunctionDef) and f.name in ('_to_serial','deserialize','_to_serial_root','to_custom_op','type_bound','outer_signature','inner_signature','resolve','type_','to_value','nth_inputs','nth_outputs','cached_signature','type_args','_to_opaque','num_out','signature','_inputs'):
                body=[s for s in f.body if not (isinstance(s, ast.Expr) and isinstance(s.value, ast.Constant))]
                sk=tuple(type(s).__name__ for s in body)
                nstmts[sk]+=1
                if sk not in (('Return',),):
                    multi.append((str(p.relative_to(root)), cls.name, f.name, sk))
                for n in ast.walk(f):
                    kinds[type(n).__name__]+=1
                    if isinstance(n, ast.Call):
                        calls[ast.unparse(n.func)]+=1
print(nstmts.most_common())
for m in multi: print(m)
print(kinds.most_common())
print([c for c in calls.most_common(70)])
