"""Feasibility spike for engine C (expression normal form / CODEC composition).

For every serial operation class S in hugr/_serialization/ops.py and its partner
class X in hugr/ops.py, compose  S.deserialize ∘ X._to_serial  symbolically (pure
AST rewriting, nothing is imported or executed) and report the init-fields of X
that do not come back as themselves.
"""
from __future__ import annotations

import ast
import pathlib
import sys

ROOT = pathlib.Path(sys.argv[1] if len(sys.argv) > 1 else "/repo/hugr-py/src/hugr")
FILES = {
    "ops": "ops.py", "tys": "tys.py", "val": "val.py",
    "sops": "_serialization/ops.py", "stys": "_serialization/tys.py",
}
TREES = {k: ast.parse((ROOT / v).read_text()) for k, v in FILES.items()}
# module alias -> module key, as seen from each module
ALIAS = {
    "ops": {"sops": "sops", "tys": "tys", "val": "val"},
    "tys": {"stys": "stys"},
    "val": {"sops": "sops", "stys": "stys", "tys": "tys"},
    "sops": {"stys": "stys", "tys": "tys", "ops": "ops", "val": "val"},
    "stys": {"tys": "tys"},
}


class Cls:
    def __init__(self, mod, node):
        self.mod, self.node, self.name = mod, node, node.name
        self.methods = {n.name: n for n in node.body if isinstance(n, ast.FunctionDef)}
        self.fields = []  # (name, has_default)
        for n in node.body:
            if isinstance(n, ast.AnnAssign) and isinstance(n.target, ast.Name):
                if "ClassVar" in ast.unparse(n.annotation):
                    continue
                self.fields.append((n.target.id, n.value is not None))

    def is_prop(self, name):
        m = self.methods.get(name)
        return m is not None and any(ast.unparse(d) in ("property", "cached_property") for d in m.decorator_list)


CLASSES = {}
for mod, t in TREES.items():
    for n in t.body:
        if isinstance(n, ast.ClassDef):
            CLASSES[(mod, n.name)] = Cls(mod, n)
# names imported into sops from stys
for n in TREES["sops"].body:
    if isinstance(n, ast.ImportFrom) and n.module == "tys":
        for a in n.names:
            if ("stys", a.name) in CLASSES:
                CLASSES[("sops", a.asname or a.name)] = CLASSES[("stys", a.name)]


def bases(c):
    out = []
    for b in c.node.bases:
        nm = ast.unparse(b).split("[")[0]
        if "." in nm:
            al, nm2 = nm.split(".", 1)
            k = (ALIAS[c.mod].get(al, al), nm2)
        else:
            k = (c.mod, nm)
        if k in CLASSES:
            out.append(CLASSES[k])
            out += bases(CLASSES[k])
    return out


def mro(c):
    return [c] + bases(c)


def find_method(c, name):
    for k in mro(c):
        if name in k.methods:
            return k, k.methods[name]
    return None, None


def init_params(c):
    """ordered init parameter names of dataclass / pydantic model / explicit __init__"""
    k, m = find_method(c, "__init__")
    if m is not None:
        return [a.arg for a in m.args.args[1:]] + [a.arg for a in m.args.kwonlyargs]
    out = []
    for k in reversed(mro(c)):
        for f, _ in k.fields:
            if f in out:
                out.remove(f)
            out.append(f)
    return out


# ---- terms -------------------------------------------------------------
def F(*path):
    return ("field", path)


def show(t):
    k = t[0]
    if k == "field":
        return ".".join(t[1])
    if k == "ctor":
        return f"{t[1][1]}(" + ", ".join(f"{a}={show(v)}" for a, v in t[2].items()) + ")"
    if k == "enc" or k == "dec":
        return f"{k}({show(t[1])})"
    if k == "map":
        return f"map[{t[1]}]({show(t[2])})"
    if k == "list":
        return "[" + ", ".join(show(x) for x in t[1]) + "]"
    if k == "splat":
        return "*" + show(t[1])
    if k == "const":
        return repr(t[1])
    if k == "attr":
        return f"{show(t[1])}.{t[2]}"
    if k == "opaque":
        return f"?{t[1]}"
    return str(t)


class Opaque(Exception):
    pass


def compose_fn(f, g):
    # map[f] after map[g]
    if (f, g) in (("dec", "enc"), ("enc", "dec")):
        return "id"
    if g == "id":
        return f
    if f == "id":
        return g
    if f.startswith("map:") and g.startswith("map:"):
        inner = compose_fn(f[4:], g[4:])
        return "id" if inner == "id" else "map:" + inner
    return f"{f}.{g}"


def mk_map(fn, t):
    if t[0] == "map":
        fn2 = compose_fn(fn, t[1])
        return t[2] if fn2 == "id" else ("map", fn2, t[2])
    if t[0] == "list":
        return ("list", [apply_fn(fn, x) for x in t[1]])
    return ("map", fn, t)


def apply_fn(fn, t):
    if fn == "enc":
        return enc(t)
    if fn == "dec":
        return dec(t)
    if fn.startswith("map:"):
        return mk_map(fn[4:], t)
    return ("opaque", f"{fn}({show(t)})")


def enc(t):
    if t[0] == "dec":
        return t[1]
    if t[0] == "ctor":
        c = CLASSES[t[1]]
        k, m = find_method(c, "_to_serial")
        if m is not None and len(real_body(m)) >= 1:
            return eval_method(k, m, t)
    return ("enc", t)


def dec(t):
    if t[0] == "enc":
        return t[1]
    if t[0] == "ctor":
        c = CLASSES[t[1]]
        k, m = find_method(c, "deserialize")
        if m is not None and real_body(m):
            return eval_method(k, m, t)
    return ("dec", t)


def project(t, name):
    if t[0] == "ctor":
        if name in t[2]:
            return t[2][name]
        c = CLASSES[t[1]]
        if name == "root" and "root" not in t[2]:
            raise Opaque(f"no root in {show(t)}")
        # property on a constructed object
        for k in mro(c):
            if k.is_prop(name):
                return eval_method(k, k.methods[name], t)
        # defaulted field
        return ("default", t[1], name)
    if t[0] == "field":
        return ("field", t[1] + (name,))
    return ("attr", t, name)


def real_body(m):
    return [s for s in m.body if not (isinstance(s, ast.Expr) and isinstance(s.value, ast.Constant))
            and not isinstance(s, (ast.ImportFrom, ast.Import, ast.Assert))]


def eval_method(cls, m, self_t, args=None, depth=0):
    env = {"self": self_t}
    if args:
        env.update(args)
    body = real_body(m)
    for s in body:
        if isinstance(s, ast.Assign) and len(s.targets) == 1 and isinstance(s.targets[0], ast.Name):
            env[s.targets[0].id] = ev(s.value, env, cls)
        elif isinstance(s, ast.Return):
            return ev(s.value, env, cls)
        else:
            raise Opaque(f"{cls.name}.{m.name}: statement {type(s).__name__}")
    raise Opaque(f"{cls.name}.{m.name}: no return")


def resolve_class(expr, cls):
    """expr is the func of a Call; returns class key or None"""
    s = ast.unparse(expr)
    if "." in s:
        al, nm = s.split(".", 1)
        mod = ALIAS[cls.mod].get(al)
        if mod and (mod, nm) in CLASSES:
            return (mod, nm)
        return None
    if (cls.mod, s) in CLASSES:
        return (cls.mod, s)
    return None


def ev(e, env, cls):
    if isinstance(e, ast.Name):
        if e.id in env:
            return env[e.id]
        return ("opaque", e.id)
    if isinstance(e, ast.Constant):
        return ("const", e.value)
    if isinstance(e, ast.Attribute):
        base = ev(e.value, env, cls)
        if base[0] == "field" and base[1] == ("self",):
            pass
        # property on symbolic self of the class under analysis
        if base == SELF.get("term") and SELF.get("cls") is not None:
            c = SELF["cls"]
            for k in mro(c):
                if k.is_prop(e.attr):
                    return eval_method(k, k.methods[e.attr], base)
            return ("field", (e.attr,))
        return project(base, e.attr)
    if isinstance(e, ast.List):
        items = []
        for x in e.elts:
            if isinstance(x, ast.Starred):
                v = ev(x.value, env, cls)
                if v[0] == "list":
                    items += v[1]
                else:
                    items.append(("splat", v))
            else:
                items.append(ev(x, env, cls))
        if len(items) == 1 and items[0][0] == "splat":
            return items[0][1]
        return ("list", items)
    if isinstance(e, ast.ListComp) and len(e.generators) == 1 and not e.generators[0].ifs:
        g = e.generators[0]
        src = ev(g.iter, env, cls)
        var = g.target.id if isinstance(g.target, ast.Name) else None
        if var is None:
            raise Opaque("comprehension target")
        body = ev(e.elt, {**env, var: ("var", var)}, cls)
        fn = as_fn(body, var)
        return mk_map(fn, src)
    if isinstance(e, ast.GeneratorExp) and len(e.generators) == 1:
        return ev(ast.ListComp(elt=e.elt, generators=e.generators), env, cls)
    if isinstance(e, ast.Call):
        fs = ast.unparse(e.func)
        if fs == "_check_complete" and len(e.args) == 2:
            return ev(e.args[1], env, cls)
        if fs == "ser_it":
            return mk_map("enc", ev(e.args[0], env, cls))
        if fs == "deser_it":
            return mk_map("dec", ev(e.args[0], env, cls))
        if fs == "list" and len(e.args) == 1:
            return ev(e.args[0], env, cls)
        if fs == "map" and len(e.args) == 2 and ast.unparse(e.args[0]) == "ser_it":
            return mk_map("map:enc", ev(e.args[1], env, cls))
        if isinstance(e.func, ast.Attribute) and e.func.attr in ("_to_serial", "_to_serial_root") and not e.args:
            return enc(ev(e.func.value, env, cls))
        if isinstance(e.func, ast.Attribute) and e.func.attr == "deserialize" and not e.args:
            return dec(ev(e.func.value, env, cls))
        if isinstance(e.func, ast.Attribute) and not e.args and not e.keywords:
            # zero-arg helper method on self (e.g. self._inputs(), self.inner_signature())
            base = ev(e.func.value, env, cls)
            if base == SELF.get("term"):
                k, m = find_method(SELF["cls"], e.func.attr)
                if m is not None:
                    return eval_method(k, m, base)
        ck = resolve_class(e.func, cls)
        if ck is not None:
            c = CLASSES[ck]
            params = init_params(c)
            kw = {}
            pos = list(e.args)
            if pos and isinstance(pos[0], ast.Starred):
                raise Opaque("starred ctor args")
            for p, a in zip(params, pos):
                kw[p] = ev(a, env, cls)
            for k in e.keywords:
                kw[k.arg] = ev(k.value, env, cls)
            # RootModel wrappers are transparent
            if set(kw) == {"root"}:
                return kw["root"]
            # eta rule for the sum sugar equality: Sum(variant_rows=t.variant_rows) == t
            if ck == ("tys", "Sum") and set(kw) == {"variant_rows"}:
                vr = kw["variant_rows"]
                if vr[0] == "field" and vr[1][-1] == "variant_rows" and len(vr[1]) > 1:
                    return ("field", vr[1][:-1])
            # explicit __init__ that normalises into fields: keep as ctor over params
            return ("ctor", ck, kw)
        return ("opaque", ast.unparse(e)[:60])
    if isinstance(e, ast.IfExp):
        return ("opaque", "ifexp")
    if isinstance(e, ast.BinOp) and isinstance(e.op, ast.Add):
        a, b = ev(e.left, env, cls), ev(e.right, env, cls)
        la = a[1] if a[0] == "list" else [("splat", a)]
        lb = b[1] if b[0] == "list" else [("splat", b)]
        return ("list", la + lb)
    return ("opaque", ast.unparse(e)[:60])


def as_fn(body, var):
    v = ("var", var)
    if body == v:
        return "id"
    if body == ("enc", v):
        return "enc"
    if body == ("dec", v):
        return "dec"
    if body[0] == "map" and body[2] == v:
        return "map:" + body[1]
    if body[0] == "attr" and body[1] == v and body[2] == "root":
        return "id"   # RootModel unwrap
    if body[0] in ("enc", "dec") and body[1] == ("attr", v, "root"):
        return body[0]
    return "opaque:" + show(body)


SELF = {}

# ---- drive: ops codec ----------------------------------------------------
def partner_serial(xcls):
    k, m = find_method(xcls, "_to_serial")
    if m is None:
        return None
    ret = m.returns
    if ret is None:
        return None
    s = ast.unparse(ret)
    if s.startswith("sops."):
        return ("sops", s[5:])
    return None


WHITELIST_DERIVED = {"num_out"}
results = []
for (mod, name), x in sorted(CLASSES.items()):
    if mod != "ops":
        continue
    if "_to_serial" not in x.methods:
        continue
    sk = partner_serial(x)
    if sk is None or sk not in CLASSES:
        continue
    SELF.clear()
    self_t = ("field", ("self",))
    SELF.update(term=self_t, cls=x)
    try:
        ser = eval_method(x, x.methods["_to_serial"], self_t, {"parent": ("opaque", "parent")})
        back = dec(ser)
    except Opaque as e:
        results.append((name, "OPAQUE", str(e)))
        continue
    if back[0] != "ctor":
        results.append((name, "NONCTOR", show(back)))
        continue
    target = CLASSES[back[1]]
    params = init_params(target)
    problems = []
    for p in params:
        if p in WHITELIST_DERIVED:
            continue
        got = back[2].get(p)
        if got is None:
            problems.append(f"{p}: not passed by decoder (default)")
        elif got != ("field", (p,)):
            problems.append(f"{p}: comes back as {show(got)}")
    results.append((name, f"-> {back[1][1]}", problems))

for r in results:
    print(r[0], r[1], "OK" if r[2] == [] else r[2])
