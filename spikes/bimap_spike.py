"""Spike: mirror discipline (C18.R2/R3) on hugr.utils.BiMap by path enumeration over the AST."""
import ast, sys, pathlib, itertools
src = pathlib.Path(sys.argv[1] if len(sys.argv) > 1 else "/repo/hugr-py/src/hugr/utils.py").read_text()
tree = ast.parse(src)
bimap = [n for n in tree.body if isinstance(n, ast.ClassDef) and n.name == "BiMap"][0]
MAPS = {"fwd", "bck"}
other = {"fwd": "bck", "bck": "fwd"}

def map_of(e):
    """self.fwd / self.bck -> 'fwd'/'bck'"""
    if isinstance(e, ast.Attribute) and isinstance(e.value, ast.Name) and e.value.id == "self" and e.attr in MAPS:
        return e.attr
    return None

def norm(e, env):
    """normalise key expression to a tuple term; substitute locals"""
    if isinstance(e, ast.Name):
        return env.get(e.id, ("var", e.id))
    if isinstance(e, ast.NamedExpr):
        return norm(e.value, env)
    if isinstance(e, ast.Subscript) and map_of(e.value):
        return ("partner", map_of(e.value), norm(e.slice, env), "strict")
    if isinstance(e, ast.Call) and isinstance(e.func, ast.Attribute) and e.func.attr == "get" and map_of(e.func.value):
        return ("partner", map_of(e.func.value), norm(e.args[0], env), "get")
    return ("expr", ast.unparse(e))

def paths(stmts):
    """enumerate acyclic paths through if-statements only: yields list of (kind, payload)"""
    if not stmts:
        yield []
        return
    s, rest = stmts[0], stmts[1:]
    if isinstance(s, ast.If):
        for branch, taken in ((s.body, True), (s.orelse, False)):
            for p1 in paths(branch):
                for p2 in paths(rest):
                    yield [("test", (s.test, taken))] + p1 + p2
    elif isinstance(s, (ast.Return, ast.Raise)):
        yield [("stmt", s)]
    else:
        for p2 in paths(rest):
            yield [("stmt", s)] + p2

def analyse(fn):
    problems = []
    npaths = 0
    for path in paths([s for s in fn.body if not (isinstance(s, ast.Expr) and isinstance(s.value, ast.Constant))]):
        npaths += 1
        env = {}
        ops = []  # (op, map, key, value, guard-kind)
        guards = {}  # local name -> test kind
        for kind, payload in path:
            if kind == "test":
                test, taken = payload
                # recognise (x := M.get(k)) is not None | x is not None | k in M | bare truthiness
                t = test
                gk = "truthy"
                if isinstance(t, ast.Compare) and len(t.ops) == 1:
                    if isinstance(t.ops[0], ast.IsNot) and isinstance(t.comparators[0], ast.Constant) and t.comparators[0].value is None:
                        gk = "is-not-none"; t = t.left
                    elif isinstance(t.ops[0], ast.In) and map_of(t.comparators[0]):
                        gk = "in"; t = t.left
                    elif isinstance(t.ops[0], ast.NotEq):
                        gk = "other"
                if isinstance(t, ast.NamedExpr):
                    env[t.target.id] = norm(t.value, env)
                    guards[t.target.id] = gk
                elif isinstance(t, ast.Name):
                    guards[t.id] = gk
                if gk == "truthy" and isinstance(t, (ast.NamedExpr, ast.Name)):
                    nm = t.target.id if isinstance(t, ast.NamedExpr) else t.id
                    term = env.get(nm)
                    if term and term[0] == "partner":
                        problems.append(f"{fn.name}: presence of `{nm}` tested by truthiness (falsy keys/values break) line {test.lineno}")
                continue
            s = payload
            if isinstance(s, ast.Assign) and len(s.targets) == 1:
                tg = s.targets[0]
                if isinstance(tg, ast.Subscript) and map_of(tg.value):
                    ops.append(("set", map_of(tg.value), norm(tg.slice, env), norm(s.value, env), s.lineno))
                elif isinstance(tg, ast.Name):
                    env[tg.id] = norm(s.value, env)
            elif isinstance(s, ast.Delete):
                for tg in s.targets:
                    if isinstance(tg, ast.Subscript) and map_of(tg.value):
                        ops.append(("del", map_of(tg.value), norm(tg.slice, env), None, s.lineno))
        # mirror rules
        sets = [(m, k, v) for (o, m, k, v, _) in ops if o == "set"]
        for (o, m, k, v, ln) in ops:
            if o == "set":
                if (other[m], v, k) not in sets:
                    problems.append(f"{fn.name}: store {m}[{k}]={v} (line {ln}) has no mirrored store in {other[m]} on this path")
        # eviction requirement for insertion pairs: both partners must be evicted on the path
        # where the corresponding guard was taken. We check on the all-guards-taken path.
        for (o, m, k, v, ln) in ops:
            if o == "del":
                if k[0] == "partner" and k[1] == other[m]:
                    # delete the partner (in m) of key k[2] of other map: k[2]'s entry in other[m] must be deleted/overwritten later
                    later = [(o2, m2, k2) for (o2, m2, k2, v2, ln2) in ops if ln2 > ln and m2 == other[m] and k2 == k[2]]
                    earlier_del_of_key_in_m = None
                    if not later:
                        problems.append(f"{fn.name}: del {m}[partner of {k[2]}] (line {ln}) but {other[m]}[{k[2]}] is neither deleted nor overwritten afterwards")
                else:
                    # plain delete of key k in m: must be preceded by del other[m][ m[k] ]
                    ok = any(o2 == "del" and m2 == other[m] and k2[0] == "partner" and k2[1] == m and k2[2] == k and ln2 <= ln
                             for (o2, m2, k2, v2, ln2) in ops)
                    if not ok:
                        problems.append(f"{fn.name}: del {m}[{k}] (line {ln}) without prior deletion of its partner in {other[m]}")
        if fn.name == "insert_left":
            path_tests = [taken for kind, (t, taken) in [(k, p) for k, p in path if k == "test"]]
            if all(path_tests) and path_tests:
                dels = [(m, k) for (o, m, k, v, _) in ops if o == "del"]
                for (m, k, v) in sets:
                    need = (m, ("partner", other[m], v, "get"))
                    alt = (m, ("partner", other[m], v, "strict"))
                    if need not in dels and alt not in dels:
                        problems.append(f"{fn.name}: inserting into {m} without evicting the pair that already holds value {v}")
    return npaths, problems

tot = 0
allp = []
for fn in bimap.body:
    if isinstance(fn, ast.FunctionDef):
        writes = [n for n in ast.walk(fn) if (isinstance(n, ast.Subscript) and map_of(n.value) and isinstance(n.ctx, (ast.Store, ast.Del)))]
        if not writes or fn.name == "__init__":
            continue
        n, probs = analyse(fn)
        tot += n
        print(f"{fn.name}: {n} paths, {len(probs)} problems")
        allp += probs
for p in sorted(set(allp)):
    print("  ", p)
