#!/bin/sh
# offline setup: nothing to build; verify that the analyser compiles with the interpreter it will use
cd "$(dirname "$0")" || exit 1
PY=/venv/bin/python
[ -x "$PY" ] || PY=python3
mkdir -p evidence
exec env PYTHONDONTWRITEBYTECODE=1 "$PY" - <<'PYEOF'
import pathlib, sys
n = 0
for p in pathlib.Path("hv").rglob("*.py"):
    compile(p.read_text(), str(p), "exec"); n += 1
print(f"hv: {n} modules compile under python {sys.version.split()[0]}")
PYEOF
